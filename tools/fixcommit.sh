#!/bin/bash
# usage: fixcommit.sh <message-file>  - run the pinned suite in /repo; commit the working tree change if 911 pass
cd /repo || exit 2
out=$(/venv/bin/python -m pytest -q -p no:cacheprovider -n 8 2>&1 | tail -1)
echo "$out"
echo "$out" | grep -q "^911 passed" || { echo "NOT committing"; exit 1; }
git commit -qa -F "$1" && git log --oneline | head -1
