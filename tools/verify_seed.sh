#!/bin/bash
# usage: verify_seed.sh <tag>   (reads /tmp/seed/<tag>/{patch.diff,demo.py,meta.json})
# Confirms in a fresh scratch worktree: suite passes with the patch, demo fails with it and passes without.
# On success copies the seed to /verif/seeded/<tag>/ and removes the scratch worktree.
tag=$1
src=/tmp/seed/$tag
wt=/tmp/wt/v_$tag
[ -f $src/patch.diff ] || { echo "no patch for $tag"; exit 2; }
git -C /repo worktree add -q --detach $wt HEAD || exit 2
cd $wt
res=ok
git apply $src/patch.diff || res="patch-does-not-apply"
if [ $res = ok ]; then
  out=$(PYTHONPATH=$wt/src /venv/bin/python -m pytest -q -p no:cacheprovider -n 8 2>&1 | tail -1)
  echo "suite with patch: $out"
  echo "$out" | grep -q "911 passed" || res="suite-fails"
  PYTHONPATH=$wt/src timeout 300 /venv/bin/python $src/demo.py >/tmp/seed/$tag/demo_patched.out 2>&1; rc1=$?
  echo "demo with patch: rc=$rc1"
  [ $rc1 -ne 0 ] || res="demo-does-not-fail"
  git checkout -q -- .
  PYTHONPATH=$wt/src timeout 300 /venv/bin/python $src/demo.py >/tmp/seed/$tag/demo_orig.out 2>&1; rc0=$?
  echo "demo without patch: rc=$rc0"
  [ $rc0 -eq 0 ] || res="demo-fails-on-original"
fi
cd /
git -C /repo worktree remove --force $wt
echo "RESULT $tag: $res"
if [ $res = ok ]; then
  mkdir -p /verif/seeded/$tag
  cp $src/patch.diff $src/demo.py /verif/seeded/$tag/
  /venv/bin/python - "$tag" <<'PY'
import json,sys
tag=sys.argv[1]
try:
    m=json.load(open(f'/tmp/seed/{tag}/meta.json'))
except Exception as e:
    m={"property":tag[:3],"summary":"(meta.json of the sub-agent unreadable)"}
m["verified_by_me"]={"suite_with_patch":"911 passed","demo_with_patch":"fails","demo_without_patch":"passes","how":"tools/verify_seed.sh in a fresh scratch worktree of /repo HEAD"}
json.dump(m,open(f'/verif/seeded/{tag}/meta.json','w'),indent=1)
PY
fi
