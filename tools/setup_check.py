#!/venv/bin/python
"""setup_cmd: nothing to build; make sure the interpreter, the engine and /repo are there."""
import os
import sys

sys.path.insert(0, os.path.dirname(os.path.dirname(os.path.abspath(__file__))))
sys.dont_write_bytecode = True
from sa.srcmodel import Repo  # noqa: E402

r = Repo()
print(f"static-analysis engine ready: {len(r.modules)} modules of jinja2 parsed with python {sys.version.split()[0]}")
