#!/venv/bin/python
"""Regenerate /verif/MANIFEST.json from sa/registry.py (keeps the manifest valid at all times)."""

from __future__ import annotations

import json
import os
import sys

HERE = os.path.dirname(os.path.dirname(os.path.abspath(__file__)))
sys.path.insert(0, HERE)

from sa.registry import HOOKS  # noqa: E402
from sa.registry import NOTES  # noqa: E402
from sa.registry import PROPS  # noqa: E402


def main() -> None:
    ids = [json.loads(line)["id"] for line in open(os.path.join(HERE, "properties.jsonl"), encoding="utf-8")]
    checks = []
    na = []
    for pid in ids:
        p = PROPS.get(pid)
        if p is None or not p.get("claimed") or not os.path.exists(os.path.join(HERE, "sa", "props", pid.lower() + ".py")):
            na.append({"property_id": pid, "reason": (p or {}).get("na_reason", "no static rule has been built for this property yet")})
            continue
        checks.append(
            {
                "property_id": pid,
                "quick_cmd": f"cd /verif && /venv/bin/python check.py {pid} --tier quick",
                "thorough_cmd": f"cd /verif && /venv/bin/python check.py {pid} --tier thorough",
                "evidence_file": f"/verif/evidence/{pid}.json",
                "replay_cmd_template": f"cd /verif && /venv/bin/python check.py {pid} --replay {{path}}",
                "engine": "sa",
                "level_claimed": {"category": "other", "text": p["text"], "design_ref": f"DESIGN.md section 4, {pid}"},
                "level_note": p["note"],
                "technique": p["technique"],
            }
        )
    manifest = {
        "version": 1,
        "setup_cmd": "cd /verif && /venv/bin/python tools/setup_check.py",
        "hooks": HOOKS,
        "engines": [
            {
                "name": "sa",
                "path": "/verif/sa",
                "serves_properties": [c["property_id"] for c in checks],
                "kind_free_text": "repository-specific static analysis over the ast of /repo/src/jinja2: table agreement, statement CFG / guard dominance, call-graph and raise/except inventories, sibling equivalence by erasure, an abstract interpretation of the code generator (emission skeletons parsed as Python), regex structure via re._parser",
            }
        ],
        "checks": checks,
        "notes": NOTES,
        "not_applicable": na,
    }
    with open(os.path.join(HERE, "MANIFEST.json"), "w", encoding="utf-8") as f:
        json.dump(manifest, f, indent=1)
        f.write("\n")
    print(f"MANIFEST.json: {len(checks)} checks, {len(na)} not applicable")


if __name__ == "__main__":
    main()
