#!/venv/bin/python
"""Run every check against every seeded change (and every reversed fix) on scratch copies.

    tools/scoreboard.py [tag ...]        # default: all of /verif/seeded and /verif/selftest/fixes

For each variant a copy of /repo/src/jinja2 is made under a temporary directory (outside /repo
and /verif, removed afterwards), the patch is applied there, and all checks run with
``--repo <copy>``.  A variant counts as DETECTED when some check reports a finding that the
clean tree does not produce.  /repo itself is never modified.
"""

from __future__ import annotations

import concurrent.futures as cf
import json
import os
import re
import shutil
import subprocess
import sys
import tempfile

VERIF = os.path.dirname(os.path.dirname(os.path.abspath(__file__)))
PROPS = [f"C{i:02d}" for i in range(1, 40)]


def run_check(prop: str, repo: str, evdir: str) -> tuple[int, list[str]]:
    env = dict(os.environ, VERIF_EVIDENCE_DIR=evdir, VERIF_NO_CACHE="" if repo == "/repo" else "")
    p = subprocess.run(["/venv/bin/python", os.path.join(VERIF, "check.py"), prop, "--repo", repo], capture_output=True, text=True, env=env, cwd=VERIF)
    lines = [re.sub(r" at [^ ]+?:\d*:?(?= \[)", "", ln).strip() for ln in p.stdout.splitlines() if "violated" in ln or "ANALYSIS-ERROR" in ln]
    return p.returncode, lines


def variant(tag: str, patch: str, reverse: bool, base: dict[str, set[str]], props: list[str]) -> dict:
    tmp = tempfile.mkdtemp(prefix=f"sb_{tag}_")
    try:
        os.makedirs(os.path.join(tmp, "src"))
        shutil.copytree("/repo/src/jinja2", os.path.join(tmp, "src", "jinja2"))
        cmd = ["patch", "-p1", "-s", "--fuzz=3", "--no-backup-if-mismatch", "-i", patch] + (["-R"] if reverse else [])
        r = subprocess.run(cmd, cwd=tmp, capture_output=True, text=True)
        if r.returncode != 0:
            return {"tag": tag, "status": "cannot-apply", "detail": (r.stdout + r.stderr)[-200:]}
        evdir = os.path.join(tmp, "evidence")
        os.makedirs(evdir)
        new: dict[str, list[str]] = {}
        errors = []
        for prop in props:
            rc, lines = run_check(prop, tmp, evdir)
            fresh = [ln for ln in lines if ln not in base.get(prop, set())]
            if fresh:
                new[prop] = fresh
            if rc == 2:
                errors.append(prop)
        viol = {p: v for p, v in new.items() if any("violated" in x for x in v)}
        return {"tag": tag, "status": "DETECTED" if viol else ("analysis-error-only" if new else "missed"), "by": sorted(viol), "findings": {p: v[:2] for p, v in viol.items()}, "analysis_errors": errors}
    finally:
        shutil.rmtree(tmp, ignore_errors=True)


def main() -> None:
    tags = sys.argv[1:]
    items: list[tuple[str, str, bool]] = []
    sd = os.path.join(VERIF, "seeded")
    for t_ in sorted(os.listdir(sd)):
        if not tags or t_ in tags:
            items.append((t_, os.path.join(sd, t_, "patch.diff"), False))
    fx = os.path.join(VERIF, "selftest", "fixes")
    if os.path.isdir(fx):
        for f in sorted(os.listdir(fx)):
            t_ = "fix-" + f.replace(".diff", "")
            if f.endswith(".diff") and (not tags or t_ in tags):
                items.append((t_, os.path.join(fx, f), True))
    props = PROPS
    evdir = tempfile.mkdtemp(prefix="sb_base_")
    base: dict[str, set[str]] = {}
    with cf.ThreadPoolExecutor(8) as ex:
        for prop, (rc, lines) in zip(props, ex.map(lambda p: run_check(p, "/repo", evdir), props)):
            base[prop] = set(lines)
    shutil.rmtree(evdir, ignore_errors=True)
    results = []
    with cf.ThreadPoolExecutor(6) as ex:
        futs = [ex.submit(variant, t_, p, rev, base, props) for t_, p, rev in items]
        for f in futs:
            r = f.result()
            results.append(r)
            print(f"{r['tag']}: {r['status']} {' '.join(r.get('by', []))} {r.get('detail', '')}", flush=True)
            for p, v in r.get("findings", {}).items():
                print(f"    {p}: {v[0][:170]}")
    out = os.path.join(VERIF, "seeded", "SCOREBOARD.json") if not tags else None
    if out:
        with open(out, "w") as f:
            json.dump(results, f, indent=1)
    det = sum(1 for r in results if r["status"] == "DETECTED")
    print(f"{det}/{len(results)} detected")


if __name__ == "__main__":
    main()
