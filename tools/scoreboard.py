#!/venv/bin/python
"""Run every check against every seeded change (and every reversed fix) on scratch copies.

    tools/scoreboard.py [tag ...]        # default: all of /verif/seeded and /verif/selftest/fixes

For each variant a copy of /repo/src/jinja2 is made under a temporary directory (outside /repo
and /verif, removed afterwards), the patch is applied there, and all checks run with
``--repo <copy>``.  A variant counts as DETECTED when some check reports a finding that the
clean tree does not produce.  /repo itself is never modified.
"""

from __future__ import annotations

import concurrent.futures as cf
import json
import os
import re
import shutil
import subprocess
import sys
import tempfile

VERIF = os.path.dirname(os.path.dirname(os.path.abspath(__file__)))
PROPS = [f"C{i:02d}" for i in range(1, 40)]


def run_check(prop: str, repo: str, evdir: str) -> tuple[int, list[str]]:
    env = dict(os.environ, VERIF_EVIDENCE_DIR=evdir, VERIF_NO_CACHE="" if repo == "/repo" else "")
    p = subprocess.run(["/venv/bin/python", os.path.join(VERIF, "check.py"), prop, "--repo", repo], capture_output=True, text=True, env=env, cwd=VERIF)
    lines = [re.sub(r" at [^ ]+?:\d*:?(?= \[)", "", ln).strip() for ln in p.stdout.splitlines() if "violated" in ln or "ANALYSIS-ERROR" in ln]
    return p.returncode, lines


def variant(tag: str, patch: str, reverse: bool, base: dict[str, set[str]], props: list[str]) -> dict:
    tmp = tempfile.mkdtemp(prefix=f"sb_{tag}_")
    try:
        os.makedirs(os.path.join(tmp, "src"))
        shutil.copytree("/repo/src/jinja2", os.path.join(tmp, "src", "jinja2"))
        cmd = ["patch", "-p1", "-s", "--fuzz=3", "--no-backup-if-mismatch", "-i", patch] + (["-R"] if reverse else [])
        r = subprocess.run(cmd, cwd=tmp, capture_output=True, text=True)
        if r.returncode != 0:
            return {"tag": tag, "status": "cannot-apply", "detail": (r.stdout + r.stderr)[-200:]}
        evdir = os.path.join(tmp, "evidence")
        os.makedirs(evdir)
        new: dict[str, list[str]] = {}
        errors = []
        for prop in props:
            rc, lines = run_check(prop, tmp, evdir)
            fresh = [ln for ln in lines if ln not in base.get(prop, set())]
            if fresh:
                new[prop] = fresh
            if rc == 2:
                errors.append(prop)
        viol = {p: v for p, v in new.items() if any("violated" in x for x in v)}
        return {"tag": tag, "status": "DETECTED" if viol else ("analysis-error-only" if new else "missed"), "by": sorted(viol), "findings": {p: v[:2] for p, v in viol.items()}, "analysis_errors": errors}
    finally:
        shutil.rmtree(tmp, ignore_errors=True)


def all_items() -> list[tuple[str, str, bool]]:
    items: list[tuple[str, str, bool]] = []
    sd = os.path.join(VERIF, "seeded")
    for t_ in sorted(os.listdir(sd)):
        if os.path.isfile(os.path.join(sd, t_, "patch.diff")):
            items.append((t_, os.path.join(sd, t_, "patch.diff"), False))
    fx = os.path.join(VERIF, "selftest", "fixes")
    if os.path.isdir(fx):
        for f in sorted(os.listdir(fx)):
            if f.endswith(".diff"):
                items.append(("fix-" + f.replace(".diff", ""), os.path.join(fx, f), True))
    return items


def main() -> None:
    tags = sys.argv[1:]
    items = [it for it in all_items() if not tags or it[0] in tags]
    props = PROPS
    evdir = tempfile.mkdtemp(prefix="sb_base_")
    base: dict[str, set[str]] = {}
    with cf.ThreadPoolExecutor(8) as ex:
        for prop, (rc, lines) in zip(props, ex.map(lambda p: run_check(p, "/repo", evdir), props)):
            base[prop] = set(lines)
    shutil.rmtree(evdir, ignore_errors=True)
    results = []
    with cf.ThreadPoolExecutor(10) as ex:
        futs = [ex.submit(variant, t_, p, rev, base, props) for t_, p, rev in items]
        for f in futs:
            r = f.result()
            results.append(r)
            print(f"{r['tag']}: {r['status']} {' '.join(r.get('by', []))} {r.get('detail', '')}", flush=True)
            for p, v in r.get("findings", {}).items():
                print(f"    {p}: {v[0][:170]}")
    out = os.path.join(VERIF, "seeded", "SCOREBOARD.json")
    old = []
    if tags and os.path.exists(out):
        with open(out) as f:
            old = [r for r in json.load(f) if r["tag"] not in {x["tag"] for x in results}]
    merged = sorted(old + results, key=lambda r: r["tag"])
    with open(out, "w") as f:
        json.dump(merged, f, indent=1)
    # index used by the thorough tier's self-test: which property detects which variant
    paths = {t_: (os.path.relpath(p, VERIF), rev) for t_, p, rev in all_items()}
    index = {r["tag"]: {"patch": paths[r["tag"]][0], "reverse": paths[r["tag"]][1], "by": r.get("by", [])} for r in merged if r["status"] == "DETECTED" and r["tag"] in paths}
    os.makedirs(os.path.join(VERIF, "selftest"), exist_ok=True)
    with open(os.path.join(VERIF, "selftest", "index.json"), "w") as f:
        json.dump(index, f, indent=1, sort_keys=True)
    det = sum(1 for r in results if r["status"] == "DETECTED")
    print(f"{det}/{len(results)} detected")


if __name__ == "__main__":
    main()
