#!/bin/bash
# usage: try_seed.sh <tag> [props...]  - apply seeded patch to /repo, run checks, undo. Prints which checks fire.
# Only NEW findings relative to the clean tree are shown (keys not present in the clean run).
trap '' PIPE
tag=$1; shift
p=/verif/seeded/$tag/patch.diff
[ -f $p ] || p=/tmp/seed/$tag/patch.diff
props="$@"
[ -n "$props" ] || props=$(ls /verif/sa/props | grep -o '^c[0-9]*' | tr a-z A-Z | sort -u)
out=/tmp/try_seed_$$.txt; : > $out
if [ -n "$(git -C /repo status --short)" ]; then echo "/repo is dirty, refusing"; exit 2; fi
git -C /repo apply $p || { echo "cannot apply $p"; git -C /repo checkout -- .; exit 2; }
for c in $props; do
  (cd /verif && /venv/bin/python check.py $c > /tmp/try_seed_$$.$c 2>&1); rc=$?
  if [ $rc -ne 0 ]; then
     grep -E "violated|ANALYSIS-ERROR" /tmp/try_seed_$$.$c | sed "s/^/$c rc=$rc: /" >> $out
  fi
  rm -f /tmp/try_seed_$$.$c
done
git -C /repo checkout -- .
# subtract the clean-tree baseline (same props, clean tree)
base=/tmp/try_seed_base_$$.txt; : > $base
for c in $props; do
  (cd /verif && /venv/bin/python check.py $c 2>&1 | grep -E "violated|ANALYSIS-ERROR" | sed -E "s/ at [^ ]+:[0-9]*://" >> $base)
done
sed -E "s/ at [^ ]+:[0-9]*://" >> $base)
  done
fi
sed -E "s/ at [^ ]+:[0-9]*://" $out | sed -E 's/^C[0-9]+ rc=[0-9]: //' | sort -u > $out.n
sort -u $base > $base.s
new=$(comm -23 $out.n $base.s)
if [ -n "$new" ]; then echo "$tag: DETECTED"; echo "$new" | cut -c1-230 | head -6; else echo "$tag: missed"; fi
rm -f $out $out.n $base $base.s
