#!/bin/bash
# usage: try_seed.sh <tag> [props...]
# Apply a seeded patch to /repo, run the checks, undo. Prints DETECTED with the findings that are
# new relative to the clean tree (same checks), or "missed".
trap '' PIPE
tag=$1; shift
p=/verif/seeded/$tag/patch.diff
[ -f $p ] || p=/tmp/seed/$tag/patch.diff
props="$@"
[ -n "$props" ] || props=$(ls /verif/sa/props | grep -o '^c[0-9]*' | tr a-z A-Z | sort -u)
if [ -n "$(git -C /repo status --short)" ]; then echo "/repo is dirty, refusing"; exit 2; fi
norm() { grep -E "violated|ANALYSIS-ERROR" | sed -E "s/ at [^ ]+:[0-9]*://" ; }
base=/tmp/try_seed_base_$$.txt; : > $base
for c in $props; do
  (cd /verif && /venv/bin/python check.py $c 2>&1) | norm >> $base
done
cleanup() { git -C /repo checkout -- . ; find /repo/src \( -name '*.orig' -o -name '*.rej' \) -delete ; }
if ! git -C /repo apply $p 2>/dev/null; then
  if ! (cd /repo && patch -p1 -s --fuzz=3 < $p >/dev/null 2>&1); then
    echo "$tag: cannot apply $p"; cleanup; rm -f $base; exit 2
  fi
fi
find /repo/src \( -name '*.orig' -o -name '*.rej' \) -delete
out=/tmp/try_seed_out_$$.txt; : > $out
for c in $props; do
  (cd /verif && /venv/bin/python check.py $c 2>&1) | norm >> $out
done
cleanup
new=$(comm -23 <(sort -u $out) <(sort -u $base))
if [ -n "$new" ]; then echo "$tag: DETECTED"; echo "$new" | cut -c1-230 | head -6; else echo "$tag: missed"; fi
rm -f $out $base
