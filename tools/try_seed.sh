#!/bin/bash
# usage: try_seed.sh <tag> [props...]  - apply seeded patch to /repo, run checks, undo. Prints which checks fire.
tag=$1; shift
p=/verif/seeded/$tag/patch.diff
[ -f $p ] || p=/tmp/seed/$tag/patch.diff
props="$@"
[ -n "$props" ] || props=$(ls /verif/sa/props | grep -o 'c[0-9]*' | tr a-z A-Z | sort -u)
git -C /repo apply $p || { echo "cannot apply $p"; exit 2; }
for c in $props; do
  out=$(cd /verif && /venv/bin/python check.py $c 2>&1); rc=$?
  if [ $rc -ne 0 ]; then echo "== $c rc=$rc"; echo "$out" | grep -E "violated|ANALYSIS-ERROR" | head -5; fi
done
git -C /repo checkout -- .
