#!/venv/bin/python
"""Regenerate the "which check catches which change" table of DESIGN.md from
seeded/SCOREBOARD.json and the seeds' meta.json (between the SCOREBOARD markers)."""

from __future__ import annotations

import json
import os
import re

VERIF = os.path.dirname(os.path.dirname(os.path.abspath(__file__)))


def main() -> None:
    with open(os.path.join(VERIF, "seeded", "SCOREBOARD.json")) as f:
        sb = json.load(f)
    rows = ["| variant | target | change (one line) | detected by (rules) |", "|---|---|---|---|"]
    det = 0
    own = 0
    seeds = 0
    for r in sb:
        tag = r["tag"]
        rules = sorted({x for v in r.get("findings", {}).values() for ln in v for x in re.findall(r"C\d\d\.R\w+(?:@C\d\d)?", ln)})
        if tag.startswith("fix-"):
            target, summary = "(reversed fix)", f"reverse of commit {tag[4:]} (see §6)"
        else:
            seeds += 1
            with open(os.path.join(VERIF, "seeded", tag, "meta.json")) as f:
                m = json.load(f)
            target = m.get("property", tag[:3])
            summary = re.sub(r"\s+", " ", m.get("summary", "")).replace("|", "\\|")
            if len(summary) > 150:
                summary = summary[:147] + "..."
            if target in r.get("by", []):
                own += 1
        if r["status"] == "DETECTED":
            det += 1
        rows.append(f"| {tag} | {target} | {summary} | {' '.join(rules) if rules else r['status']} |")
    head = f"{det} of {len(sb)} variants detected; {own} of {seeds} seeded changes are detected by the check of the property they were written against (the rest by a neighbouring property's check).\n\n"
    text = head + "\n".join(rows) + "\n"
    p = os.path.join(VERIF, "DESIGN.md")
    with open(p, encoding="utf-8") as f:
        s = f.read()
    s2 = re.sub(r"(<!-- SCOREBOARD BEGIN -->\n).*?(<!-- SCOREBOARD END -->)", lambda m_: m_.group(1) + text + m_.group(2), s, flags=re.S)
    with open(p, "w", encoding="utf-8") as f:
        f.write(s2)
    print(head.strip())


if __name__ == "__main__":
    main()
