#!/venv/bin/python
"""Must-stay-silent side: run every check against behaviour-preserving refactorings.

    tools/silent_check.py [name ...]     # default: every /verif/selftest/refactors/*.diff

Each patch is applied to a scratch copy of /repo/src/jinja2 in a temporary directory (never to
/repo); all 39 checks run with --repo <copy>.  Any finding or ANALYSIS-ERROR that the clean
tree does not produce is a false alarm of the machinery (the refactorings keep the suite green
and do not change behaviour) and is printed.  Exit 0 when all are silent.
"""

from __future__ import annotations

import concurrent.futures as cf
import os
import shutil
import subprocess
import sys
import tempfile

sys.path.insert(0, os.path.dirname(os.path.abspath(__file__)))
from scoreboard import PROPS, VERIF, run_check  # noqa: E402

RF = os.path.join(VERIF, "selftest", "refactors")


def one(name: str, base: dict[str, set[str]]) -> dict:
    tmp = tempfile.mkdtemp(prefix=f"rf_{name}_")
    try:
        os.makedirs(os.path.join(tmp, "src"))
        shutil.copytree("/repo/src/jinja2", os.path.join(tmp, "src", "jinja2"))
        r = subprocess.run(["patch", "-p1", "-s", "--fuzz=3", "--no-backup-if-mismatch", "-i", os.path.join(RF, name + ".diff")], cwd=tmp, capture_output=True, text=True)
        if r.returncode != 0:
            return {"name": name, "status": "cannot-apply", "detail": (r.stdout + r.stderr)[-300:]}
        evdir = os.path.join(tmp, "evidence")
        os.makedirs(evdir)
        alarms: dict[str, list[str]] = {}
        for prop in PROPS:
            rc, lines = run_check(prop, tmp, evdir)
            fresh = [ln for ln in lines if ln not in base.get(prop, set())]
            if fresh or rc == 2:
                alarms[prop] = fresh or [f"exit {rc}"]
        return {"name": name, "status": "silent" if not alarms else "ALARM", "alarms": alarms}
    finally:
        shutil.rmtree(tmp, ignore_errors=True)


def main() -> int:
    names = sys.argv[1:] or sorted(f[:-5] for f in os.listdir(RF) if f.endswith(".diff"))
    evdir = tempfile.mkdtemp(prefix="rf_base_")
    base: dict[str, set[str]] = {}
    with cf.ThreadPoolExecutor(8) as ex:
        for prop, (rc, lines) in zip(PROPS, ex.map(lambda p: run_check(p, "/repo", evdir), PROPS)):
            base[prop] = set(lines)
    shutil.rmtree(evdir, ignore_errors=True)
    bad = 0
    with cf.ThreadPoolExecutor(6) as ex:
        for r in ex.map(lambda n: one(n, base), names):
            print(f"{r['name']}: {r['status']} {r.get('detail', '')}", flush=True)
            for p, v in r.get("alarms", {}).items():
                bad += 1
                for ln in v[:4]:
                    print(f"    {p}: {ln[:260]}")
    print(f"{len(names)} refactoring set(s), {bad} check(s) raised a false alarm")
    return 1 if bad else 0


if __name__ == "__main__":
    sys.exit(main())
