"""Small AST query helpers shared by the rule modules."""

from __future__ import annotations

import ast
import typing as t

from .cfg import early_exit_guards
from .cfg import guards_of
from .srcmodel import FuncInfo
from .srcmodel import Repo
from .srcmodel import walk_no_nested


def calls(node: ast.AST, name: str | None = None, nested: bool = True) -> list[ast.Call]:
    it = ast.walk(node) if nested else walk_no_nested(node)
    out = []
    for n in it:
        if isinstance(n, ast.Call):
            if name is None or callee(n) == name or callee(n).endswith("." + name):
                out.append(n)
    return out


def callee(c: ast.Call) -> str:
    try:
        return ast.unparse(c.func)
    except Exception:  # pragma: no cover
        return ""


def attr_tail(c: ast.Call) -> str:
    return c.func.attr if isinstance(c.func, ast.Attribute) else (c.func.id if isinstance(c.func, ast.Name) else "")


def stmt_of(node: ast.AST) -> ast.stmt | None:
    cur: ast.AST | None = node
    while cur is not None and not isinstance(cur, ast.stmt):
        cur = getattr(cur, "_parent", None)
    return cur  # type: ignore[return-value]


def mentions(node: ast.AST, text: str) -> bool:
    return text in ast.unparse(node)


def names_in(node: ast.AST) -> set[str]:
    return {n.id for n in ast.walk(node) if isinstance(n, ast.Name)}


def all_guards(func: ast.AST, node: ast.AST) -> list[tuple[ast.expr, bool]]:
    """Structural guards (enclosing tests with polarity) plus early-exit guards."""
    return guards_of(node) + early_exit_guards(func, node)


def guard_texts(func: ast.AST, node: ast.AST) -> list[tuple[str, bool]]:
    """The guards as written, followed by their signed atoms (see guard_atoms): a rule that
    looks for one condition finds it however the test was phrased (`if not c: ...` around the
    node, `if c: return` before it, or `c` as one conjunct of a longer test)."""
    out = [(ast.unparse(g), pol) for g, pol in all_guards(func, node)]
    for a in guard_atoms(func, node):
        if a not in out:
            out.append(a)
    return out


def guard_atoms(func: ast.AST, node: ast.AST) -> list[tuple[str, bool]]:
    """Path condition of ``node`` as signed atoms: conjunctions are split, negations and
    negative comparison operators are folded into the sign - `if not (a or b): return` before
    the node, `if a is not None and c:` around it and `if a is None: ... else:` all give the
    same atoms, so a rule comparing guards does not depend on how the condition is written."""
    from .normalize import atoms

    out: list[tuple[str, bool]] = []
    for g, pol in all_guards(func, node):
        for a in atoms(g, pol):
            if a not in out:
                out.append(a)
    return out


def holds(atoms_: list[tuple[str, bool]], text: str, pol: bool = True) -> bool:
    return (text, pol) in atoms_


def assigned_names(func: ast.AST) -> dict[str, list[ast.expr]]:
    """name -> list of value expressions assigned to it in the function (no nested defs)."""
    out: dict[str, list[ast.expr]] = {}
    for n in walk_no_nested(func):
        if isinstance(n, ast.Assign):
            for tg in n.targets:
                if isinstance(tg, ast.Name):
                    out.setdefault(tg.id, []).append(n.value)
                elif isinstance(tg, ast.Tuple):
                    for e in tg.elts:
                        if isinstance(e, ast.Name):
                            out.setdefault(e.id, []).append(n.value)
        elif isinstance(n, ast.AnnAssign) and isinstance(n.target, ast.Name) and n.value is not None:
            out.setdefault(n.target.id, []).append(n.value)
        elif isinstance(n, ast.AugAssign) and isinstance(n.target, ast.Name):
            out.setdefault(n.target.id, []).append(n.value)
        elif isinstance(n, ast.NamedExpr):
            out.setdefault(n.target.id, []).append(n.value)
    return out


def returns(func: ast.AST) -> list[ast.Return]:
    return [n for n in walk_no_nested(func) if isinstance(n, ast.Return)]


def raises(func: ast.AST, nested: bool = True) -> list[ast.Raise]:
    it = ast.walk(func) if nested else walk_no_nested(func)
    return [n for n in it if isinstance(n, ast.Raise)]


def raise_type(r: ast.Raise) -> str:
    if r.exc is None:
        return "<reraise>"
    e = r.exc
    if isinstance(e, ast.Name):
        # `err = SomeError(...); raise err`: the class of the single local binding
        fn = r
        while fn is not None and not isinstance(fn, (ast.FunctionDef, ast.AsyncFunctionDef)):
            fn = getattr(fn, "_parent", None)
        if fn is not None:
            src = [a for a in ast.walk(fn) if isinstance(a, ast.Assign) and len(a.targets) == 1 and isinstance(a.targets[0], ast.Name) and a.targets[0].id == e.id]
            handlers = [h for h in ast.walk(fn) if isinstance(h, ast.ExceptHandler) and h.name == e.id]
            if len(src) == 1 and not handlers and isinstance(src[0].value, ast.Call):
                e = src[0].value
    if isinstance(e, ast.Call):
        return ast.unparse(e.func)
    return ast.unparse(e)


def functions_of(repo: Repo, module: str) -> list[FuncInfo]:
    """All functions and methods defined in a module (one level of nesting for classes)."""
    m = repo.module(module)
    out: list[FuncInfo] = []
    for name, d in m.defs.items():
        if isinstance(d, (ast.FunctionDef, ast.AsyncFunctionDef)):
            out.append(FuncInfo(m, d, None))
        elif isinstance(d, ast.ClassDef):
            ci = repo.cls(f"{module}:{name}")
            for mn, md in ci.methods.items():
                out.append(FuncInfo(m, md, ci))
    return out


def all_funcdefs(tree: ast.AST) -> list[ast.AST]:
    return [n for n in ast.walk(tree) if isinstance(n, (ast.FunctionDef, ast.AsyncFunctionDef))]


def qualname(node: ast.AST) -> str:
    parts = []
    cur: ast.AST | None = node
    while cur is not None:
        if isinstance(cur, (ast.FunctionDef, ast.AsyncFunctionDef, ast.ClassDef)):
            parts.append(cur.name)
        cur = getattr(cur, "_parent", None)
    return ".".join(reversed(parts))


def enclosing_qual(node: ast.AST) -> str:
    cur = getattr(node, "_parent", None)
    while cur is not None and not isinstance(cur, (ast.FunctionDef, ast.AsyncFunctionDef, ast.ClassDef)):
        cur = getattr(cur, "_parent", None)
    return qualname(cur) if cur is not None else "<module>"


def const_str_set(node: ast.expr) -> set[str] | None:
    """A literal tuple/set/list/frozenset([...]) of strings, or None."""
    if isinstance(node, ast.Call) and ast.unparse(node.func) in ("frozenset", "set", "tuple") and len(node.args) == 1:
        node = node.args[0]
    if isinstance(node, (ast.Tuple, ast.Set, ast.List)):
        out = set()
        for e in node.elts:
            if isinstance(e, ast.Constant) and isinstance(e.value, str):
                out.add(e.value)
            else:
                return None
        return out
    return None


def is_none_test(test: ast.expr) -> tuple[str, bool] | None:
    """``x is None`` -> (x, True); ``x is not None`` -> (x, False)."""
    if isinstance(test, ast.Compare) and len(test.ops) == 1 and isinstance(test.comparators[0], ast.Constant) and test.comparators[0].value is None:
        if isinstance(test.ops[0], ast.Is):
            return ast.unparse(test.left), True
        if isinstance(test.ops[0], ast.IsNot):
            return ast.unparse(test.left), False
    return None


def walk_stmts(body: t.Iterable[ast.stmt]) -> t.Iterator[ast.stmt]:
    for st in body:
        yield st
        for field in ("body", "orelse", "finalbody"):
            sub = getattr(st, field, None)
            if isinstance(sub, list) and not isinstance(st, (ast.FunctionDef, ast.AsyncFunctionDef, ast.ClassDef)):
                yield from walk_stmts(sub)
        if isinstance(st, ast.Try):
            for h in st.handlers:
                yield from walk_stmts(h.body)


def ancestors_handlers(node: ast.AST) -> list[ast.ExceptHandler]:
    out = []
    cur = getattr(node, "_parent", None)
    while cur is not None:
        if isinstance(cur, ast.ExceptHandler):
            out.append(cur)
        if isinstance(cur, (ast.FunctionDef, ast.AsyncFunctionDef, ast.Lambda)):
            break
        cur = getattr(cur, "_parent", None)
    return out


def linear(e: ast.expr) -> dict[str, int] | None:
    """Normalise an integer expression built from names, calls (atoms), integer constants,
    ``+``, ``-`` and unary minus into {atom: coefficient, "": constant}; None if not linear."""
    if isinstance(e, ast.Constant) and isinstance(e.value, int) and not isinstance(e.value, bool):
        return {"": e.value}
    if isinstance(e, ast.Await):
        return linear(e.value)
    if isinstance(e, (ast.Name, ast.Call, ast.Attribute, ast.Subscript, ast.Compare)):
        return {ast.unparse(e): 1}
    if isinstance(e, ast.UnaryOp) and isinstance(e.op, ast.USub):
        r = linear(e.operand)
        return None if r is None else {k: -v for k, v in r.items()}
    if isinstance(e, ast.BinOp) and isinstance(e.op, (ast.Add, ast.Sub)):
        a, b = linear(e.left), linear(e.right)
        if a is None or b is None:
            return None
        out = dict(a)
        sign = 1 if isinstance(e.op, ast.Add) else -1
        for k, v in b.items():
            out[k] = out.get(k, 0) + sign * v
        return {k: v for k, v in out.items() if v != 0 or k == ""}
    return None


def linear_cmp(test: ast.expr) -> tuple[dict[str, int], str] | None:
    """``a OP b`` with linear sides -> (a - b normalised, OP) with OP in <,<=,>,>=,==,!=."""
    if not (isinstance(test, ast.Compare) and len(test.ops) == 1):
        return None
    a, b = linear(test.left), linear(test.comparators[0])
    if a is None or b is None:
        return None
    d = dict(a)
    for k, v in b.items():
        d[k] = d.get(k, 0) - v
    d = {k: v for k, v in d.items() if v != 0}
    op = {ast.Lt: "<", ast.LtE: "<=", ast.Gt: ">", ast.GtE: ">=", ast.Eq: "==", ast.NotEq: "!="}.get(type(test.ops[0]))
    if op is None:
        return None
    # canonical orientation: first atom (sorted) has positive coefficient
    keys = sorted(k for k in d if k)
    if keys and d[keys[0]] < 0:
        d = {k: -v for k, v in d.items()}
        op = {"<": ">", "<=": ">=", ">": "<", ">=": "<=", "==": "==", "!=": "!="}[op]
    return d, op
