"""Small AST query helpers shared by the rule modules."""

from __future__ import annotations

import ast
import typing as t

from .cfg import early_exit_guards
from .cfg import guards_of
from .srcmodel import FuncInfo
from .srcmodel import Repo
from .srcmodel import walk_no_nested


def calls(node: ast.AST, name: str | None = None, nested: bool = True) -> list[ast.Call]:
    it = ast.walk(node) if nested else walk_no_nested(node)
    out = []
    for n in it:
        if isinstance(n, ast.Call):
            if name is None or callee(n) == name or callee(n).endswith("." + name):
                out.append(n)
    return out


def callee(c: ast.Call) -> str:
    try:
        return ast.unparse(c.func)
    except Exception:  # pragma: no cover
        return ""


def attr_tail(c: ast.Call) -> str:
    return c.func.attr if isinstance(c.func, ast.Attribute) else (c.func.id if isinstance(c.func, ast.Name) else "")


def stmt_of(node: ast.AST) -> ast.stmt | None:
    cur: ast.AST | None = node
    while cur is not None and not isinstance(cur, ast.stmt):
        cur = getattr(cur, "_parent", None)
    return cur  # type: ignore[return-value]


def mentions(node: ast.AST, text: str) -> bool:
    return text in ast.unparse(node)


def names_in(node: ast.AST) -> set[str]:
    return {n.id for n in ast.walk(node) if isinstance(n, ast.Name)}


def all_guards(func: ast.AST, node: ast.AST) -> list[tuple[ast.expr, bool]]:
    """Structural guards (enclosing tests with polarity) plus early-exit guards."""
    return guards_of(node) + early_exit_guards(func, node)


def guard_texts(func: ast.AST, node: ast.AST) -> list[tuple[str, bool]]:
    """The guards as written, followed by their signed atoms (see guard_atoms): a rule that
    looks for one condition finds it however the test was phrased (`if not c: ...` around the
    node, `if c: return` before it, or `c` as one conjunct of a longer test)."""
    out = [(ast.unparse(g), pol) for g, pol in all_guards(func, node)]
    for a in guard_atoms(func, node):
        if a not in out:
            out.append(a)
    return out


def guard_atoms(func: ast.AST, node: ast.AST) -> list[tuple[str, bool]]:
    """Path condition of ``node`` as signed atoms: conjunctions are split, negations and
    negative comparison operators are folded into the sign - `if not (a or b): return` before
    the node, `if a is not None and c:` around it and `if a is None: ... else:` all give the
    same atoms, so a rule comparing guards does not depend on how the condition is written."""
    from .normalize import atoms

    out: list[tuple[str, bool]] = []
    for g, pol in all_guards(func, node):
        for a in atoms(g, pol):
            if a not in out:
                out.append(a)
    # a named sub-test (`needs_caller = self.caller and not found_caller`, assigned once,
    # before the node) stands for the atoms of its value
    for txt, pol in list(out):
        if not txt.isidentifier():
            continue
        defs = [a_ for a_ in ast.walk(func) if isinstance(a_, ast.Assign) and len(a_.targets) == 1 and isinstance(a_.targets[0], ast.Name) and a_.targets[0].id == txt]
        if len(defs) == 1 and isinstance(defs[0].value, (ast.BoolOp, ast.Compare, ast.UnaryOp)) and (defs[0].lineno, defs[0].col_offset) < (getattr(node, "lineno", 0), getattr(node, "col_offset", 0)):
            for a in atoms(defs[0].value, pol):
                if a not in out:
                    out.append(a)
    return out


def holds(atoms_: list[tuple[str, bool]], text: str, pol: bool = True) -> bool:
    return (text, pol) in atoms_


def fresh_container(fn: ast.AST, e: ast.AST | None, depth: int = 0) -> bool:
    """True when ``e`` certainly denotes a container created here (so storing into it cannot
    reach an object the caller owns): a display, a comprehension, dict()/list()/set()/deque()/
    sorted()/tuple() calls, ``x.copy()``, a conditional expression whose arms both are, or a
    local (not a parameter) all of whose assignments are."""
    if e is None:
        return False
    if isinstance(e, (ast.Dict, ast.List, ast.Set, ast.ListComp, ast.DictComp, ast.SetComp)):
        return True
    if isinstance(e, ast.Call):
        f = callee(e)
        if f in ("dict", "list", "set", "deque", "sorted", "tuple", "collections.deque", "OrderedDict", "copy.copy", "copy.deepcopy"):
            return True
        return isinstance(e.func, ast.Attribute) and e.func.attr == "copy" and not e.args
    if isinstance(e, ast.IfExp):
        return fresh_container(fn, e.body, depth) and fresh_container(fn, e.orelse, depth)
    if isinstance(e, ast.Name) and depth < 4:
        params = {a.arg for a in fn.args.posonlyargs + fn.args.args + fn.args.kwonlyargs}  # type: ignore[attr-defined]
        for extra in (fn.args.vararg, fn.args.kwarg):  # type: ignore[attr-defined]
            if extra is not None:
                params.add(extra.arg)
        if e.id in params:
            return False
        vals = [a.value for a in ast.walk(fn) if isinstance(a, (ast.Assign, ast.AnnAssign)) and a.value is not None and any(isinstance(t_, ast.Name) and t_.id == e.id for t_ in (a.targets if isinstance(a, ast.Assign) else [a.target]))]
        return bool(vals) and all(fresh_container(fn, v, depth + 1) for v in vals)
    return False


def merge_order(e: ast.AST) -> list[str] | None:
    """Sources of a dict merge expression in order of increasing precedence (a later source
    overrides an earlier one): `dict(a, **b)`, `{**a, **b}`, `a | b`, `dict(a); .update(b)`
    spelled as one expression, `ChainMap(b, a)` (first wins) all give ['a', 'b'].  None when
    the expression is not such a merge."""
    if isinstance(e, ast.Dict) and e.keys and all(k is None for k in e.keys):
        out: list[str] = []
        for v in e.values:
            sub = merge_order(v)
            out += sub if sub is not None else [ast.unparse(v)]
        return out
    if isinstance(e, ast.BinOp) and isinstance(e.op, ast.BitOr):
        l_, r_ = merge_order(e.left), merge_order(e.right)
        return (l_ if l_ is not None else [ast.unparse(e.left)]) + (r_ if r_ is not None else [ast.unparse(e.right)])
    if isinstance(e, ast.Call) and callee(e) == "dict" and len(e.args) <= 1 and all(k.arg is None for k in e.keywords) and (e.args or e.keywords):
        out = []
        for v in list(e.args) + [k.value for k in e.keywords]:
            sub = merge_order(v)
            out += sub if sub is not None else [ast.unparse(v)]
        return out
    if isinstance(e, ast.Call) and callee(e).split(".")[-1] == "ChainMap" and e.args and not e.keywords:
        return [ast.unparse(a) for a in reversed(e.args)]
    return None


def text_parts(e: ast.AST) -> list[str]:
    """'a' + x, f'a{x}' and 'a{}'.format(x) build the same text: the literal pieces (as reprs)
    and the interpolated expressions (unparsed), in order.  Adjacent literals are merged."""
    import re as _re

    def go(e: ast.AST) -> list[str]:
        if isinstance(e, ast.BinOp) and isinstance(e.op, ast.Add):
            return go(e.left) + go(e.right)
        if isinstance(e, ast.JoinedStr):
            out_: list[str] = []
            for v_ in e.values:
                if isinstance(v_, ast.Constant):
                    out_.append(repr(v_.value))
                elif isinstance(v_, ast.FormattedValue) and v_.conversion == -1 and v_.format_spec is None:
                    out_.append(ast.unparse(v_.value))
                else:
                    out_.append("?" + ast.unparse(v_))
            return out_
        if isinstance(e, ast.Call) and isinstance(e.func, ast.Attribute) and e.func.attr == "format" and isinstance(e.func.value, ast.Constant) and isinstance(e.func.value.value, str) and not e.keywords and not any(isinstance(a, ast.Starred) for a in e.args):
            pieces = _re.split(r"(\{\{|\}\}|\{\})", e.func.value.value)
            out_, i, lit = [], 0, ""
            for pc in pieces:
                if pc == "{}":
                    if i >= len(e.args):
                        return [ast.unparse(e)]
                    if lit:
                        out_.append(repr(lit))
                        lit = ""
                    out_.append(ast.unparse(e.args[i]))
                    i += 1
                elif pc in ("{{", "}}"):
                    lit += pc[0]
                elif "{" in pc or "}" in pc:
                    return [ast.unparse(e)]
                else:
                    lit += pc
            if lit:
                out_.append(repr(lit))
            return out_ if i == len(e.args) else [ast.unparse(e)]
        if isinstance(e, ast.Call) and callee(e) == "str" and len(e.args) == 1 and not e.keywords:
            return [ast.unparse(e.args[0])]  # f'{x}' is format(x, '') == str(x) for str / int / Markup
        if isinstance(e, ast.Constant) and isinstance(e.value, str):
            return [repr(e.value)]
        return [ast.unparse(e)]

    merged: list[str] = []
    for p in go(e):
        if p == "''":
            continue
        if merged and merged[-1][:1] in "'\"" and p[:1] in "'\"":
            try:
                merged[-1] = repr(ast.literal_eval(merged[-1]) + ast.literal_eval(p))
                continue
            except Exception:
                pass
        merged.append(p)
    return merged


def bool_table(node: ast.AST, atom_texts: list[str]) -> dict[tuple[bool, ...], bool | None]:
    """Truth table of a predicate over the named atoms: ``node`` is a boolean expression or a
    function whose body is made of if / return statements (early returns, nested ifs, else
    branches, conditional expressions, not / and / or in any arrangement).  The value is None
    for a valuation under which the result depends on anything but the atoms - so two
    differently written predicates compare equal exactly when they compute the same function
    of the atoms."""
    import itertools

    def ev(x: ast.expr, val: dict[str, bool]) -> bool | None:
        if isinstance(x, ast.UnaryOp) and isinstance(x.op, ast.Not):
            v = ev(x.operand, val)
            return None if v is None else not v
        if isinstance(x, ast.BoolOp):
            is_and = isinstance(x.op, ast.And)
            unknown = False
            for v_ in x.values:
                v = ev(v_, val)
                if v is None:
                    unknown = True
                elif v is (not is_and):
                    # short circuit: a false conjunct / true disjunct decides (atoms are pure tests)
                    return v
            return None if unknown else is_and
        if isinstance(x, ast.Constant) and isinstance(x.value, bool):
            return x.value
        if isinstance(x, ast.IfExp):
            c = ev(x.test, val)
            return None if c is None else ev(x.body if c else x.orelse, val)
        if isinstance(x, ast.Name) and x.id in local_vals:
            return ev(local_vals[x.id], val)
        txt = ast.unparse(x)
        if txt in val:
            return val[txt]
        # a negative comparison is the negation of the positive atom (`a not in b`, `a is not b`, `a != b`)
        if isinstance(x, ast.Compare) and len(x.ops) == 1:
            flip = {ast.NotIn: ast.In, ast.IsNot: ast.Is, ast.NotEq: ast.Eq, ast.In: ast.NotIn, ast.Is: ast.IsNot, ast.Eq: ast.NotEq}.get(type(x.ops[0]))
            if flip is not None:
                pos = ast.unparse(ast.Compare(left=x.left, ops=[flip()], comparators=x.comparators))
                if pos in val:
                    return not val[pos]
        return None

    def run(body: list[ast.stmt], val: dict[str, bool]) -> tuple[bool, bool | None]:
        """(returned?, value)"""
        for st in body:
            if isinstance(st, ast.Expr) and isinstance(st.value, ast.Constant):
                continue
            if isinstance(st, ast.Return):
                return True, (ev(st.value, val) if st.value is not None else None)
            if isinstance(st, ast.If):
                c = ev(st.test, val)
                if c is None:
                    return True, None
                done, r = run(st.body if c else st.orelse, val)
                if done:
                    return True, r
                continue
            if isinstance(st, ast.Assign) and len(st.targets) == 1 and isinstance(st.targets[0], ast.Name) and sum(1 for a in ast.walk(node) if isinstance(a, ast.Assign) and any(isinstance(t_, ast.Name) and t_.id == st.targets[0].id for t_ in a.targets)) == 1:
                local_vals[st.targets[0].id] = st.value  # a named sub-test
                continue
            return True, None
        return False, None

    out: dict[tuple[bool, ...], bool | None] = {}
    for combo in itertools.product((True, False), repeat=len(atom_texts)):
        val = dict(zip(atom_texts, combo))
        local_vals: dict[str, ast.expr] = {}
        if isinstance(node, (ast.FunctionDef, ast.AsyncFunctionDef)):
            out[combo] = run(node.body, val)[1]
        else:
            out[combo] = ev(node, val)  # type: ignore[arg-type]
    return out


def assigned_names(func: ast.AST) -> dict[str, list[ast.expr]]:
    """name -> list of value expressions assigned to it in the function (no nested defs)."""
    out: dict[str, list[ast.expr]] = {}
    for n in walk_no_nested(func):
        if isinstance(n, ast.Assign):
            for tg in n.targets:
                if isinstance(tg, ast.Name):
                    out.setdefault(tg.id, []).append(n.value)
                elif isinstance(tg, ast.Tuple):
                    for e in tg.elts:
                        if isinstance(e, ast.Name):
                            out.setdefault(e.id, []).append(n.value)
        elif isinstance(n, ast.AnnAssign) and isinstance(n.target, ast.Name) and n.value is not None:
            out.setdefault(n.target.id, []).append(n.value)
        elif isinstance(n, ast.AugAssign) and isinstance(n.target, ast.Name):
            out.setdefault(n.target.id, []).append(n.value)
        elif isinstance(n, ast.NamedExpr):
            out.setdefault(n.target.id, []).append(n.value)
    return out


def returns(func: ast.AST) -> list[ast.Return]:
    return [n for n in walk_no_nested(func) if isinstance(n, ast.Return)]


def raises(func: ast.AST, nested: bool = True) -> list[ast.Raise]:
    it = ast.walk(func) if nested else walk_no_nested(func)
    return [n for n in it if isinstance(n, ast.Raise)]


def raise_type(r: ast.Raise) -> str:
    if r.exc is None:
        return "<reraise>"
    e = r.exc
    if isinstance(e, ast.Name):
        # `err = SomeError(...); raise err`: the class of the single local binding
        fn = r
        while fn is not None and not isinstance(fn, (ast.FunctionDef, ast.AsyncFunctionDef)):
            fn = getattr(fn, "_parent", None)
        if fn is not None:
            src = [a for a in ast.walk(fn) if isinstance(a, ast.Assign) and len(a.targets) == 1 and isinstance(a.targets[0], ast.Name) and a.targets[0].id == e.id]
            handlers = [h for h in ast.walk(fn) if isinstance(h, ast.ExceptHandler) and h.name == e.id]
            if len(src) == 1 and not handlers and isinstance(src[0].value, ast.Call):
                e = src[0].value
    if isinstance(e, ast.Call):
        return ast.unparse(e.func)
    return ast.unparse(e)


def functions_of(repo: Repo, module: str) -> list[FuncInfo]:
    """All functions and methods defined in a module (one level of nesting for classes)."""
    m = repo.module(module)
    out: list[FuncInfo] = []
    for name, d in m.defs.items():
        if isinstance(d, (ast.FunctionDef, ast.AsyncFunctionDef)):
            out.append(FuncInfo(m, d, None))
        elif isinstance(d, ast.ClassDef):
            ci = repo.cls(f"{module}:{name}")
            for mn, md in ci.methods.items():
                out.append(FuncInfo(m, md, ci))
    return out


def all_funcdefs(tree: ast.AST) -> list[ast.AST]:
    return [n for n in ast.walk(tree) if isinstance(n, (ast.FunctionDef, ast.AsyncFunctionDef))]


def qualname(node: ast.AST) -> str:
    parts = []
    cur: ast.AST | None = node
    while cur is not None:
        if isinstance(cur, (ast.FunctionDef, ast.AsyncFunctionDef, ast.ClassDef)):
            parts.append(cur.name)
        cur = getattr(cur, "_parent", None)
    return ".".join(reversed(parts))


def enclosing_qual(node: ast.AST) -> str:
    cur = getattr(node, "_parent", None)
    while cur is not None and not isinstance(cur, (ast.FunctionDef, ast.AsyncFunctionDef, ast.ClassDef)):
        cur = getattr(cur, "_parent", None)
    return qualname(cur) if cur is not None else "<module>"


def const_str_set(node: ast.expr) -> set[str] | None:
    """A literal tuple/set/list/frozenset([...]) of strings, or None."""
    if isinstance(node, ast.Call) and ast.unparse(node.func) in ("frozenset", "set", "tuple") and len(node.args) == 1:
        node = node.args[0]
    if isinstance(node, (ast.Tuple, ast.Set, ast.List)):
        out = set()
        for e in node.elts:
            if isinstance(e, ast.Constant) and isinstance(e.value, str):
                out.add(e.value)
            else:
                return None
        return out
    return None


def is_none_test(test: ast.expr) -> tuple[str, bool] | None:
    """``x is None`` -> (x, True); ``x is not None`` -> (x, False)."""
    if isinstance(test, ast.Compare) and len(test.ops) == 1 and isinstance(test.comparators[0], ast.Constant) and test.comparators[0].value is None:
        if isinstance(test.ops[0], ast.Is):
            return ast.unparse(test.left), True
        if isinstance(test.ops[0], ast.IsNot):
            return ast.unparse(test.left), False
    return None


def walk_stmts(body: t.Iterable[ast.stmt]) -> t.Iterator[ast.stmt]:
    for st in body:
        yield st
        for field in ("body", "orelse", "finalbody"):
            sub = getattr(st, field, None)
            if isinstance(sub, list) and not isinstance(st, (ast.FunctionDef, ast.AsyncFunctionDef, ast.ClassDef)):
                yield from walk_stmts(sub)
        if isinstance(st, ast.Try):
            for h in st.handlers:
                yield from walk_stmts(h.body)


def ancestors_handlers(node: ast.AST) -> list[ast.ExceptHandler]:
    out = []
    cur = getattr(node, "_parent", None)
    while cur is not None:
        if isinstance(cur, ast.ExceptHandler):
            out.append(cur)
        if isinstance(cur, (ast.FunctionDef, ast.AsyncFunctionDef, ast.Lambda)):
            break
        cur = getattr(cur, "_parent", None)
    return out


def linear(e: ast.expr) -> dict[str, int] | None:
    """Normalise an integer expression built from names, calls (atoms), integer constants,
    ``+``, ``-`` and unary minus into {atom: coefficient, "": constant}; None if not linear."""
    if isinstance(e, ast.Constant) and isinstance(e.value, int) and not isinstance(e.value, bool):
        return {"": e.value}
    if isinstance(e, ast.Await):
        return linear(e.value)
    if isinstance(e, (ast.Name, ast.Call, ast.Attribute, ast.Subscript, ast.Compare)):
        return {ast.unparse(e): 1}
    if isinstance(e, ast.UnaryOp) and isinstance(e.op, ast.USub):
        r = linear(e.operand)
        return None if r is None else {k: -v for k, v in r.items()}
    if isinstance(e, ast.BinOp) and isinstance(e.op, (ast.Add, ast.Sub)):
        a, b = linear(e.left), linear(e.right)
        if a is None or b is None:
            return None
        out = dict(a)
        sign = 1 if isinstance(e.op, ast.Add) else -1
        for k, v in b.items():
            out[k] = out.get(k, 0) + sign * v
        return {k: v for k, v in out.items() if v != 0 or k == ""}
    return None


def linear_cmp(test: ast.expr) -> tuple[dict[str, int], str] | None:
    """``a OP b`` with linear sides -> (a - b normalised, OP) with OP in <,<=,>,>=,==,!=."""
    if not (isinstance(test, ast.Compare) and len(test.ops) == 1):
        return None
    a, b = linear(test.left), linear(test.comparators[0])
    if a is None or b is None:
        return None
    d = dict(a)
    for k, v in b.items():
        d[k] = d.get(k, 0) - v
    d = {k: v for k, v in d.items() if v != 0}
    op = {ast.Lt: "<", ast.LtE: "<=", ast.Gt: ">", ast.GtE: ">=", ast.Eq: "==", ast.NotEq: "!="}.get(type(test.ops[0]))
    if op is None:
        return None
    # canonical orientation: first atom (sorted) has positive coefficient
    keys = sorted(k for k in d if k)
    if keys and d[keys[0]] < 0:
        d = {k: -v for k, v in d.items()}
        op = {"<": ">", "<=": ">=", ">": "<", ">=": "<=", "==": "==", "!=": "!="}[op]
    return d, op
