"""E3 - effect / alias flow: does a function mutate an object its caller owns?

A flow-sensitive, lightly path-sensitive analysis over function bodies.  The abstract value
of a name is a set of *origins*:

  ``fresh``          created here (literal, comprehension, call result, copy, slice, list(x) ...)
  ``param:<p>``      the object passed as parameter ``p`` itself
  ``elem:<p>``       something reached from parameter ``p`` (item, attribute, iteration element)

Mutation sinks on ``param:``/``elem:`` origins: subscript / attribute store and delete,
augmented assignment (unless the parameter is annotated with an immutable type), calls of
known mutating methods.  Guards that are a bare name, ``not name``, ``name is (not) None``
or ``isinstance(name, T)`` split the analysis per outcome (no join afterwards, up to a cap),
which keeps correlated conditions such as ``if shared: parent = dict(parent)`` exact.
Package-internal helpers receive the join of the argument origins at their call sites.
A call result is assumed fresh: that can only lose findings, never invent one.
"""

from __future__ import annotations

import ast
import typing as t

MUTATING_METHODS = {
    "append", "extend", "insert", "pop", "remove", "clear", "sort", "reverse", "update", "setdefault",
    "popitem", "add", "discard", "appendleft", "extendleft", "popleft", "rotate", "difference_update",
    "intersection_update", "symmetric_difference_update", "__setitem__", "__delitem__", "__setattr__",
}
FRESH_CALLS = {
    "list", "dict", "set", "tuple", "sorted", "frozenset", "str", "int", "float", "bool", "bytes", "len", "repr",
    "map", "filter", "zip", "enumerate", "reversed", "iter", "next", "chain", "groupby", "sum", "min", "max",
    "escape", "Markup", "soft_str", "range", "isinstance", "hasattr", "getattr", "type", "round", "abs",
    "auto_to_list", "auto_aiter",
}
IMMUTABLE_ANN = {"str", "int", "float", "bool", "bytes", "None", "tuple", "Markup", "complex", "frozenset"}
FRESH = frozenset({"fresh"})
CAP = 96

Origin = t.FrozenSet[str]


def is_owned(o: Origin) -> bool:
    return any(x.startswith("param:") or x.startswith("elem:") for x in o)


def demote(o: Origin) -> Origin:
    """Origins of something *reached from* a value with origins o."""
    out = set()
    for x in o:
        if x.startswith("param:"):
            out.add("elem:" + x[6:])
        elif x.startswith("elem:"):
            out.add(x)
        elif x == "fresh":
            out.add("fresh")
        else:
            out.add(x)
    return frozenset(out)


class State:
    __slots__ = ("env", "facts")

    def __init__(self, env: dict[str, Origin], facts: dict[str, t.Any]) -> None:
        self.env = env
        self.facts = facts

    def copy(self) -> "State":
        return State(dict(self.env), dict(self.facts))


class Mutation(t.NamedTuple):
    node: ast.AST
    name: str
    origins: Origin
    kind: str


def ann_immutable(ann: ast.expr | None) -> bool:
    if ann is None:
        return False
    txt = ast.unparse(ann).strip("'\"")
    parts = [p.strip().strip("'\"") for p in txt.replace("t.Optional[", "").replace("]", "").split("|")]
    return all(p in IMMUTABLE_ANN or p.startswith("te.Literal") for p in parts if p)


class FlowAnalysis:
    def __init__(self, fn: ast.AST, param_origins: dict[str, Origin] | None = None, outer_env: dict[str, Origin] | None = None,
                 on_call: t.Callable[[ast.Call, list[Origin], dict[str, Origin]], Origin | None] | None = None, trust_annotations: bool = True) -> None:
        self.fn = fn
        self.mutations: list[Mutation] = []
        self.on_call = on_call
        self.immutable_params: set[str] = set()
        self.returns: list[Origin] = []
        a = fn.args  # type: ignore[attr-defined]
        env: dict[str, Origin] = dict(outer_env or {})
        allp = a.posonlyargs + a.args + a.kwonlyargs
        for p in allp:
            o = (param_origins or {}).get(p.arg)
            env[p.arg] = o if o is not None else frozenset({f"param:{p.arg}"})
            # (the parameters of a registered filter / test receive whatever the template passes:
            # an annotation `str` does not keep a list from arriving there)
            if trust_annotations and ann_immutable(p.annotation):
                self.immutable_params.add(p.arg)
        if a.vararg:
            env[a.vararg.arg] = (param_origins or {}).get(a.vararg.arg, frozenset({"varkw:" + a.vararg.arg}))
        if a.kwarg:
            env[a.kwarg.arg] = (param_origins or {}).get(a.kwarg.arg, frozenset({"varkw:" + a.kwarg.arg}))
        self.param_names = {p.arg for p in allp}
        states = self.block(fn.body, [State(env, {})])  # type: ignore[attr-defined]
        self.final = states

    # --------------------------------------------------------------- origins
    def origin(self, e: ast.expr | None, st: State) -> Origin:
        if e is None:
            return FRESH
        if isinstance(e, ast.Name):
            return st.env.get(e.id, FRESH)
        if isinstance(e, (ast.Constant, ast.JoinedStr, ast.List, ast.Dict, ast.Set, ast.Tuple, ast.ListComp, ast.DictComp, ast.SetComp, ast.GeneratorExp, ast.Lambda, ast.Compare, ast.BoolOp, ast.UnaryOp)):
            if isinstance(e, ast.BoolOp):
                o: set[str] = set()
                for v in e.values:
                    o |= self.origin(v, st)
                return frozenset(o)
            return FRESH
        if isinstance(e, ast.BinOp):
            return FRESH
        if isinstance(e, ast.IfExp):
            return self.origin(e.body, st) | self.origin(e.orelse, st)
        if isinstance(e, ast.NamedExpr):
            o2 = self.origin(e.value, st)
            st.env[e.target.id] = o2
            return o2
        if isinstance(e, (ast.Attribute,)):
            return demote(self.origin(e.value, st))
        if isinstance(e, ast.Subscript):
            if isinstance(e.slice, ast.Slice):
                return FRESH
            base = self.origin(e.value, st)
            out = set(demote(base))
            if any(x.startswith("varkw:") for x in base):
                out = {x for x in out if not x.startswith("varkw:")}
                out.add("elem:" + next(x for x in base if x.startswith("varkw:"))[6:])
            return frozenset(out)
        if isinstance(e, ast.Await):
            return self.origin(e.value, st)
        if isinstance(e, ast.Starred):
            return self.origin(e.value, st)
        if isinstance(e, ast.Call):
            args = [self.origin(a, st) for a in e.args]
            kws = {k.arg or "**": self.origin(k.value, st) for k in e.keywords}
            fn = ast.unparse(e.func)
            tail = fn.split(".")[-1]
            # typing casts are transparent
            if fn in ("t.cast", "typing.cast", "cast") and len(e.args) == 2:
                return args[1]
            if self.on_call is not None:
                r = self.on_call(e, args, kws)
                if r is not None:
                    return r
            if isinstance(e.func, ast.Attribute):
                recv = self.origin(e.func.value, st)
                if tail in MUTATING_METHODS:
                    self.sink(e, e.func.value, recv, f"call .{tail}()", st)
                if tail in ("get", "pop", "setdefault", "__getitem__"):
                    return demote(recv)
                if tail in ("copy", "items", "keys", "values", "split", "join", "replace", "strip", "lower", "upper", "format", "encode", "decode", "splitlines"):
                    return FRESH
            return FRESH
        return FRESH

    def sink(self, node: ast.AST, target: ast.expr, o: Origin, kind: str, st: State) -> None:
        if is_owned(o):
            name = ast.unparse(target)
            self.mutations.append(Mutation(node, name, o, kind))

    # ------------------------------------------------------------ statements
    def assign(self, target: ast.expr, o: Origin, st: State, value: ast.expr | None = None) -> None:
        if isinstance(target, ast.Name):
            st.env[target.id] = o
            st.facts.pop(target.id, None)
            for k in [k for k in st.facts if k.startswith(f"isinstance({target.id},")]:
                st.facts.pop(k)
        elif isinstance(target, (ast.Tuple, ast.List)):
            for e in target.elts:
                self.assign(e, demote(o) if o != FRESH else FRESH, st)
        elif isinstance(target, ast.Starred):
            self.assign(target.value, o, st)
        elif isinstance(target, ast.Subscript):
            self.sink(target, target.value, self.origin(target.value, st), "item store", st)
        elif isinstance(target, ast.Attribute):
            self.sink(target, target.value, self.origin(target.value, st), "attribute store", st)

    def simple_test(self, test: ast.expr) -> tuple[str, t.Any] | None:
        """(fact key, value when the test is true)."""
        if isinstance(test, ast.Name):
            return test.id, "truthy"
        if isinstance(test, ast.UnaryOp) and isinstance(test.op, ast.Not):
            r = self.simple_test(test.operand)
            if r is not None:
                return r[0], {"truthy": "falsy", "falsy": "truthy", "none": "notnone", "notnone": "none", "isinst": "notinst", "notinst": "isinst"}.get(r[1], None)
        if isinstance(test, ast.Compare) and len(test.ops) == 1 and isinstance(test.left, ast.Name) and isinstance(test.comparators[0], ast.Constant) and test.comparators[0].value is None:
            if isinstance(test.ops[0], ast.Is):
                return test.left.id, "none"
            if isinstance(test.ops[0], ast.IsNot):
                return test.left.id, "notnone"
        if isinstance(test, ast.Call) and ast.unparse(test.func) == "isinstance" and len(test.args) == 2 and isinstance(test.args[0], ast.Name):
            return f"isinstance({test.args[0].id}, {ast.unparse(test.args[1])})", "isinst"
        return None

    @staticmethod
    def _neg(v: t.Any) -> t.Any:
        return {"truthy": "falsy", "falsy": "truthy", "none": "notnone", "notnone": "none", "isinst": "notinst", "notinst": "isinst"}[v]

    @staticmethod
    def _consistent(known: t.Any, asked: t.Any) -> bool | None:
        """Is outcome ``asked`` possible given ``known``? None = undetermined."""
        if known == asked:
            return True
        if known == FlowAnalysis._neg(asked):
            return False
        # none implies falsy; truthy implies notnone
        if known == "none" and asked == "falsy":
            return True
        if known == "none" and asked == "truthy":
            return False
        if known == "truthy" and asked == "notnone":
            return True
        if known == "truthy" and asked == "none":
            return False
        return None

    def block(self, body: list[ast.stmt], states: list[State]) -> list[State]:
        for s in body:
            nxt: list[State] = []
            for st in states:
                nxt.extend(self.stmt(s, st))
            if len(nxt) > CAP:
                nxt = [self.join(nxt)]
            states = nxt
            if not states:
                break
        return states

    def join(self, states: list[State]) -> State:
        env: dict[str, Origin] = {}
        for st in states:
            for k, v in st.env.items():
                env[k] = env.get(k, frozenset()) | v
        return State(env, {})

    def stmt(self, s: ast.stmt, st: State) -> list[State]:
        if isinstance(s, ast.Assign):
            o = self.origin(s.value, st)
            for tg in s.targets:
                self.assign(tg, o, st, s.value)
            return [st]
        if isinstance(s, ast.AnnAssign):
            if s.value is not None:
                self.assign(s.target, self.origin(s.value, st), st, s.value)
            return [st]
        if isinstance(s, ast.AugAssign):
            self.origin(s.value, st)
            if isinstance(s.target, ast.Name):
                o = st.env.get(s.target.id, FRESH)
                owners = {x.split(":", 1)[1] for x in o if x.startswith("param:")}
                if is_owned(o) and not (owners and owners <= self.immutable_params and not any(x.startswith("elem:") for x in o)):
                    self.mutations.append(Mutation(s, s.target.id, o, "augmented assignment (in-place for mutable objects)"))
            else:
                self.assign(s.target, FRESH, st)
            return [st]
        if isinstance(s, ast.Delete):
            for tg in s.targets:
                if isinstance(tg, ast.Subscript):
                    self.sink(tg, tg.value, self.origin(tg.value, st), "item delete", st)
                elif isinstance(tg, ast.Attribute):
                    self.sink(tg, tg.value, self.origin(tg.value, st), "attribute delete", st)
            return [st]
        if isinstance(s, ast.Expr):
            self.origin(s.value, st)
            if isinstance(s.value, (ast.Yield, ast.YieldFrom)) and s.value.value is not None:
                self.origin(s.value.value, st)
            return [st]
        if isinstance(s, ast.Return):
            if s.value is not None:
                self.returns.append(self.origin(s.value, st))
            return []
        if isinstance(s, (ast.Raise, ast.Continue, ast.Break)):
            if isinstance(s, ast.Raise) and s.exc is not None:
                self.origin(s.exc, st)
            return [] if isinstance(s, ast.Raise) else [st]
        if isinstance(s, ast.If):
            self.origin(s.test, st)
            r = self.simple_test(s.test)
            outs: list[State] = []
            if r is not None and r[1] is not None:
                key, val = r
                known = st.facts.get(key)
                pos = self._consistent(known, val) if known is not None else None
                if pos is not False:
                    a = st.copy()
                    a.facts[key] = val if known is None or pos is None else known
                    if known is None or pos is None:
                        a.facts[key] = val
                    outs += self.block(s.body, [a])
                if pos is not True:
                    b = st.copy()
                    b.facts[key] = self._neg(val)
                    outs += self.block(s.orelse, [b])
                return outs
            # conjunction of simple tests: facts hold in the body only
            a = st.copy()
            if isinstance(s.test, ast.BoolOp) and isinstance(s.test.op, ast.And):
                for v in s.test.values:
                    rr = self.simple_test(v)
                    if rr is not None and rr[1] is not None:
                        a.facts[rr[0]] = rr[1]
            outs += self.block(s.body, [a])
            outs += self.block(s.orelse, [st.copy()])
            return outs
        if isinstance(s, (ast.For, ast.AsyncFor)):
            it = self.origin(s.iter, st)
            cur = st
            for _ in range(2):
                b = cur.copy()
                self.assign(s.target, demote(it), b)
                outs2 = self.block(s.body, [b])
                cur = self.join([cur] + outs2) if outs2 else cur
                cur.facts = dict(st.facts) if _ == 0 else {}
            res = self.block(s.orelse, [cur]) if s.orelse else [cur]
            return res
        if isinstance(s, ast.While):
            self.origin(s.test, st)
            cur = st
            for _ in range(2):
                outs2 = self.block(s.body, [cur.copy()])
                cur = self.join([cur] + outs2) if outs2 else cur
            return [cur]
        if isinstance(s, (ast.With, ast.AsyncWith)):
            for item in s.items:
                o = self.origin(item.context_expr, st)
                if item.optional_vars is not None:
                    self.assign(item.optional_vars, o, st)
            return self.block(s.body, [st])
        if isinstance(s, ast.Try):
            body_out = self.block(s.body, [st.copy()])
            outs = self.block(s.orelse, body_out) if s.orelse else body_out
            for h in s.handlers:
                hst = self.join([st] + body_out) if body_out else st.copy()
                if h.name:
                    hst.env[h.name] = FRESH
                outs += self.block(h.body, [hst])
            if s.finalbody:
                outs = self.block(s.finalbody, outs or [st.copy()])
            return outs
        if isinstance(s, (ast.FunctionDef, ast.AsyncFunctionDef)):
            # closure: analysed with the current environment; its own parameters are
            # reached-from-caller-data (elements handed in by map/sorted/key functions)
            a = s.args
            po = {p.arg: frozenset({"elem:<closure-arg>"}) for p in a.posonlyargs + a.args + a.kwonlyargs}
            sub = FlowAnalysis(s, po, outer_env=dict(st.env), on_call=self.on_call)
            self.mutations.extend(sub.mutations)
            st.env[s.name] = FRESH
            return [st]
        if isinstance(s, (ast.Assert, ast.Pass, ast.Import, ast.ImportFrom, ast.Global, ast.Nonlocal, ast.ClassDef)):
            return [st]
        return [st]


def analyse_module_functions(
    funcs: dict[str, ast.AST], entries: list[str], entry_param_origins: dict[str, dict[str, Origin]] | None = None
) -> dict[str, tuple[list[Mutation], dict[str, Origin]]]:
    """Analyse entry functions with caller-owned parameters and helpers with the join of the
    argument origins at their call sites (worklist).  Returns per function (mutations, params)."""
    param_in: dict[str, dict[str, Origin]] = {}
    result: dict[str, tuple[list[Mutation], dict[str, Origin]]] = {}
    work = list(entries)
    for e in entries:
        param_in[e] = dict((entry_param_origins or {}).get(e, {}))
    seen_sig: dict[str, t.Any] = {}
    guard = 0
    while work and guard < 400:
        guard += 1
        name = work.pop(0)
        fn = funcs.get(name)
        if fn is None:
            continue
        sig = tuple(sorted((k, tuple(sorted(v))) for k, v in param_in.get(name, {}).items()))
        if seen_sig.get(name) == sig and name in result:
            continue
        seen_sig[name] = sig

        def on_call(call: ast.Call, args: list[Origin], kws: dict[str, Origin], _caller: str = name) -> Origin | None:
            f = ast.unparse(call.func)
            if f in funcs and f not in entries:
                callee = funcs[f]
                a = callee.args  # type: ignore[attr-defined]
                names = [p.arg for p in a.posonlyargs + a.args]
                cur = param_in.setdefault(f, {})
                changed = False
                for i, o in enumerate(args):
                    if i < len(names):
                        new = cur.get(names[i], frozenset()) | _rename(o)
                        if new != cur.get(names[i]):
                            cur[names[i]] = new
                            changed = True
                for k, o in kws.items():
                    if k in names or k in [p.arg for p in a.kwonlyargs]:
                        new = cur.get(k, frozenset()) | _rename(o)
                        if new != cur.get(k):
                            cur[k] = new
                            changed = True
                if changed or f not in result:
                    work.append(f)
            return None

        fa = FlowAnalysis(fn, param_in.get(name) if name not in entries or param_in.get(name) else None, on_call=on_call, trust_annotations=name not in entries)
        result[name] = (fa.mutations, param_in.get(name, {}))
    return result


def _rename(o: Origin) -> Origin:
    """Origins seen by a callee: caller-owned stays caller-owned, varkw containers are fresh."""
    out = set()
    for x in o:
        if x.startswith("varkw:"):
            out.add("fresh")
        else:
            out.add(x)
    return frozenset(out)
