"""E5 - regular-expression automata.

``re._parser.parse`` (applied to the pattern literal read from the source, with its flags)
-> epsilon-NFA -> DFA over a partitioned alphabet, to decide language inclusion between a
pattern of the package and a reference grammar.  Supported: literals, classes, categories
(\\d \\w \\s with Unicode meaning unless re.ASCII), branches, groups, bounded and unbounded
repeats; look-around assertions are dropped (they only restrict the language, which is
sound for ``L(pattern) subset-of L(reference)`` on the left side).
"""

from __future__ import annotations

import re
import re._constants as sc  # type: ignore[import-not-found]
import re._parser as sp  # type: ignore[import-not-found]
import typing as t

# representative characters of the alphabet partition used for number literals
ALPHABET = ["0", "1", "2", "7", "8", "9", "a", "b", "c", "d", "e", "f", "o", "x", "g", "_", ".", "+", "-", "j", " ", "٣", "é", "$"]
# "٣" = a non-ASCII decimal digit, "é" = a non-ASCII letter, "$" = other punctuation, "g"/"j" = other letters


def matches_item(op: t.Any, av: t.Any, ch: str, flags: int) -> bool:
    ic = bool(flags & re.IGNORECASE)
    ascii_ = bool(flags & re.ASCII)
    if op is sc.LITERAL:
        return ch == chr(av) or (ic and ch.lower() == chr(av).lower())
    if op is sc.NOT_LITERAL:
        return not (ch == chr(av) or (ic and ch.lower() == chr(av).lower()))
    if op is sc.ANY:
        return ch != "\n" or bool(flags & re.S)
    if op is sc.CATEGORY:
        return category(av, ch, ascii_)
    if op is sc.IN:
        neg = False
        hit = False
        for o2, a2 in av:
            if o2 is sc.NEGATE:
                neg = True
            elif o2 is sc.LITERAL:
                hit = hit or ch == chr(a2) or (ic and ch.lower() == chr(a2).lower())
            elif o2 is sc.RANGE:
                lo, hi = a2
                hit = hit or lo <= ord(ch) <= hi or (ic and (lo <= ord(ch.lower()) <= hi or lo <= ord(ch.upper()) <= hi))
            elif o2 is sc.CATEGORY:
                hit = hit or category(a2, ch, ascii_)
        return hit != neg
    raise ValueError(f"unsupported item {op}")


def category(cat: t.Any, ch: str, ascii_: bool) -> bool:
    if cat is sc.CATEGORY_DIGIT:
        return ch in "0123456789" if ascii_ else ch.isdigit() and ch.isdecimal()
    if cat is sc.CATEGORY_NOT_DIGIT:
        return not category(sc.CATEGORY_DIGIT, ch, ascii_)
    if cat is sc.CATEGORY_SPACE:
        return ch in " \t\n\r\f\v" if ascii_ else ch.isspace()
    if cat is sc.CATEGORY_NOT_SPACE:
        return not category(sc.CATEGORY_SPACE, ch, ascii_)
    if cat is sc.CATEGORY_WORD:
        return (ch.isascii() and (ch.isalnum() or ch == "_")) if ascii_ else (ch.isalnum() or ch == "_")
    if cat is sc.CATEGORY_NOT_WORD:
        return not category(sc.CATEGORY_WORD, ch, ascii_)
    raise ValueError(f"unsupported category {cat}")


class NFA:
    def __init__(self) -> None:
        self.n = 0
        self.eps: dict[int, set[int]] = {}
        self.trans: dict[int, list[tuple[t.Any, int]]] = {}

    def new(self) -> int:
        self.n += 1
        return self.n - 1

    def e(self, a: int, b: int) -> None:
        self.eps.setdefault(a, set()).add(b)

    def t(self, a: int, item: t.Any, b: int) -> None:
        self.trans.setdefault(a, []).append((item, b))


def build(nfa: NFA, items: t.Any, start: int) -> int:
    cur = start
    for op, av in items:
        if op in (sc.LITERAL, sc.NOT_LITERAL, sc.ANY, sc.IN, sc.CATEGORY):
            nxt = nfa.new()
            nfa.t(cur, (op, av), nxt)
            cur = nxt
        elif op is sc.SUBPATTERN:
            cur = build(nfa, av[3], cur)
        elif op is sc.BRANCH:
            end = nfa.new()
            for alt in av[1]:
                s = nfa.new()
                nfa.e(cur, s)
                nfa.e(build(nfa, alt, s), end)
            cur = end
        elif op in (sc.MAX_REPEAT, sc.MIN_REPEAT, sc.POSSESSIVE_REPEAT):
            lo, hi, sub = av
            for _ in range(lo):
                cur = build(nfa, sub, cur)
            if hi is sc.MAXREPEAT:
                loop = nfa.new()
                nfa.e(cur, loop)
                nfa.e(build(nfa, sub, loop), loop)
                cur = loop
            else:
                end = nfa.new()
                nfa.e(cur, end)
                for _ in range(hi - lo):
                    cur = build(nfa, sub, cur)
                    nfa.e(cur, end)
                cur = end
        elif op in (sc.ASSERT, sc.ASSERT_NOT, sc.AT):
            continue
        else:
            raise ValueError(f"unsupported regex construct {op}")
    return cur


class DFA:
    def __init__(self, pattern: str, flags: int, alphabet: list[str] = ALPHABET) -> None:
        self.alphabet = alphabet
        tree = sp.parse(pattern, flags)
        flags = tree.state.flags
        nfa = NFA()
        s = nfa.new()
        acc = build(nfa, tree, s)

        def closure(states: frozenset[int]) -> frozenset[int]:
            out = set(states)
            todo = list(states)
            while todo:
                x = todo.pop()
                for y in nfa.eps.get(x, ()):
                    if y not in out:
                        out.add(y)
                        todo.append(y)
            return frozenset(out)

        start = closure(frozenset({s}))
        self.start = start
        self.delta: dict[tuple[frozenset[int], str], frozenset[int]] = {}
        self.accepting: set[frozenset[int]] = set()
        seen = {start}
        todo = [start]
        while todo:
            st = todo.pop()
            if acc in st:
                self.accepting.add(st)
            for ch in alphabet:
                nxt = set()
                for x in st:
                    for (op, av), y in nfa.trans.get(x, ()):
                        if matches_item(op, av, ch, flags):
                            nxt.add(y)
                ns = closure(frozenset(nxt))
                self.delta[(st, ch)] = ns
                if ns not in seen:
                    seen.add(ns)
                    todo.append(ns)
        self.states = seen


def counterexample_not_subset(a: DFA, b: DFA) -> str | None:
    """A word of L(a) that is not in L(b), or None when L(a) is a subset of L(b)."""
    start = (a.start, b.start)
    seen = {start}
    todo: list[tuple[tuple, str]] = [(start, "")]
    while todo:
        (sa, sb), w = todo.pop(0)
        if sa in a.accepting and sb not in b.accepting:
            return w
        for ch in a.alphabet:
            na, nb = a.delta[(sa, ch)], b.delta[(sb, ch)]
            if not na:
                continue
            key = (na, nb)
            if key not in seen:
                seen.add(key)
                todo.append((key, w + ch))
    return None


def unbounded(pattern: str, flags: int) -> bool:
    tree = sp.parse(pattern, flags)

    def walk(items: t.Any) -> bool:
        for op, av in items:
            if op in (sc.MAX_REPEAT, sc.MIN_REPEAT) and av[1] is sc.MAXREPEAT:
                return True
            if op is sc.SUBPATTERN and walk(av[3]):
                return True
            if op is sc.BRANCH and any(walk(x) for x in av[1]):
                return True
            if op in (sc.MAX_REPEAT, sc.MIN_REPEAT) and walk(av[2]):
                return True
        return False

    return walk(tree)


def _pattern_chars(tree: t.Any) -> set[str]:
    out: set[str] = set()

    def walk(items: t.Any) -> None:
        for op, av in items:
            if op in (sc.LITERAL, sc.NOT_LITERAL):
                out.add(chr(av))
            elif op is sc.IN:
                for o2, a2 in av:
                    if o2 is sc.LITERAL:
                        out.add(chr(a2))
                    elif o2 is sc.RANGE:
                        out.update({chr(a2[0]), chr(a2[1])})
            elif op is sc.SUBPATTERN:
                walk(av[3])
            elif op is sc.BRANCH:
                for alt in av[1]:
                    walk(alt)
            elif op in (sc.MAX_REPEAT, sc.MIN_REPEAT, sc.POSSESSIVE_REPEAT):
                walk(av[2])
            elif op in (sc.ASSERT, sc.ASSERT_NOT):
                walk(av[1])

    walk(tree)
    return out


def eda_witness(pattern: str, flags: int = 0) -> tuple[str, str] | None:
    """Exponential ambiguity of the pattern's NFA (a backtracking matcher then needs time
    exponential in the input length to report a failure): there are a state q and a word w
    with two *different* runs q -w-> q.  Decided on the epsilon-free NFA over an alphabet of
    representative characters (the pattern's own literals / range ends plus fillers) as
    "some strongly connected component of the product automaton contains a pair (p, p) and
    a pair (p, r) with p != r".  Returns (prefix reaching q, w) or None.  Look-around
    assertions and anchors are dropped, possessive / atomic constructs are treated as greedy
    (both make the answer conservative: a reported pattern may in fact be safe)."""
    tree = sp.parse(pattern, flags)
    fl = tree.state.flags
    nfa = NFA()
    s0 = nfa.new()
    build(nfa, tree, s0)
    alphabet = sorted(_pattern_chars(tree) | {"a", "Z", "0", " ", "\n", "_", "é", "#"})

    clos: dict[int, frozenset[int]] = {}

    def closure(x: int) -> frozenset[int]:
        if x not in clos:
            out = {x}
            todo = [x]
            while todo:
                y = todo.pop()
                for z in nfa.eps.get(y, ()):
                    if z not in out:
                        out.add(z)
                        todo.append(z)
            clos[x] = frozenset(out)
        return clos[x]

    def step(q: int, ch: str) -> set[int]:
        out = set()
        for x in closure(q):
            for (op, av), y in nfa.trans.get(x, ()):
                if matches_item(op, av, ch, fl):
                    out.add(y)
        return out

    # reachable "character" states (targets of a consuming transition) and a word reaching each
    reach: dict[int, str] = {s0: ""}
    todo = [s0]
    while todo:
        q = todo.pop(0)
        for ch in alphabet:
            for r in step(q, ch):
                if r not in reach:
                    reach[r] = reach[q] + ch
                    todo.append(r)
    # product graph restricted to pairs reachable from a diagonal pair
    succ: dict[tuple[int, int], set[tuple[int, int]]] = {}
    label: dict[tuple[tuple[int, int], tuple[int, int]], str] = {}
    todo2 = [(q, q) for q in reach]
    seen = set(todo2)
    while todo2:
        pr = todo2.pop()
        a, b = pr
        for ch in alphabet:
            sa_, sb_ = step(a, ch), step(b, ch)
            for x in sa_:
                for y in sb_:
                    nx = (x, y)
                    succ.setdefault(pr, set()).add(nx)
                    label.setdefault((pr, nx), ch)
                    if nx not in seen:
                        seen.add(nx)
                        todo2.append(nx)
    # Tarjan (iterative)
    index: dict[tuple[int, int], int] = {}
    low: dict[tuple[int, int], int] = {}
    onst: set[tuple[int, int]] = set()
    stack: list[tuple[int, int]] = []
    comp: list[list[tuple[int, int]]] = []
    counter = 0
    for root in list(seen):
        if root in index:
            continue
        work = [(root, iter(succ.get(root, ())))]
        index[root] = low[root] = counter
        counter += 1
        stack.append(root)
        onst.add(root)
        while work:
            v, it = work[-1]
            adv = False
            for w in it:
                if w not in index:
                    index[w] = low[w] = counter
                    counter += 1
                    stack.append(w)
                    onst.add(w)
                    work.append((w, iter(succ.get(w, ()))))
                    adv = True
                    break
                if w in onst:
                    low[v] = min(low[v], index[w])
            if adv:
                continue
            work.pop()
            if work:
                low[work[-1][0]] = min(low[work[-1][0]], low[v])
            if low[v] == index[v]:
                c = []
                while True:
                    w = stack.pop()
                    onst.discard(w)
                    c.append(w)
                    if w == v:
                        break
                comp.append(c)
    for c in comp:
        cs = set(c)
        diag = [p for p in c if p[0] == p[1]]
        off = [p for p in c if p[0] != p[1]]
        if diag and off and (len(c) > 1 or c[0] in succ.get(c[0], ())):
            # a cycle diag -> off -> diag inside the component gives the pumped word
            def path(src: tuple[int, int], dst: tuple[int, int]) -> str:
                prev: dict[tuple[int, int], tuple[tuple[int, int], str]] = {}
                q_ = [src]
                seen_ = {src}
                while q_:
                    u = q_.pop(0)
                    for v_ in succ.get(u, ()):
                        if v_ in cs and v_ not in seen_:
                            seen_.add(v_)
                            prev[v_] = (u, label[(u, v_)])
                            if v_ == dst:
                                w_ = ""
                                while v_ != src:
                                    u2, ch2 = prev[v_]
                                    w_ = ch2 + w_
                                    v_ = u2
                                return w_
                            q_.append(v_)
                return ""

            d0 = diag[0]
            w = path(d0, off[0]) + path(off[0], d0)
            return reach.get(d0[0], ""), w
    return None
