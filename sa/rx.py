"""E5 - regular-expression automata.

``re._parser.parse`` (applied to the pattern literal read from the source, with its flags)
-> epsilon-NFA -> DFA over a partitioned alphabet, to decide language inclusion between a
pattern of the package and a reference grammar.  Supported: literals, classes, categories
(\\d \\w \\s with Unicode meaning unless re.ASCII), branches, groups, bounded and unbounded
repeats; look-around assertions are dropped (they only restrict the language, which is
sound for ``L(pattern) subset-of L(reference)`` on the left side).
"""

from __future__ import annotations

import re
import re._constants as sc  # type: ignore[import-not-found]
import re._parser as sp  # type: ignore[import-not-found]
import typing as t

# representative characters of the alphabet partition used for number literals
ALPHABET = ["0", "1", "2", "7", "8", "9", "a", "b", "c", "d", "e", "f", "o", "x", "g", "_", ".", "+", "-", "j", " ", "٣", "é", "$"]
# "٣" = a non-ASCII decimal digit, "é" = a non-ASCII letter, "$" = other punctuation, "g"/"j" = other letters


def matches_item(op: t.Any, av: t.Any, ch: str, flags: int) -> bool:
    ic = bool(flags & re.IGNORECASE)
    ascii_ = bool(flags & re.ASCII)
    if op is sc.LITERAL:
        return ch == chr(av) or (ic and ch.lower() == chr(av).lower())
    if op is sc.NOT_LITERAL:
        return not (ch == chr(av) or (ic and ch.lower() == chr(av).lower()))
    if op is sc.ANY:
        return ch != "\n" or bool(flags & re.S)
    if op is sc.CATEGORY:
        return category(av, ch, ascii_)
    if op is sc.IN:
        neg = False
        hit = False
        for o2, a2 in av:
            if o2 is sc.NEGATE:
                neg = True
            elif o2 is sc.LITERAL:
                hit = hit or ch == chr(a2) or (ic and ch.lower() == chr(a2).lower())
            elif o2 is sc.RANGE:
                lo, hi = a2
                hit = hit or lo <= ord(ch) <= hi or (ic and (lo <= ord(ch.lower()) <= hi or lo <= ord(ch.upper()) <= hi))
            elif o2 is sc.CATEGORY:
                hit = hit or category(a2, ch, ascii_)
        return hit != neg
    raise ValueError(f"unsupported item {op}")


def category(cat: t.Any, ch: str, ascii_: bool) -> bool:
    if cat is sc.CATEGORY_DIGIT:
        return ch in "0123456789" if ascii_ else ch.isdigit() and ch.isdecimal()
    if cat is sc.CATEGORY_NOT_DIGIT:
        return not category(sc.CATEGORY_DIGIT, ch, ascii_)
    if cat is sc.CATEGORY_SPACE:
        return ch in " \t\n\r\f\v" if ascii_ else ch.isspace()
    if cat is sc.CATEGORY_NOT_SPACE:
        return not category(sc.CATEGORY_SPACE, ch, ascii_)
    if cat is sc.CATEGORY_WORD:
        return (ch.isascii() and (ch.isalnum() or ch == "_")) if ascii_ else (ch.isalnum() or ch == "_")
    if cat is sc.CATEGORY_NOT_WORD:
        return not category(sc.CATEGORY_WORD, ch, ascii_)
    raise ValueError(f"unsupported category {cat}")


class NFA:
    def __init__(self) -> None:
        self.n = 0
        self.eps: dict[int, set[int]] = {}
        self.trans: dict[int, list[tuple[t.Any, int]]] = {}

    def new(self) -> int:
        self.n += 1
        return self.n - 1

    def e(self, a: int, b: int) -> None:
        self.eps.setdefault(a, set()).add(b)

    def t(self, a: int, item: t.Any, b: int) -> None:
        self.trans.setdefault(a, []).append((item, b))


def build(nfa: NFA, items: t.Any, start: int) -> int:
    cur = start
    for op, av in items:
        if op in (sc.LITERAL, sc.NOT_LITERAL, sc.ANY, sc.IN, sc.CATEGORY):
            nxt = nfa.new()
            nfa.t(cur, (op, av), nxt)
            cur = nxt
        elif op is sc.SUBPATTERN:
            cur = build(nfa, av[3], cur)
        elif op is sc.BRANCH:
            end = nfa.new()
            for alt in av[1]:
                s = nfa.new()
                nfa.e(cur, s)
                nfa.e(build(nfa, alt, s), end)
            cur = end
        elif op in (sc.MAX_REPEAT, sc.MIN_REPEAT, sc.POSSESSIVE_REPEAT):
            lo, hi, sub = av
            for _ in range(lo):
                cur = build(nfa, sub, cur)
            if hi is sc.MAXREPEAT:
                loop = nfa.new()
                nfa.e(cur, loop)
                nfa.e(build(nfa, sub, loop), loop)
                cur = loop
            else:
                end = nfa.new()
                nfa.e(cur, end)
                for _ in range(hi - lo):
                    cur = build(nfa, sub, cur)
                    nfa.e(cur, end)
                cur = end
        elif op in (sc.ASSERT, sc.ASSERT_NOT, sc.AT):
            continue
        else:
            raise ValueError(f"unsupported regex construct {op}")
    return cur


class DFA:
    def __init__(self, pattern: str, flags: int, alphabet: list[str] = ALPHABET) -> None:
        self.alphabet = alphabet
        tree = sp.parse(pattern, flags)
        flags = tree.state.flags
        nfa = NFA()
        s = nfa.new()
        acc = build(nfa, tree, s)

        def closure(states: frozenset[int]) -> frozenset[int]:
            out = set(states)
            todo = list(states)
            while todo:
                x = todo.pop()
                for y in nfa.eps.get(x, ()):
                    if y not in out:
                        out.add(y)
                        todo.append(y)
            return frozenset(out)

        start = closure(frozenset({s}))
        self.start = start
        self.delta: dict[tuple[frozenset[int], str], frozenset[int]] = {}
        self.accepting: set[frozenset[int]] = set()
        seen = {start}
        todo = [start]
        while todo:
            st = todo.pop()
            if acc in st:
                self.accepting.add(st)
            for ch in alphabet:
                nxt = set()
                for x in st:
                    for (op, av), y in nfa.trans.get(x, ()):
                        if matches_item(op, av, ch, flags):
                            nxt.add(y)
                ns = closure(frozenset(nxt))
                self.delta[(st, ch)] = ns
                if ns not in seen:
                    seen.add(ns)
                    todo.append(ns)
        self.states = seen


def counterexample_not_subset(a: DFA, b: DFA) -> str | None:
    """A word of L(a) that is not in L(b), or None when L(a) is a subset of L(b)."""
    start = (a.start, b.start)
    seen = {start}
    todo: list[tuple[tuple, str]] = [(start, "")]
    while todo:
        (sa, sb), w = todo.pop(0)
        if sa in a.accepting and sb not in b.accepting:
            return w
        for ch in a.alphabet:
            na, nb = a.delta[(sa, ch)], b.delta[(sb, ch)]
            if not na:
                continue
            key = (na, nb)
            if key not in seen:
                seen.add(key)
                todo.append((key, w + ch))
    return None


def unbounded(pattern: str, flags: int) -> bool:
    tree = sp.parse(pattern, flags)

    def walk(items: t.Any) -> bool:
        for op, av in items:
            if op in (sc.MAX_REPEAT, sc.MIN_REPEAT) and av[1] is sc.MAXREPEAT:
                return True
            if op is sc.SUBPATTERN and walk(av[3]):
                return True
            if op is sc.BRANCH and any(walk(x) for x in av[1]):
                return True
            if op in (sc.MAX_REPEAT, sc.MIN_REPEAT) and walk(av[2]):
                return True
        return False

    return walk(tree)
