"""E0 - repository model.

Parses every module of ``<repo>/src/jinja2`` from the *current working tree* and offers
resolved access to functions, classes (MRO, class-body aliases), module constants (through
a refusing constant evaluator) and normalised statement text.  Nothing is imported from the
package and nothing is executed.
"""

from __future__ import annotations

import ast
import hashlib
import os
import typing as t

REPO = os.environ.get("VERIF_REPO", "/repo")
PKG_REL = "src/jinja2"


class AnalysisError(Exception):
    """The analyser could not establish its own preconditions (exit 2)."""


class NotConst(Exception):
    pass


class Module:
    def __init__(self, name: str, path: str, rel: str, normalize: bool = False) -> None:
        self.name = name
        self.path = path
        self.rel = rel
        with open(path, encoding="utf-8") as f:
            self.src = f.read()
        self.sha = hashlib.sha256(self.src.encode()).hexdigest()
        try:
            self.tree = ast.parse(self.src, filename=path)
        except SyntaxError as e:  # pragma: no cover
            raise AnalysisError(f"cannot parse {rel}: {e}") from e
        for parent in ast.walk(self.tree):
            for child in ast.iter_child_nodes(parent):
                child._parent = parent  # type: ignore[attr-defined]
        self.tree._parent = None  # type: ignore[attr-defined]
        if normalize:
            # every rule reads functions in normal form (normalize.py); the emission model
            # interprets the code and works on the raw twin (Repo.raw)
            from .normalize import normalize_tree

            normalize_tree(self.tree)
        # top-level symbol table
        self.defs: dict[str, ast.AST] = {}
        self.assigns: dict[str, ast.expr] = {}
        self.imports: dict[str, tuple[str, str | None]] = {}
        self._scan_top(self.tree.body)

    def _scan_top(self, body: list[ast.stmt]) -> None:
        for st in body:
            if isinstance(st, (ast.FunctionDef, ast.AsyncFunctionDef, ast.ClassDef)):
                self.defs[st.name] = st
            elif isinstance(st, ast.Assign):
                for tg in st.targets:
                    if isinstance(tg, ast.Name):
                        self.assigns[tg.id] = st.value
            elif isinstance(st, ast.AnnAssign):
                if isinstance(st.target, ast.Name) and st.value is not None:
                    self.assigns[st.target.id] = st.value
            elif isinstance(st, ast.ImportFrom):
                for a in st.names:
                    self.imports[a.asname or a.name] = (
                        ("." * st.level) + (st.module or ""),
                        a.name,
                    )
            elif isinstance(st, ast.Import):
                for a in st.names:
                    self.imports[a.asname or a.name.split(".")[0]] = (a.name, None)
            elif isinstance(st, ast.If):
                # ``if t.TYPE_CHECKING:`` blocks and version switches
                self._scan_top(st.body)
                self._scan_top(st.orelse)
            elif isinstance(st, ast.Try):
                self._scan_top(st.body)


class FuncInfo:
    def __init__(self, module: Module, node: ast.AST, cls: "ClassInfo | None") -> None:
        self.module = module
        self.node = node
        self.cls = cls
        self.name: str = node.name  # type: ignore[attr-defined]

    @property
    def qual(self) -> str:
        if self.cls is not None:
            return f"{self.module.name}:{self.cls.name}.{self.name}"
        return f"{self.module.name}:{self.name}"

    @property
    def body(self) -> list[ast.stmt]:
        return self.node.body  # type: ignore[attr-defined]

    def loc(self, node: ast.AST | None = None) -> str:
        n = node if node is not None else self.node
        return f"{self.module.rel}:{getattr(n, 'lineno', 0)}"

    @property
    def nnode(self) -> ast.AST:
        """The function in normal form (see normalize.py): what shape-matching rules read."""
        from .normalize import norm

        return norm(self.node)

    @property
    def ntext(self) -> str:
        return ast.unparse(self.nnode)

    def params(self) -> list[str]:
        a = self.node.args  # type: ignore[attr-defined]
        return [x.arg for x in a.posonlyargs + a.args]

    def decorators(self) -> list[str]:
        return [ast.unparse(d) for d in self.node.decorator_list]  # type: ignore[attr-defined]

    def is_async(self) -> bool:
        return isinstance(self.node, ast.AsyncFunctionDef)


class ClassInfo:
    def __init__(self, module: Module, node: ast.ClassDef, qualprefix: str = "") -> None:
        self.module = module
        self.node = node
        self.name = qualprefix + node.name
        self.methods: dict[str, ast.AST] = {}
        self.assigns: dict[str, ast.expr] = {}
        self.annotations: dict[str, ast.expr] = {}
        self.order: list[str] = []
        for st in node.body:
            if isinstance(st, (ast.FunctionDef, ast.AsyncFunctionDef)):
                self.methods[st.name] = st
                self.order.append(st.name)
            elif isinstance(st, ast.Assign):
                for tg in st.targets:
                    if isinstance(tg, ast.Name):
                        self.assigns[tg.id] = st.value
                        self.order.append(tg.id)
            elif isinstance(st, ast.AnnAssign) and isinstance(st.target, ast.Name):
                self.annotations[st.target.id] = st.annotation
                if st.value is not None:
                    self.assigns[st.target.id] = st.value
                    self.order.append(st.target.id)

    def base_names(self) -> list[str]:
        return [ast.unparse(b) for b in self.node.bases]

    def loc(self, node: ast.AST | None = None) -> str:
        n = node if node is not None else self.node
        return f"{self.module.rel}:{getattr(n, 'lineno', 0)}"


class _Track(dict):  # type: ignore[type-arg]
    """A dict that records which modules its readers consulted (the read set of a check: a
    variant that changes none of them cannot change the verdict)."""

    def __init__(self, sink: set[str], all_names: t.Callable[[], t.Iterable[str]]) -> None:
        super().__init__()
        self._sink = sink
        self._all = all_names

    def _note(self, key: t.Any) -> None:
        if isinstance(key, str):
            self._sink.add(key.split(":")[0])

    def __getitem__(self, key: t.Any) -> t.Any:
        self._note(key)
        return super().__getitem__(key)

    def get(self, key: t.Any, default: t.Any = None) -> t.Any:
        self._note(key)
        return super().get(key, default)

    def __contains__(self, key: t.Any) -> bool:
        self._note(key)
        return super().__contains__(key)

    def _everything(self) -> None:
        self._sink.update(self._all())

    def __iter__(self) -> t.Iterator[t.Any]:
        self._everything()
        return super().__iter__()

    def values(self) -> t.Any:
        self._everything()
        return super().values()

    def items(self) -> t.Any:
        self._everything()
        return super().items()

    def keys(self) -> t.Any:
        self._everything()
        return super().keys()


class Repo:
    def __init__(self, root: str | None = None, normalize: bool | None = None) -> None:
        self.root = root or REPO
        self.pkgdir = os.path.join(self.root, PKG_REL)
        if not os.path.isdir(self.pkgdir):
            raise AnalysisError(f"package directory missing: {self.pkgdir}")
        if normalize is None:
            normalize = bool(os.environ.get("VERIF_NORMALIZE"))
        self.normalized = normalize
        self._raw: Repo | None = None
        self.touched: set[str] = set()
        self.modules: dict[str, Module] = _Track(self.touched, lambda: list(dict.keys(self.modules)))
        for fn in sorted(os.listdir(self.pkgdir)):
            if fn.endswith(".py"):
                name = fn[:-3]
                self.modules[name] = Module(
                    name, os.path.join(self.pkgdir, fn), f"{PKG_REL}/{fn}", normalize
                )
        self._classes: dict[str, ClassInfo] = _Track(self.touched, lambda: list(dict.keys(self.modules)))
        for m in dict.values(self.modules):
            for n, d in m.defs.items():
                if isinstance(d, ast.ClassDef):
                    self._classes[f"{m.name}:{n}"] = ClassInfo(m, d)
        self.touched.clear()  # (construction itself reads nothing on behalf of a rule)

    @property
    def raw(self) -> "Repo":
        """The same tree without normalisation (what the emission model interprets)."""
        if not self.normalized:
            return self
        if self._raw is None:
            self._raw = Repo(self.root, normalize=False)
        return self._raw

    # ------------------------------------------------------------------ lookup
    def module(self, name: str) -> Module:
        try:
            return self.modules[name]
        except KeyError:
            raise AnalysisError(f"anchor vanished: module {name}") from None

    def has(self, spec: str) -> bool:
        try:
            self.func(spec)
            return True
        except AnalysisError:
            try:
                self.cls(spec)
                return True
            except AnalysisError:
                return False

    def cls(self, spec: str) -> ClassInfo:
        if spec not in self._classes:
            raise AnalysisError(f"anchor vanished: class {spec}")
        return self._classes[spec]

    def classes(self, module: str | None = None) -> list[ClassInfo]:
        return [
            c
            for k, c in self._classes.items()
            if module is None or k.startswith(module + ":")
        ]

    def func(self, spec: str) -> FuncInfo:
        """``module:func`` or ``module:Class.method`` (method looked up along the MRO)."""
        mod, _, rest = spec.partition(":")
        m = self.module(mod)
        if "." in rest:
            cname, _, meth = rest.partition(".")
            ci = self.cls(f"{mod}:{cname}")
            fi = self.resolve_method(ci, meth)
            if fi is None:
                raise AnalysisError(f"anchor vanished: method {spec}")
            return fi
        d = m.defs.get(rest)
        if not isinstance(d, (ast.FunctionDef, ast.AsyncFunctionDef)):
            raise AnalysisError(f"anchor vanished: function {spec}")
        return FuncInfo(m, d, None)

    def own_method(self, ci: ClassInfo, name: str) -> FuncInfo | None:
        d = ci.methods.get(name)
        if d is None:
            return None
        return FuncInfo(ci.module, d, ci)

    def resolve_base(self, ci: ClassInfo, base: str) -> ClassInfo | None:
        """Resolve a base-class expression to a class of the package (or None)."""
        m = ci.module
        head, _, tail = base.partition(".")
        if not tail:
            if f"{m.name}:{base}" in self._classes and base != ci.name:
                return self._classes[f"{m.name}:{base}"]
            imp = m.imports.get(base)
            if imp and imp[0].startswith("."):
                modname = imp[0].lstrip(".")
                key = f"{modname}:{imp[1]}"
                return self._classes.get(key)
            return None
        # module.Class form (e.g. ``nodes.Node`` / ``ast.NodeVisitor``)
        imp = m.imports.get(head)
        if imp and imp[0].startswith("."):
            modname = imp[1] if imp[0] == "." else imp[0].lstrip(".")
            return self._classes.get(f"{modname}:{tail}")
        return None

    def bases(self, ci: ClassInfo) -> list[ClassInfo]:
        out = []
        for b in ci.base_names():
            r = self.resolve_base(ci, b)
            if r is not None:
                out.append(r)
        return out

    def mro(self, ci: ClassInfo) -> list[ClassInfo]:
        """C3 linearisation restricted to package classes."""

        def merge(seqs: list[list[ClassInfo]]) -> list[ClassInfo]:
            res: list[ClassInfo] = []
            seqs = [list(s) for s in seqs if s]
            while seqs:
                for s in seqs:
                    cand = s[0]
                    if not any(cand in o[1:] for o in seqs):
                        break
                else:
                    raise AnalysisError(f"inconsistent MRO for {ci.name}")
                res.append(cand)
                seqs = [[x for x in s if x is not cand] for s in seqs]
                seqs = [s for s in seqs if s]
            return res

        bs = self.bases(ci)
        return [ci] + merge([self.mro(b) for b in bs] + [bs])

    def subclasses(self, ci: ClassInfo) -> list[ClassInfo]:
        return [c for c in self._classes.values() if c is not ci and ci in self.mro(c)]

    def resolve_method(self, ci: ClassInfo, name: str) -> FuncInfo | None:
        for c in self.mro(ci):
            if name in c.methods:
                return FuncInfo(c.module, c.methods[name], c)
            if name in c.assigns:
                return None
        return None

    def resolve_attr(self, ci: ClassInfo, name: str) -> tuple[ClassInfo, ast.AST] | None:
        """First class along the MRO that binds ``name`` (def or assignment)."""
        for c in self.mro(ci):
            if name in c.methods:
                return c, c.methods[name]
            if name in c.assigns:
                return c, c.assigns[name]
        return None

    # --------------------------------------------------------------- constants
    def const(self, spec: str) -> t.Any:
        mod, _, name = spec.partition(":")
        m = self.module(mod)
        if "." in name:
            cname, _, attr = name.partition(".")
            ci = self.cls(f"{mod}:{cname}")
            r = self.resolve_attr(ci, attr)
            if r is None or not isinstance(r[1], ast.expr):
                raise AnalysisError(f"anchor vanished: constant {spec}")
            try:
                return self.eval_const(r[1], r[0].module)
            except NotConst as e:
                raise AnalysisError(f"table not evaluable: {spec}: {e}") from None
        if name not in m.assigns:
            raise AnalysisError(f"anchor vanished: constant {spec}")
        try:
            return self.eval_const(m.assigns[name], m)
        except NotConst as e:
            raise AnalysisError(f"table not evaluable: {spec}: {e}") from None

    def const_map(self, spec: str) -> dict[t.Any, str]:
        """A dict literal with constant keys; values are returned as normalised source text."""
        mod, _, name = spec.partition(":")
        m = self.module(mod)
        node: ast.expr | None
        if "." in name:
            cname, _, attr = name.partition(".")
            r = self.resolve_attr(self.cls(f"{mod}:{cname}"), attr)
            node = r[1] if r is not None and isinstance(r[1], ast.expr) else None
            if r is not None:
                m = r[0].module
        else:
            node = m.assigns.get(name)
        if not isinstance(node, ast.Dict):
            raise AnalysisError(f"anchor vanished or not a dict literal: {spec}")
        out: dict[t.Any, str] = {}
        for k, v in zip(node.keys, node.values):
            if k is None:
                raise AnalysisError(f"table not evaluable: {spec}: ** unpacking")
            try:
                key = self.eval_const(k, m)
            except NotConst as e:
                raise AnalysisError(f"table not evaluable: {spec}: {e}") from None
            out[key] = ast.unparse(v)
        return out

    def const_node(self, spec: str) -> tuple[Module, ast.expr]:
        mod, _, name = spec.partition(":")
        m = self.module(mod)
        if name not in m.assigns:
            raise AnalysisError(f"anchor vanished: constant {spec}")
        return m, m.assigns[name]

    def eval_const(self, node: ast.expr, m: Module, env: dict | None = None, depth: int = 0) -> t.Any:
        """Evaluate a literal-ish expression; refuse (NotConst) anything else."""
        if depth > 30:
            raise NotConst("too deep")
        ev = lambda n: self.eval_const(n, m, env, depth + 1)  # noqa: E731
        if isinstance(node, ast.Constant):
            return node.value
        if isinstance(node, ast.Tuple):
            return tuple(ev(e) for e in node.elts)
        if isinstance(node, ast.List):
            return [ev(e) for e in node.elts]
        if isinstance(node, ast.Set):
            return {ev(e) for e in node.elts}
        if isinstance(node, ast.Dict):
            d = {}
            for k, v in zip(node.keys, node.values):
                if k is None:
                    d.update(ev(v))
                else:
                    d[ev(k)] = ev(v)
            return d
        if isinstance(node, ast.Name):
            if env and node.id in env:
                return env[node.id]
            if node.id in m.assigns:
                return self.eval_const(m.assigns[node.id], m, None, depth + 1)
            imp = m.imports.get(node.id)
            if imp and imp[0].startswith(".") and imp[1]:
                mm = self.modules.get(imp[0].lstrip("."))
                if mm and imp[1] in mm.assigns:
                    return self.eval_const(mm.assigns[imp[1]], mm, None, depth + 1)
            raise NotConst(f"name {node.id}")
        if isinstance(node, ast.JoinedStr):
            out = ""
            for v in node.values:
                if isinstance(v, ast.Constant):
                    out += v.value
                elif isinstance(v, ast.FormattedValue):
                    val = ev(v.value)
                    if v.conversion == ord("r"):
                        val = repr(val)
                    out += format(val, ev(v.format_spec) if v.format_spec else "")
            return out
        if isinstance(node, ast.BinOp) and isinstance(node.op, (ast.Add, ast.BitOr, ast.Mult, ast.Sub)):
            a, b = ev(node.left), ev(node.right)
            if isinstance(node.op, ast.Add):
                return a + b
            if isinstance(node.op, ast.BitOr):
                return a | b
            if isinstance(node.op, ast.Sub):
                return a - b
            return a * b
        if isinstance(node, ast.UnaryOp) and isinstance(node.op, ast.USub):
            return -ev(node.operand)
        if isinstance(node, ast.Call):
            fn = ast.unparse(node.func)
            if fn in ("frozenset", "set", "tuple", "list", "dict", "sorted", "intern", "sys.intern", "str", "len") and not node.keywords:
                args = [ev(a) for a in node.args]
                f = {"frozenset": frozenset, "set": set, "tuple": tuple, "list": list,
                     "dict": dict, "sorted": sorted, "intern": str, "sys.intern": str,
                     "str": str, "len": len}[fn]
                return f(*args)
            if fn == "dict" and not node.args:
                return {k.arg: ev(k.value) for k in node.keywords}
            raise NotConst(f"call {fn}")
        if isinstance(node, (ast.DictComp, ast.SetComp, ast.ListComp, ast.GeneratorExp)):
            if len(node.generators) != 1:
                raise NotConst("nested comprehension")
            g = node.generators[0]
            it = ev(g.iter)
            out_l = []
            for item in it:
                e2 = dict(env or {})
                self._bind(g.target, item, e2)
                if all(self.eval_const(c, m, e2, depth + 1) for c in g.ifs):
                    if isinstance(node, ast.DictComp):
                        out_l.append((self.eval_const(node.key, m, e2, depth + 1), self.eval_const(node.value, m, e2, depth + 1)))
                    else:
                        out_l.append(self.eval_const(node.elt, m, e2, depth + 1))
            if isinstance(node, ast.DictComp):
                return dict(out_l)
            if isinstance(node, ast.SetComp):
                return set(out_l)
            return out_l
        if isinstance(node, ast.Attribute):
            base = None
            try:
                base = ev(node.value)
            except NotConst:
                pass
            if isinstance(base, dict) and node.attr in ("items", "keys", "values"):
                raise NotConst("bound method")
            if isinstance(node.value, ast.Name):
                imp = m.imports.get(node.value.id)
                if imp and imp[0].startswith("."):
                    modname = imp[1] if imp[0] == "." else imp[0].lstrip(".")
                    mm = self.modules.get(modname or "")
                    if mm and node.attr in mm.assigns:
                        return self.eval_const(mm.assigns[node.attr], mm, None, depth + 1)
            raise NotConst(f"attribute {ast.unparse(node)}")
        if isinstance(node, ast.Call) is False and isinstance(node, ast.Subscript):
            return ev(node.value)[ev(node.slice)]
        if isinstance(node, ast.Compare) and len(node.ops) == 1:
            a, b = ev(node.left), ev(node.comparators[0])
            op = node.ops[0]
            if isinstance(op, ast.Eq):
                return a == b
            if isinstance(op, ast.NotEq):
                return a != b
            if isinstance(op, ast.In):
                return a in b
            if isinstance(op, ast.NotIn):
                return a not in b
        raise NotConst(type(node).__name__)

    def _bind(self, target: ast.expr, value: t.Any, env: dict) -> None:
        if isinstance(target, ast.Name):
            env[target.id] = value
        elif isinstance(target, (ast.Tuple, ast.List)):
            vals = list(value)
            if len(vals) != len(target.elts):
                raise NotConst("unpack")
            for tg, v in zip(target.elts, vals):
                self._bind(tg, v, env)
        else:
            raise NotConst("bind")

    def eval_items_call(self, node: ast.expr, m: Module) -> t.Any:
        """``X.items()`` over a constant dict."""
        if (
            isinstance(node, ast.Call)
            and isinstance(node.func, ast.Attribute)
            and node.func.attr in ("items", "keys", "values")
            and not node.args
        ):
            d = self.eval_const(node.func.value, m)
            return list(getattr(d, node.func.attr)())
        raise NotConst("not items()")

    def digests(self, names: t.Iterable[str]) -> dict[str, str]:
        return {self.module(n).rel: self.module(n).sha[:16] for n in names}


# ---------------------------------------------------------------------- helpers
def norm(node: ast.AST) -> str:
    """Formatting-independent text of a node."""
    return ast.unparse(node)


def parent(node: ast.AST) -> ast.AST | None:
    return getattr(node, "_parent", None)


def ancestors(node: ast.AST) -> t.Iterator[ast.AST]:
    p = parent(node)
    while p is not None:
        yield p
        p = parent(p)


def enclosing_func(node: ast.AST) -> ast.AST | None:
    for a in ancestors(node):
        if isinstance(a, (ast.FunctionDef, ast.AsyncFunctionDef, ast.Lambda)):
            return a
    return None


def walk_no_nested(node: ast.AST) -> t.Iterator[ast.AST]:
    """Walk a function body without entering nested function/class definitions."""
    todo = list(ast.iter_child_nodes(node))
    while todo:
        n = todo.pop(0)
        yield n
        if isinstance(n, (ast.FunctionDef, ast.AsyncFunctionDef, ast.ClassDef, ast.Lambda)):
            continue
        todo[0:0] = list(ast.iter_child_nodes(n))


def calls_in(node: ast.AST, nested: bool = True) -> list[ast.Call]:
    it = ast.walk(node) if nested else walk_no_nested(node)
    return [n for n in it if isinstance(n, ast.Call)]


def call_name(call: ast.Call) -> str:
    return ast.unparse(call.func)


def is_docstring(st: ast.stmt) -> bool:
    return isinstance(st, ast.Expr) and isinstance(st.value, ast.Constant) and isinstance(st.value.value, str)


def body_nodoc(body: list[ast.stmt]) -> list[ast.stmt]:
    return body[1:] if body and is_docstring(body[0]) else body


def str_consts(node: ast.AST) -> list[str]:
    return [n.value for n in ast.walk(node) if isinstance(n, ast.Constant) and isinstance(n.value, str)]
