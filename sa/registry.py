"""Per-property registration used to generate MANIFEST.json."""

HOOKS = {
    "guard": "PALLETS_JINJA_VERIF",
    "enable": "no hooks: the checks only read /repo/src/jinja2 (ast); the guard name is declared but unused",
    "baseline_off_cmd": "cd /repo && /venv/bin/python -m pytest -ra -q -p no:cacheprovider --timeout=900 --continue-on-collection-errors",
    "source_commits": [],
    "add_only": True,
}

NOTES = (
    "Static analysis only: every check parses /repo/src/jinja2 from the working tree on each run and decides "
    "structural clauses that are necessary conditions of the property; see DESIGN.md for what each check does "
    "and does not decide. Exit 2 + ANALYSIS-ERROR means the analyser lost an anchor; it is never a verdict."
)

_NOTE = "trusted: CPython's ast / re._parser, the reviewed rule tables in /verif/sa; assumes the parsed files are what is imported; decides structural clauses only, not runtime values"

PROPS = {
    "C01": {
        "claimed": True,
        "text": "Decides the structural part of compile totality: dispatch closure (keywords, lexer states, token vocabulary, statement arms), classification of every raise on the compile path, guarded literal conversions, parser-side uniqueness obligations of emitted defs/calls, recursion guards, and that every code-generator skeleton (all flag valuations) parses as Python. Not decided: CPython accepting every instantiated skeleton, regex running time.",
        "technique": "table agreement + raise inventory + regex structure (re._parser) + abstract interpretation of the code generator (skeletons parsed with ast)",
        "note": _NOTE,
    },
}
