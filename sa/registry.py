"""Per-property registration used to generate MANIFEST.json."""

HOOKS = {
    "guard": "PALLETS_JINJA_VERIF",
    "enable": "no hooks: the checks only read /repo/src/jinja2 (ast); the guard name is declared but unused",
    "baseline_off_cmd": "cd /repo && /venv/bin/python -m pytest -ra -q -p no:cacheprovider --timeout=900 --continue-on-collection-errors",
    "source_commits": [
        "b5ac1f3", "1edb1d6", "0e297eb", "e993b9c", "2be54ad", "7377f47", "ca6c519", "fab3d50", "1810991", "3594a47", "81ad9a8", "d90c18a",
    ],
    "add_only": True,
}

NOTES = (
    "Static analysis only: every check parses /repo/src/jinja2 from the working tree on each run and decides "
    "structural clauses that are necessary conditions of the property; see DESIGN.md for what each check does "
    "and does not decide. Exit 2 + ANALYSIS-ERROR means the analyser lost an anchor; it is never a verdict. "
    "hooks.source_commits lists the unguarded 'fix:' commits (genuine defect repairs); there are no instrumentation hooks."
)

_NOTE = "trusted: CPython's ast / re._parser, the reviewed rule tables in /verif/sa; assumes the parsed files are what is imported; decides structural clauses only, not runtime values"


def _p(text: str, technique: str) -> dict:
    return {"claimed": True, "text": text, "technique": technique, "note": _NOTE}


PROPS = {
    "C01": _p(
        "Decides the structural part of compile totality: dispatch closure (keywords, lexer states, token vocabulary, statement arms), classification of every raise on the compile path, guarded literal conversions, parser-side uniqueness obligations of emitted defs/calls, recursion guards, and that every code-generator skeleton (all flag valuations) parses as Python. Not decided: CPython accepting every instantiated skeleton, regex running time.",
        "table agreement + raise inventory + regex structure (re._parser) + abstract interpretation of the code generator (skeletons parsed with ast)",
    ),
    "C02": _p(
        "Decides the precedence chain of the expression parser, agreement of the operator tables across lexer/parser/nodes/compiler/sandbox, the attribute-vs-item lookup order and the result name of compile_expression. Not decided: values of expressions.",
        "call-graph shape of the recursive-descent levels + table agreement across five modules",
    ),
    "C08": _p(
        "Decides that fold failures are deferred (except Exception -> Impossible around every computing as_const), that eval-context dependent nodes refuse under volatile and follow autoescape, that compiler fold sites are volatile-guarded and that only literal-evaluable values are folded (has_safe_repr recursion). Not decided: value equality of folded vs unfolded evaluation.",
        "handler-coverage and guard-dominance rules over nodes.as_const / compiler fold sites",
    ),
    "C13": _p(
        "Decides positional/keyword line-up of Template.__new__, overlay and babel_extract with Environment.__init__, completeness of the lexer cache key, delimiter ordering in compile_rules and overlay isolation. Not decided: equality of rendered output.",
        "signature/table agreement + def-use of environment attributes in the lexer construction",
    ),
    "C19": _p(
        "Decides by simulating _mutable_spec through the lookup loop that every public mutating method of list/dict/set/deque is blocked, that ImmutableSandboxedEnvironment.is_safe_attribute is super() AND NOT modifies_known_mutable (truth table), and that no filter/test mutates caller-owned data (effect flow). Not decided: mutation through callables supplied by the data.",
        "table simulation against the interpreter's container method sets + effect/alias flow analysis",
    ),
    "C21": _p(
        "Decides the operation table of the five undefined classes by resolving every protocol method through class-body aliases and the MRO; both operand orders of all template operators fail; sync/async iteration agree; message branches name the variable. Not decided: message text, pickle/copy round trips.",
        "class-table resolution (aliases + MRO) compared with the documented operation table",
    ),
    "C23": _p(
        "Decides that int/float conversions are covered by handlers for {TypeError, ValueError, OverflowError} reaching `return default`, input coercion of string filters, and truncate's length accounting as linear inequalities. Not decided: wrapping/rounding/truncation arithmetic over all inputs.",
        "handler-coverage path rule + linear normal form of length expressions",
    ),
    "C25": _p(
        "Decides the cache-hit path condition of _load_template as a truth table, the cache key, store-after-load, uptodate closures failing closed, and the size mapping of create_cache. Not decided: histories, eviction order.",
        "guard truth-table + closure shape rules",
    ),
    "C26": _p(
        "Decides lock discipline (all accesses to shared state inside the lock in mutating methods, aliases resolved), the shape of the locked primitives, orientation consistency and pickle/copy state coverage. Not decided: equivalence with a reference LRU, linearizability.",
        "lock-discipline (who-may-access under which lock) + typestate shape rules",
    ),
    "C27": _p(
        "Decides handler coverage of deserialisation, the acceptance path condition (code assigned only after magic and checksum matched), environment-dependence of the bucket identity (def-use), temp-file/replace/cleanup discipline of the file-system writer, magic contents and memcached error policy. Not decided: file-system crash points, histories.",
        "CFG path rules (guard dominance, must-pass-through) + def-use slice",
    ),
    "C28": _p(
        "Decides that every file-access sink in loaders receives a path that flowed through split_template_path, that this function rejects separators and parent references, posixpath joins from the search root, and sibling agreement of Choice/Prefix loaders. Not decided: symlinks / file-system behaviour.",
        "taint flow from the template name to file sinks + sibling comparison",
    ),
}
