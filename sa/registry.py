"""Per-property registration used to generate MANIFEST.json.

The level text of a check is the docstring of its rule module (``sa/props/cNN.py``): it says
which clauses are decided statically and which are not.
"""

from __future__ import annotations

import ast
import os

HERE = os.path.dirname(os.path.abspath(__file__))

FIX_COMMITS = [
    "b5ac1f3", "1edb1d6", "0e297eb", "e993b9c", "2be54ad", "7377f47", "ca6c519", "fab3d50", "1810991", "3594a47", "81ad9a8", "d90c18a",
    "f793bf7", "e68f70f", "3631110", "b149875", "f116732", "f37d660", "23b89ea", "4d080bb", "a4b0e12", "d07d7fe", "023fcbc", "820320c", "6d79759", "3968975", "9fae46d",
    "8b6a8ad", "29b2657", "d769bd9", "5fcea1c", "5672db4", "08006c4", "42dfe43", "d659d40", "6f57a8f",
]

HOOKS = {
    "guard": "PALLETS_JINJA_VERIF",
    "enable": "no hooks: the checks only read /repo/src/jinja2 (ast); the guard name is declared but unused",
    "baseline_off_cmd": "cd /repo && /venv/bin/python -m pytest -ra -q -p no:cacheprovider --timeout=900 --continue-on-collection-errors",
    "source_commits": [],  # no hook / instrumentation commits exist; repairs are 'fix:' commits (FIX_COMMITS)
    "add_only": True,
}

NOTES = (
    "Static analysis only: every check parses /repo/src/jinja2 from the working tree on each run and decides "
    "structural clauses that are necessary conditions of the property; see DESIGN.md for what each check does "
    "and does not decide. Exit 2 + ANALYSIS-ERROR means the analyser lost an anchor; it is never a verdict. "
    "There are no instrumentation hooks (hooks.source_commits is empty). Genuine defects repaired in /repo are "
    "unguarded 'fix:' commits (" + " ".join(FIX_COMMITS) + "), each recorded as 'fixed:' in known_findings.json."
)

_NOTE = (
    "trusted: CPython's ast / re._parser, the reviewed rule tables in /verif/sa; assumes the parsed files are what is imported; "
    "decides structural clauses only (necessary conditions), not runtime values; digest-keyed cache of the emission model under /verif/.cache"
)

TECHNIQUE = {
    "C01": "table agreement + raise inventory + regex structure (re._parser) + abstract interpretation of the code generator (every skeleton parsed with ast)",
    "C02": "call-graph shape of the recursive-descent levels + operator table agreement across five modules",
    "C03": "field-coverage and scope-boundary agreement between compiler and symbol analysis + frame typestate on emission-model paths + ownership rule on Symbols",
    "C04": "AST queries on the skeletons of visit_Block/visit_Output/visit_Template + stack-orientation agreement",
    "C05": "skeleton rules (try shape, context-flag mapping, yield discipline, export pairing) + effect flow on new_context",
    "C06": "calling-convention agreement between macro_body/macro_def and Macro.__init__/__call__ + linear normal form of default indices",
    "C07": "sibling equivalence by erasure (LoopContext vs AsyncLoopContext) + linear normal forms + protocol shape + skeleton rules",
    "C08": "handler-coverage and guard-dominance rules over nodes.as_const and the compiler's fold sites",
    "C09": "skeleton equivalence under erasure of the async decoration for every visitor and flag valuation + filter twin equivalence/forwarding",
    "C10": "guard-dominance rules on the stream buffer + source-of-text rules on the entry points",
    "C11": "lexer rule-table model + regex alternative order + guard truth table in visit_Output",
    "C12": "sibling comparison of the end-tag rules (lexer rule-table model) + guard dominance in tokeniter + cache-key def-use",
    "C13": "signature/table agreement + def-use of environment attributes in the lexer construction + memoisation ownership rule",
    "C14": "regular-expression automata (NFA->DFA language inclusion against the Python literal grammar) + conversion pipeline allow-list",
    "C15": "skeleton rules on output wrapping and run-time selectors + trust (escaping) flow over every Markup construction",
    "C16": "skeleton rules on capture sites and run-time selectors",
    "C17": "guard dominance in the sandbox accessors + who-may-getattr inventory + skeleton rule (no direct access on template values)",
    "C18": "guard exactness in visit_Call + who-may-call rule on Context.call with def-use taint from context lookups",
    "C19": "table simulation against the interpreter's container method sets + truth table + effect/alias flow analysis",
    "C20": "table agreement between interceptable operators, compiler makers and fold refusal + override ownership rule",
    "C21": "class-table resolution (aliases + MRO) compared with the documented operation table",
    "C22": "twin equivalence by erasure / parameter forwarding + effect flow + linear normal forms",
    "C23": "handler-coverage path rule + linear normal form of length expressions",
    "C24": "trust (escaping) flow + replacement-chain and key-pattern rules",
    "C25": "guard truth table of the cache-hit condition + closure shape rules",
    "C26": "lock discipline (all accesses under the lock in mutating methods, aliases resolved) + typestate shape rules",
    "C27": "CFG path rules (acceptance path condition, handler coverage, cleanup on every exceptional path) + def-use slice",
    "C28": "taint flow from the template name to file sinks + sibling comparison",
    "C29": "effect/alias flow + shared-state write inventory on the render path",
    "C30": "local set-type inference + order-taint rule on iterations",
    "C31": "skeleton comparison of visit_Template with/without defer_init + positional argument binding + namespace key agreement",
    "C32": "skeleton inventory of context lookups + constant agreement + set comparison of reference node classes",
    "C33": "truth table of the percent un-doubling vs formatting conditions + name-set agreement + sibling wrappers",
    "C34": "guard-dominance case analysis of native_concat + hook balance + skeleton rule",
    "C35": "event-order rule on emission-model paths (line marker before first expression) + writer/reader format agreement",
    "C36": "pairing rule on async skeletons (named generator + try/finally aclose) + entry-point rules",
    "C37": "shared-state write inventory + awaited check-then-set rule (sufficient condition for non-interference)",
    "C38": "except-handler inventory with per-function allowed classes + re-raise shape rules",
    "C39": "statement-order rules on tokeniter's line accounting + lexer rules shared with C12",
}


def _doc(pid: str) -> str | None:
    path = os.path.join(HERE, "props", pid.lower() + ".py")
    if not os.path.exists(path):
        return None
    with open(path, encoding="utf-8") as f:
        try:
            d = ast.get_docstring(ast.parse(f.read()))
        except SyntaxError:
            return None
    return " ".join((d or "").split())


PROPS = {}
for _pid, _tech in TECHNIQUE.items():
    _d = _doc(_pid)
    if _d:
        PROPS[_pid] = {"claimed": True, "text": _d, "technique": _tech, "note": _NOTE}
