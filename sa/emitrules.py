"""Rules over the emission model (engine E1).  Filled in by emit.py."""

from __future__ import annotations

from .core import Ctx


def c01_skeleton_rules(ctx: Ctx) -> None:
    return None
