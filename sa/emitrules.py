"""Rules over the emission model (engine E1): AST queries on the skeletons the code generator can
emit, for every visitor and every valuation of its flags."""

from __future__ import annotations

import ast
import builtins
import keyword
import multiprocessing as mp
import os
import re
import typing as t

from .core import Ctx
from . import astq
from .emit import EXPR_WRAP
from .emit import EmitModel
from .emit import Hole
from .emit import Path
from .emit import Skeleton
from .emit import parse_skeleton
from .emit import render
from .srcmodel import AnalysisError
from .srcmodel import Repo

STMT_HELPERS = ["macro_body", "enter_frame", "leave_frame", "pull_dependencies", "write_commons", "return_buffer_contents", "pop_assign_tracking", "blockvisit", "simple_write", "buffer"]
EXPR_HELPERS = ["macro_def", "_filter_test_common"]
FRAGMENT_HELPERS = {"signature": "__f__(__x__{})"}

_CACHE: dict[tuple[str, str, int], dict[str, list[tuple[Path, Skeleton]]]] = {}
_FORK_MODELS: dict[tuple[str, str], EmitModel] = {}


def entry_kind(model: EmitModel, entry: str) -> str:
    if entry in STMT_HELPERS:
        return "stmt"
    if entry in EXPR_HELPERS or entry in FRAGMENT_HELPERS:
        return "expr"
    if entry.startswith("visit_"):
        mro = model.node_mro(entry[6:])
        if "Stmt" in mro or "Template" in mro:
            return "stmt"
        return "expr"
    return "stmt"


def _work(job: tuple[str, str, str, int]) -> tuple[str, t.Any]:
    root, gen, entry, loop_max = job
    try:
        model = _FORK_MODELS.get((root, gen))
        if model is None:
            model = EmitModel(Repo(root, normalize=False), gen)
            _FORK_MODELS[(root, gen)] = model
        paths = model.run_paths(entry, loop_max=loop_max)
        kind = entry_kind(model, entry)
        out = []
        for p in paths:
            sk = render(p)
            if entry in FRAGMENT_HELPERS:
                EXPR_WRAP[entry] = FRAGMENT_HELPERS[entry]
            parse_skeleton(sk, entry, kind == "stmt")
            sk.tree = None
            out.append((p, sk))
        return entry, out
    except AnalysisError as e:
        return entry, f"ANALYSIS-ERROR {e}"
    except Exception as e:  # pragma: no cover
        import traceback

        return entry, f"ANALYSIS-ERROR {type(e).__name__}: {e}\n{traceback.format_exc()[-600:]}"


def all_entries(model: EmitModel) -> list[str]:
    ents = sorted(model.visitor_entries())
    for h in STMT_HELPERS + EXPR_HELPERS + list(FRAGMENT_HELPERS):
        if model.method(h) is not None:
            ents.append(h)
    return ents


def get_paths(ctx: Ctx, entries: list[str] | None = None, gen: str = "compiler:CodeGenerator") -> dict[str, list[tuple[Path, Skeleton]]]:
    loop_max = 2 if ctx.tier == "thorough" else 1
    # the read set of the emission model (its cache key below, plus what the interpreter resolves)
    ctx.repo.touched.update({"compiler", "nodes", "nativetypes", "meta", "runtime", "idtracking", "visitor", "utils", "optimizer"})
    model = EmitModel(ctx.repo, gen)
    wanted = entries if entries is not None else all_entries(model)
    key = (ctx.repo.root, gen, loop_max)
    cache = _CACHE.setdefault(key, {})
    disk = _disk_cache_path(ctx, gen, loop_max)
    if not cache and disk is not None and os.path.exists(disk):
        try:
            import pickle

            with open(disk, "rb") as f:
                cache.update(pickle.load(f))
            ctx.notes.append("emission paths reused from the digest-keyed cache (same source digests of compiler/nodes/nativetypes and of the engine)")
        except Exception:
            cache.clear()
    todo = [e for e in wanted if e not in cache]
    _FORK_MODELS[(ctx.repo.root, gen)] = model  # inherited by forked workers
    if todo:
        jobs = [(ctx.repo.root, gen, e, loop_max) for e in todo]
        # big ones first
        jobs.sort(key=lambda j: {"visit_Template": 0, "visit_Filter": 1, "visit_For": 2, "visit_AssignBlock": 3, "macro_body": 4, "visit_Call": 5}.get(j[2], 9))
        nproc = min(len(jobs), os.cpu_count() or 4, int(os.environ.get("VERIF_WORKERS", "16")))
        if nproc > 1:
            with mp.get_context("fork").Pool(nproc) as pool:
                results = pool.map(_work, jobs, chunksize=1)
        else:
            results = [_work(j) for j in jobs]
        for entry, res in results:
            if isinstance(res, str):
                raise AnalysisError(f"{entry}: {res}")
            cache[entry] = res
        if disk is not None:
            try:
                import pickle

                os.makedirs(os.path.dirname(disk), exist_ok=True)
                tmp = f"{disk}.{os.getpid()}.tmp"
                with open(tmp, "wb") as f:
                    pickle.dump(cache, f, protocol=pickle.HIGHEST_PROTOCOL)
                os.replace(tmp, disk)
                # keep the cache directory small
                d = os.path.dirname(disk)
                files = sorted((os.path.join(d, x) for x in os.listdir(d) if x.endswith(".pkl")), key=os.path.getmtime)
                for old in files[:-24]:  # ~6 MB each; the scoreboard analyses ten variants at a time
                    os.remove(old)
            except Exception:
                pass
    return {e: cache[e] for e in wanted}


def _disk_cache_path(ctx: Ctx, gen: str, loop_max: int) -> str | None:
    """Cache file keyed by the digests of every source the emission model consults and of the
    engine itself; any edit to one of them changes the key."""
    if os.environ.get("VERIF_NO_CACHE"):
        return None
    import hashlib

    h = hashlib.sha256()
    for mod in ("compiler", "nodes", "nativetypes", "meta", "runtime", "idtracking"):
        h.update(ctx.repo.module(mod).sha.encode())
    here = os.path.dirname(os.path.abspath(__file__))
    for fn in ("emit.py", "emitrules.py", "srcmodel.py"):
        with open(os.path.join(here, fn), "rb") as f:
            h.update(hashlib.sha256(f.read()).digest())
    h.update(f"{gen}|{loop_max}".encode())
    return os.path.join(os.path.dirname(here), ".cache", f"emit_{h.hexdigest()[:24]}.pkl")


def reparse(sk: Skeleton, entry: str, kind: str) -> ast.AST | None:
    if sk.tree is None and sk.error is None:
        if entry in FRAGMENT_HELPERS:
            EXPR_WRAP[entry] = FRAGMENT_HELPERS[entry]
        parse_skeleton(sk, entry, kind == "stmt")
    return sk.tree


def flags_of(p: Path) -> dict[str, t.Any]:
    return {k: v for k, v in p.decisions.items() if not k.startswith("raises@")}


def short_flags(p: Path, n: int = 6) -> str:
    items = [f"{k}={v}" for k, v in list(flags_of(p).items())[:n]]
    return ", ".join(items)


# ---------------------------------------------------------------------------- C01
GENERATOR_NAMES = {
    "context", "environment", "resolve", "undefined", "concat", "cond_expr_undefined", "missing", "parent_template", "template",
    "included_template", "gen", "agen", "event", "caller", "loop", "reciter", "loop_render_func", "depth", "fiter", "name", "blocks",
    "debug_info", "_loop_vars", "_block_vars", "root", "macro", "unused", "parent_block", "self",
}


def c01_skeleton_rules(ctx: Ctx) -> None:
    repo = ctx.repo
    ctx.rule("R7", "every skeleton the code generator can emit (visitor x flag valuation x loop unrolling) parses as Python, indentation returns to its start level, and its free names are runtime exports, generator-bound names or builtins")
    exported = set(repo.const("runtime:exported")) | set(repo.const("runtime:async_exported"))
    total = 0
    nerr = 0
    for gen in ("compiler:CodeGenerator", "nativetypes:NativeCodeGenerator"):
        model = EmitModel(repo, gen)
        entries = None if gen.startswith("compiler") else ["visit_Output"]
        res = get_paths(ctx, entries, gen)
        for entry, items in sorted(res.items()):
            kind = entry_kind(model, entry)
            seen_err: set[str] = set()
            for p, sk in items:
                if p.outcome not in ("normal", "CompilerExit"):
                    continue
                total += 1
                where = f"{gen.split(':')[0]}:{gen.split(':')[1]}.{entry}"
                if sk.error is not None:
                    nerr += 1
                    sig = sk.error.split("(")[0]
                    if sig in seen_err:
                        continue
                    seen_err.add(sig)
                    ctx.bad(where, f"unparseable emission: {sig.strip()}",
                            f"{entry} can emit code CPython rejects ({sk.error}) under [{short_flags(p)}]:\n{sk.text[:300]}", f"src/jinja2/{gen.split(':')[0]}.py")
                    continue
                if p.final_indent != 0 and entry != "visit_Template":
                    if "indent" not in seen_err:
                        seen_err.add("indent")
                        ctx.bad(where, f"indentation not restored ({p.final_indent:+d})", f"{entry} leaves the indentation level changed by {p.final_indent:+d} under [{short_flags(p)}]", f"src/jinja2/{gen.split(':')[0]}.py")
                    continue
                # a visited child statement may emit nothing at all (visit_Output drops output
                # after a known extends, an empty `{% print %}`): the skeleton must still parse
                # when its statement holes vanish - every suite needs a statement of its own
                if "__S" in sk.text and kind == "stmt":
                    lines_ = [ln for ln in sk.text.split("\n") if not re.fullmatch(r"\s*__S\d+__\s*", ln)]
                    try:
                        ast.parse("async def __w__():\n" + ("\n".join(lines_) if "".join(lines_).strip() else "    pass") + "\n")
                    except SyntaxError as e:
                        if "empty-suite" not in seen_err:
                            seen_err.add("empty-suite")
                            ctx.bad(where, "a suite consists of visited statements only",
                                    f"{entry} opens a block whose only content is what the visited child statements emit ({type(e).__name__}: {e.msg}); a child that emits nothing (output after a static extends, an empty print) leaves `if ...:` without a suite and CPython rejects the module with IndentationError:\n{sk.text[:200]}", f"src/jinja2/{gen.split(':')[0]}.py")
                        continue
                tree = reparse(sk, entry, kind)
                free = _free_names(tree) if tree is not None else set()
                bad = {n for n in free if not _name_ok(n, exported)}
                if bad:
                    key = "names:" + ",".join(sorted(bad))
                    if key not in seen_err:
                        seen_err.add(key)
                        ctx.bad(where, f"unbound name(s) {sorted(bad)}", f"{entry} emits code reading {sorted(bad)}, which the generated module neither imports from jinja2.runtime nor binds itself (NameError at render time)", f"src/jinja2/{gen.split(':')[0]}.py")
                    continue
                ctx.ok(f"{gen}:{entry}:{total}", detail={"entry": entry, "flags": short_flags(p, 4), "skeleton": sk.text[:200]} if total % 997 == 1 else None, trivial=False)
    ctx.floor("skeletons parsed", total, 3000)
    # blockvisit (summarised in the emission model as "pass + the visited statements") really
    # writes that placeholder on every path: the children it visits may emit nothing
    bv = repo.func("compiler:CodeGenerator.blockvisit")
    ps = [c for c in astq.calls(bv.node) if astq.callee(c) == "self.writeline" and c.args and isinstance(c.args[0], ast.Constant) and c.args[0].value == "pass"]
    loops_bv = [l_ for l_ in ast.walk(bv.node) if isinstance(l_, ast.For)]
    ctx.check(len(ps) >= 1 and any(not astq.guard_atoms(bv.node, c) and (not loops_bv or (c.lineno, c.col_offset) < (loops_bv[0].lineno, loops_bv[0].col_offset)) for c in ps), "blockvisit:placeholder", "compiler:CodeGenerator.blockvisit", "placeholder statement not written on every path",
              "blockvisit must write `pass` unconditionally before visiting the body: a body whose nodes all emit nothing (output after a static `{% extends %}`, an empty `{% print %}`) otherwise leaves `if ...:` / `else:` without a suite and loading the template raises builtins.IndentationError",
              bv.loc())
    # a skeleton that only parses inside its wrapper context (EXPR_WRAP: a bare `a:b` slice is
    # valid directly inside brackets only) obliges the parser to produce that node in that
    # position only; a value of parse_subscribed() (which may be a Slice) that is packed into
    # another node (`x[1:2, 3]` -> Tuple) is then emitted as `(1:2, 3)`
    res0 = get_paths(ctx, None, "compiler:CodeGenerator")
    standalone = True
    for p, sk in res0.get("visit_Slice", []):
        if p.outcome != "normal":
            continue
        try:
            ast.parse("(" + sk.text.strip() + ")", mode="eval")
        except SyntaxError:
            standalone = False
    psub = repo.func("parser:Parser.parse_subscript")
    carriers: set[str] = set()
    for n_ in ast.walk(psub.node):
        if isinstance(n_, ast.Assign) and isinstance(n_.value, ast.Call) and astq.callee(n_.value) == "self.parse_subscribed":
            carriers |= {t_.id for t_ in n_.targets if isinstance(t_, ast.Name)}
        if isinstance(n_, ast.Call) and isinstance(n_.func, ast.Attribute) and n_.func.attr in ("append", "extend") and isinstance(n_.func.value, ast.Name) and any(astq.callee(c) == "self.parse_subscribed" for c in astq.calls(n_)):
            carriers.add(n_.func.value.id)
    packed = [c for c in astq.calls(psub.node) if astq.callee(c).startswith("nodes.") and astq.callee(c) != "nodes.Getitem" and any(isinstance(a, ast.Name) and a.id in carriers for a in c.args)]
    ctx.need(bool(carriers), "parse_subscript: the values of parse_subscribed() were not found")
    ctx.check(standalone or not packed, "fragment-context:visit_Slice", "compiler:CodeGenerator.visit_Slice", "slice emitted in a form that is only valid directly inside brackets",
              f"visit_Slice writes the bare `start:stop:step` form, but parse_subscript packs the values of parse_subscribed() into {[astq.callee(c) for c in packed]}: `{{{{ x[1:2, 3] }}}}` is compiled to `environment.getitem(x, (1:2, 3))` and compile() raises builtins.SyntaxError",
              "src/jinja2/compiler.py", detail={"standalone": standalone, "packed_into": [astq.callee(c) for c in packed]})
    ctx.notes.append(f"R7: {total} skeletons, {nerr} unparseable")

    ctx.rule("R9", "template-controlled text reaches the generated source only quoted (repr) or behind a generator prefix / identifier check; raw positions are the reviewed extension-only nodes")
    allowed_raw = {
        "visit_Keyword": "key of a call keyword: python keywords are routed through the kwarg_workaround branch of signature(); the lexer guarantees an identifier",
        "visit_EvalContextModifier": "option name of an EvalContextModifier node, only created by the parser with the literal 'autoescape' or by extensions",
        "visit_ScopedEvalContextModifier": "same as visit_EvalContextModifier",
        "visit_EnvironmentAttribute": "extension-only node (attribute name chosen by extension code)",
        "visit_ExtensionAttribute": "extension-only node",
        "visit_InternalName": "created by Parser.free_identifier as fi<n>",
        "visit_Template": "block_<name> function names (prefix + lexer-validated identifier) and import aliases",
        "visit_Block": "block name inside quotes / prefix",
        "signature": "extra kwargs supplied by the compiler itself",
        "visit_Call": "extra kwargs supplied by the compiler itself",
        "visit_Filter": "", "visit_Test": "", "_filter_test_common": "",
    }
    model = EmitModel(repo)
    res = get_paths(ctx)
    n = 0
    for entry, items in sorted(res.items()):
        raw_labels: set[str] = set()
        for p, sk in items:
            for i, h in enumerate(sk.holes):
                if h.kind == "tmpl":
                    # is it inside a string literal of the skeleton? then harmless
                    marker = f"__t{i + 1}__"
                    if _inside_string(sk.text, marker):
                        continue
                    raw_labels.add(h.label)
        for lab in sorted(raw_labels):
            n += 1
            ctx.check(entry in allowed_raw, f"{entry}:{lab}", f"compiler:CodeGenerator.{entry}", f"raw template text `{lab}`",
                      f"{entry} writes the template-controlled string `{lab}` into the generated source unquoted: a crafted name becomes Python code or a SyntaxError", "src/jinja2/compiler.py", detail={"entry": entry, "value": lab})
    ctx.floor("raw template-text positions", n, 3)
    sg = repo.func("compiler:CodeGenerator.signature")
    ctx.check("is_python_keyword" in ast.unparse(sg.node) and "kwarg_workaround" in ast.unparse(sg.node), "kwarg_workaround", "compiler:CodeGenerator.signature", "python keyword workaround", "keyword arguments named like Python keywords must go through the **{...} workaround", sg.loc())


def _inside_string(text: str, marker: str) -> bool:
    idx = text.find(marker)
    if idx < 0:
        return True
    line = text[text.rfind("\n", 0, idx) + 1: idx]
    return (line.count("'") - line.count("\\'")) % 2 == 1 or (line.count('"') % 2 == 1)


def _free_names(tree: ast.AST) -> set[str]:
    bound: set[str] = set()
    used: set[str] = set()
    for n in ast.walk(tree):
        if isinstance(n, ast.Name):
            (bound if isinstance(n.ctx, (ast.Store, ast.Del)) else used).add(n.id)
        elif isinstance(n, (ast.FunctionDef, ast.AsyncFunctionDef)):
            bound.add(n.name)
            for a in n.args.args + n.args.kwonlyargs + n.args.posonlyargs:
                bound.add(a.arg)
            if n.args.vararg:
                bound.add(n.args.vararg.arg)
            if n.args.kwarg:
                bound.add(n.args.kwarg.arg)
        elif isinstance(n, ast.alias):
            bound.add(n.asname or n.name.split(".")[0])
        elif isinstance(n, ast.ExceptHandler) and n.name:
            bound.add(n.name)
    return used - bound


def _name_ok(n: str, exported: set[str]) -> bool:
    if n in exported or n in GENERATOR_NAMES or hasattr(builtins, n):
        return True
    if n.startswith("__") and n.endswith("__"):
        return True  # holes and wrapper names
    if n.startswith(("t_", "l_", "block_", "fi")):
        return True
    return keyword.iskeyword(n)


# ------------------------------------------------------------------- other props
def c17_skeleton_rules(ctx: Ctx) -> None:
    ctx.rule("R1", "emitted code never applies attribute or subscript syntax to a recursive hole (template value); the only accessors are environment.getattr / environment.getitem and the slice form")
    res = get_paths(ctx)
    model = EmitModel(ctx.repo)
    n = 0
    for entry, items in sorted(res.items()):
        kind = entry_kind(model, entry)
        bad_attr = set()
        for p, sk in items:
            if sk.error is not None or p.outcome != "normal":
                continue
            tree = reparse(sk, entry, kind)
            if tree is None:
                continue
            for node in ast.walk(tree):
                if isinstance(node, ast.Attribute) and isinstance(node.value, ast.Name) and node.value.id.startswith("__E"):
                    bad_attr.add(f".{node.attr}")
                if isinstance(node, ast.Subscript) and isinstance(node.value, ast.Name) and node.value.id.startswith("__E") and not isinstance(node.slice, ast.Slice):
                    if not (isinstance(node.slice, ast.Name) and node.slice.id.startswith("__E") and entry == "visit_Getitem"):
                        bad_attr.add("[...]")
            n += 1
        if entry == "visit_Getitem":
            # the slice form visits node.arg (a Slice node) inside the brackets: allowed only when dominated by isinstance(node.arg, nodes.Slice)
            for p, sk in items:
                if "[__E" in sk.text:
                    ok = any("isinstance(node.arg, Slice)" in k and v for k, v in p.decisions.items())
                    if not ok:
                        bad_attr.add("[...] (non-slice)")
            bad_attr.discard("[...]")
        ctx.check(not bad_attr, f"{entry}", f"compiler:CodeGenerator.{entry}", f"direct access {sorted(bad_attr)} on a template value",
                  f"{entry} emits {sorted(bad_attr)} applied directly to a template expression: the access bypasses environment.getattr/getitem and thus the sandbox", "src/jinja2/compiler.py")
    ctx.floor("skeletons scanned for direct access", n, 3000)


def c18_skeleton_rules(ctx: Ctx) -> None:
    ctx.rule("R5", "in every skeleton with `sandboxed` on, a call whose callee is a template value is environment.call(context, ...); with it off, context.call(...)")
    res = get_paths(ctx, ["visit_Call", "visit_CallBlock"])
    model = EmitModel(ctx.repo)
    n = 0
    for entry, items in res.items():
        for p, sk in items:
            if sk.error is not None or p.outcome != "normal" or p.decisions.get("optimizer folds this node"):
                continue
            sandboxed = p.decisions.get("self.environment.sandboxed")
            if sandboxed is None:
                continue
            n += 1
            has_env = "environment.call(context, " in sk.text
            has_ctx = "context.call(" in sk.text.replace("environment.call(context, ", "")
            ok = (has_env and not has_ctx) if sandboxed else (has_ctx and not has_env)
            if not ok:
                ctx.bad(f"compiler:CodeGenerator.{entry}", f"sandboxed={sandboxed}: wrong call form", f"with sandboxed={sandboxed} {entry} emits `{sk.text.strip()[:120]}` under [{short_flags(p)}]", "src/jinja2/compiler.py")
                break
        else:
            ctx.ok(f"{entry}", detail={"entry": entry, "paths": len(items)})
    ctx.floor("call skeletons", n, 500)


# ---------------------------------------------------------------------------- C36
DATA_ITER_WRAPPERS = {"auto_aiter", "AsyncLoopContext", "LoopContext"}


def _own_level(tree: ast.AST) -> t.Iterator[ast.AST]:
    """Nodes of the wrapper function's own level: nested defs emitted by the visitor are skipped."""
    top = tree.body[0] if isinstance(tree, ast.Module) and tree.body else tree  # type: ignore[attr-defined]
    todo = list(ast.iter_child_nodes(top))
    while todo:
        n = todo.pop()
        yield n
        if isinstance(n, (ast.FunctionDef, ast.AsyncFunctionDef, ast.Lambda)):
            continue
        todo.extend(ast.iter_child_nodes(n))


def _parents(tree: ast.AST) -> dict[int, ast.AST]:
    par: dict[int, ast.AST] = {}
    for p in ast.walk(tree):
        for c in ast.iter_child_nodes(p):
            par[id(c)] = p
    return par


def c36_skeleton_rules(ctx: Ctx) -> None:
    ctx.rule("R1", "async skeletons: every `async for` over a generator the engine itself created iterates a named generator inside try/finally: await <name>.aclose(); generators are never created inline in the loop header")
    res = get_paths(ctx)
    model = EmitModel(ctx.repo)
    n = 0
    for entry, items in sorted(res.items()):
        kind = entry_kind(model, entry)
        if kind != "stmt":
            continue
        reported: set[str] = set()
        for p, sk in items:
            if sk.error is not None or p.outcome != "normal" or "async for" not in sk.text:
                continue
            tree = reparse(sk, entry, kind)
            if tree is None:
                continue
            par = _parents(tree)
            for node in ast.walk(tree):
                if not isinstance(node, ast.AsyncFor):
                    continue
                n += 1
                it = node.iter
                if isinstance(it, ast.Name) and it.id.startswith(("__E", "__h", "__i")):
                    continue  # template data
                if isinstance(it, ast.Call):
                    callee = ast.unparse(it.func)
                    if callee in DATA_ITER_WRAPPERS:
                        # data iterables wrapped for async iteration - but an engine generator
                        # may hide inside: t_1(auto_aiter(x)) as argument
                        inner = [a for a in it.args if isinstance(a, ast.Call) and ast.unparse(a.func) not in DATA_ITER_WRAPPERS and not ast.unparse(a.func).startswith("__")]
                        if not inner:
                            continue
                        callee = ast.unparse(inner[0].func)
                    key = f"inline generator {callee.split('(')[0][:40]}"
                    key = "inline generator <loop filter function>" if callee.startswith("t_") else key
                    if key not in reported:
                        reported.add(key)
                        ctx.bad(f"compiler:CodeGenerator.{entry}", key,
                                f"{entry} (async) iterates `{ast.unparse(it)[:80]}` directly in the loop header: the async generator has no name and no try/finally aclose(), so when the consumer stops early or the task is cancelled it is left to the garbage collector",
                                "src/jinja2/compiler.py")
                    continue
                if isinstance(it, ast.Name):
                    name = it.id
                    ok = False
                    cur: ast.AST | None = node
                    while cur is not None:
                        cur = par.get(id(cur))
                        if isinstance(cur, ast.Try) and any(isinstance(x, ast.Await) and ast.unparse(x.value) == f"{name}.aclose()" for fb in cur.finalbody for x in ast.walk(fb)):
                            ok = True
                            break
                    if not ok and f"close:{name}" not in reported:
                        reported.add(f"close:{name}")
                        ctx.bad(f"compiler:CodeGenerator.{entry}", f"`{name}` iterated without finally aclose",
                                f"{entry} (async) iterates the generator `{name}` outside a try/finally that awaits {name}.aclose()", "src/jinja2/compiler.py")
                    elif ok:
                        ctx.ok(f"{entry}:{name}:{n}", detail={"entry": entry, "generator": name, "skeleton": sk.text[:240]} if n % 50 == 1 else None)
    ctx.floor("async for loops in skeletons", n, 40)


# ---------------------------------------------------------------------------- C05
def c05_yield_rule(ctx: Ctx, rid: str = "R5") -> None:
    ctx.rule(rid, "yield discipline: a statement visitor emits `yield` / `yield from` at its own function level only on paths where the frame is unbuffered (frame.buffer is None); in macro / set / filter / call bodies output goes to the buffer")
    res = get_paths(ctx)
    model = EmitModel(ctx.repo)
    n = 0
    for entry, items in sorted(res.items()):
        kind = entry_kind(model, entry)
        if kind != "stmt" or entry in ("visit_Template", "write_commons", "macro_body", "blockvisit"):
            continue
        fi = model.method(entry)
        if fi is None or "frame" not in [a.arg for a in fi.node.args.args]:  # type: ignore[attr-defined]
            continue
        bad: dict[str, Path] = {}
        for p, sk in items:
            if sk.error is not None or p.outcome != "normal" or "yield" not in sk.text:
                continue
            n += 1
            buffered = p.decisions.get("frame.buffer is not None")
            if buffered is False:
                continue
            tree = reparse(sk, entry, kind)
            if tree is None:
                continue
            ys = [x for x in _own_level(tree) if isinstance(x, (ast.Yield, ast.YieldFrom))]
            if ys:
                txt = ast.unparse(ys[0])[:70]
                bad.setdefault(txt, p)
        for txt, p in bad.items():
            dec = "regardless of frame.buffer" if p.decisions.get("frame.buffer is not None") is None else "with a buffered frame"
            norm = "yield from <included template body>" if "_body_stream" in txt else txt
            ctx.bad(f"compiler:CodeGenerator.{entry}", f"yields {dec}: {norm}",
                    f"{entry} emits `{txt}` {dec} [{short_flags(p, 5)}]: inside a macro, set block, filter block or call block the text is yielded out of the buffered function (the macro returns a generator object / the text is lost)",
                    "src/jinja2/compiler.py")
        if not bad:
            ctx.ok(entry)
    ctx.floor("yielding skeletons", n, 50)


# ---------------------------------------------------------------------------- C04
def c04_block_rules(ctx: Ctx) -> None:
    ctx.rule("R1", "visit_Block: on every path the block function is called as context.blocks[name][0](<ctx>) where <ctx> is the derived context exactly when the block is scoped; the required check precedes the call; after a known top-level extends nothing is emitted, after a possible extends the call is guarded by `parent_template is None`")
    res = get_paths(ctx, ["visit_Block"])
    n = 0
    for p, sk in res["visit_Block"]:
        if p.outcome != "normal":
            continue
        n += 1
        d = p.decisions
        known = d.get("frame.toplevel") and d.get("self.has_known_extends")
        if known:
            ctx.check(not sk.text.strip(), f"known-extends:{n}", "compiler:CodeGenerator.visit_Block", "emission after known extends", "a top-level block of a child template with a known extends must emit nothing", "src/jinja2/compiler.py")
            continue
        tree = reparse(sk, "visit_Block", "stmt")
        if tree is None:
            continue
        calls = [c for c in ast.walk(tree) if isinstance(c, ast.Call) and ast.unparse(c.func).startswith("context.blocks[") and ast.unparse(c.func).endswith("[0]")]
        ok = len(calls) == 1
        arg = ast.unparse(calls[0].args[0]) if ok and calls[0].args else ""
        scoped = bool(d.get("node.scoped"))
        derived = ".derived(" in arg
        ctx.check(ok and derived == scoped, f"ctx-arg:{n}", "compiler:CodeGenerator.visit_Block", f"scoped={scoped}: block called with `{arg[:30]}`",
                  f"with node.scoped={scoped} the block function is called with `{arg}` [{short_flags(p, 6)}]: a scoped block must receive the derived context (loop / with variables), an unscoped one the plain context - in every code path",
                  "src/jinja2/compiler.py", detail={"flags": short_flags(p, 6), "skeleton": sk.text[:200]} if n % 7 == 0 else None)
        req = bool(d.get("node.required"))
        has_req = "Required block" in sk.text
        ctx.check(req == has_req and (not has_req or sk.text.index("Required block") < sk.text.index("context.blocks[", sk.text.index("raise"))), f"required:{n}", "compiler:CodeGenerator.visit_Block", f"required={req}", "the required-block check must be emitted exactly for required blocks, before the block is called", "src/jinja2/compiler.py")
        if d.get("frame.toplevel") and d.get("self.extends_so_far > 0"):
            ctx.check(sk.text.lstrip().startswith("if parent_template is None:"), f"guard:{n}", "compiler:CodeGenerator.visit_Block", "top-level block after a possible extends", "a top-level block after a conditional extends must be guarded by `if parent_template is None:`", "src/jinja2/compiler.py")
    ctx.floor("visit_Block paths", n, 20)


# ---------------------------------------------------------------------------- C35
def c35_marker_rule(ctx: Ctx, rid: str) -> None:
    ctx.rule(rid, "line markers: in every statement visitor, on every path, a new generated line carrying a template node (debug-info entry) is started before the first expression of the statement is emitted")
    res = get_paths(ctx)
    model = EmitModel(ctx.repo)
    n = 0
    for entry, items in sorted(res.items()):
        if not entry.startswith("visit_") or entry_kind(model, entry) != "stmt" or entry == "visit_Template":
            continue
        bad: Path | None = None
        what = ""
        for p, sk in items:
            if p.outcome != "normal":
                continue
            marked = False
            for ev in p.events:
                if ev[0] == "nl" and ev[1] is not None:
                    marked = True
                elif ev[0] == "visit" and ev[3] == "expr":
                    n += 1
                    if not marked:
                        bad = p
                        what = ev[1]
                    break
                elif ev[0] == "visit" and ev[3] == "stmt":
                    break  # nested statements carry their own markers
            if bad:
                break
        if bad is not None:
            ctx.bad(f"compiler:CodeGenerator.{entry}", "expression emitted before any line marker",
                    f"{entry} emits the expression `{what}` before starting a line that carries a template node [{short_flags(bad, 4)}]: the generated line is attributed to the previous marker, so an exception raised by that expression is reported on an earlier template line",
                    "src/jinja2/compiler.py")
        else:
            ctx.ok(entry)
    ctx.floor("first expressions of statement visitors", n, 100)
