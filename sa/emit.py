"""E1 - emission model of the code generator.

An abstract interpreter for the methods of ``CodeGenerator`` (and subclasses).  A visitor is
*re-executed* once per path: every condition whose value is unknown at analysis time
(environment flags, frame attributes, node fields, loop lengths, "may raise here") is a choice
point answered by a decision oracle; the enumeration of oracle answers (depth first, by
re-execution with a forced prefix) yields all paths.  Equal condition labels get equal
answers on one path, which keeps correlated flags exact.  The result of a path is the list
of emission events (newline / write / indent / outdent / recursive visit holes / markers),
rendered to a *skeleton* - Python text with typed holes - and parsed with ``ast.parse``.

Nothing of jinja2 is imported or executed: the interpreter walks the ``ast`` of compiler.py.
"""

from __future__ import annotations

import ast
import typing as t

from .srcmodel import AnalysisError
from .srcmodel import ClassInfo
from .srcmodel import Repo

MAX_PATHS = 40000


# ----------------------------------------------------------------- abstract values
class K:
    """A known Python constant."""

    __slots__ = ("v",)

    def __init__(self, v: t.Any) -> None:
        self.v = v

    def __repr__(self) -> str:
        return f"K({self.v!r})"


class Hole:
    __slots__ = ("kind", "label")

    def __init__(self, kind: str, label: str) -> None:
        self.kind = kind  # ident | repr | raw | tmpl (raw text that comes from the template)
        self.label = label

    def __repr__(self) -> str:
        return f"<{self.kind}:{self.label}>"


class S:
    """An abstract string: literal parts and holes."""

    __slots__ = ("parts",)

    def __init__(self, parts: t.Sequence[t.Any]) -> None:
        out: list[t.Any] = []
        for p in parts:
            if isinstance(p, str) and out and isinstance(out[-1], str):
                out[-1] += p
            elif p != "":
                out.append(p)
        self.parts = tuple(out)

    def __repr__(self) -> str:
        return "S(" + "".join(p if isinstance(p, str) else repr(p) for p in self.parts) + ")"

    def text(self) -> str:
        return "".join(p if isinstance(p, str) else repr(p) for p in self.parts)


class U:
    """An unknown value; ``label`` keys the decisions taken about it."""

    __slots__ = ("label", "kind")

    def __init__(self, label: str, kind: str = "") -> None:
        self.label = label
        self.kind = kind  # "" | "str" (template controlled string) | "bool" | "int"

    def __repr__(self) -> str:
        return f"U({self.label})"


class NodeV:
    __slots__ = ("label", "cls", "optional")

    def __init__(self, label: str, cls: str | None, optional: bool = False) -> None:
        self.label = label
        self.cls = cls
        self.optional = optional

    def __repr__(self) -> str:
        return f"Node({self.label}:{self.cls}{'?' if self.optional else ''})"


class NodeList:
    __slots__ = ("label", "elem", "elemkind")

    def __init__(self, label: str, elem: str | None, elemkind: str = "") -> None:
        self.label = label
        self.elem = elem
        self.elemkind = elemkind

    def __repr__(self) -> str:
        return f"NodeList({self.label}:{self.elem})"


class ListV:
    __slots__ = ("items",)

    def __init__(self, items: list[t.Any]) -> None:
        self.items = items

    def __repr__(self) -> str:
        return f"ListV({self.items})"


class DictV:
    __slots__ = ("d",)

    def __init__(self, d: dict[t.Any, t.Any]) -> None:
        self.d = d


class Obj:
    _n = 0

    def __init__(self, kind: str, attrs: dict[str, t.Any], label: str = "") -> None:
        Obj._n += 1
        self.kind = kind
        self.attrs = attrs
        self.label = label or f"{kind}#{Obj._n}"

    def __repr__(self) -> str:
        return f"<{self.label}>"


class Func:
    def __init__(self, node: ast.AST, closure: list[dict[str, t.Any]], owner: ClassInfo | None = None, bound: bool = False) -> None:
        self.node = node
        self.closure = closure
        self.owner = owner
        self.bound = bound

    def __repr__(self) -> str:
        return f"<func {getattr(self.node, 'name', '?')}>"


class _Return(Exception):
    def __init__(self, value: t.Any) -> None:
        self.value = value


class _Raise(Exception):
    def __init__(self, name: str) -> None:
        self.name = name


class _Break(Exception):
    pass


class _Continue(Exception):
    pass


class _Abort(Exception):
    """Path limit reached."""


class Unsupported(Exception):
    pass


# ------------------------------------------------------------------------ results
class Path:
    def __init__(self, events: list[tuple], decisions: dict[str, t.Any], outcome: str, indent: int) -> None:
        self.events = events
        self.decisions = decisions
        self.outcome = outcome  # normal | fail | CompilerExit | raise:<X>
        self.final_indent = indent

    def flag(self, label: str) -> t.Any:
        return self.decisions.get(label)


class Oracle:
    def __init__(self, forced: list[int], preset: dict[str, t.Any]) -> None:
        self.forced = forced
        self.trace: list[tuple[str, int, int]] = []
        self.memo: dict[str, int] = {}
        self.preset = preset

    def choose(self, label: str, n: int, memo: bool = True) -> int:
        if label in self.preset:
            v = self.preset[label]
            return int(v) if not isinstance(v, bool) else (0 if v else 1)
        if memo and label in self.memo:
            return self.memo[label]
        i = len(self.trace)
        c = self.forced[i] if i < len(self.forced) else 0
        self.trace.append((label, n, c))
        if memo:
            self.memo[label] = c
        return c


# ------------------------------------------------------------------- interpreter
SUMMARISED = {"enter_frame", "leave_frame", "pull_dependencies", "write_commons", "signature", "macro_body", "blockvisit"}
# visitors whose own subject is a summarised helper analyse it inline
INLINE_FOR = {
    "visit_Call": {"signature"}, "visit_Filter": {"signature"}, "visit_Test": {"signature"}, "_filter_test_common": {"signature"},
}
NODE_BASE_KIND = {"Stmt": "stmt", "Expr": "expr", "Helper": "expr", "Template": "stmt"}


class Interp:
    def __init__(self, model: "EmitModel", oracle: Oracle, summarise: set[str], loop_max: int) -> None:
        self.m = model
        self.o = oracle
        self.summarise = summarise
        self.loop_max = loop_max
        self.events: list[tuple] = []
        self.indent = 0
        self.selfattrs: dict[str, t.Any] = {}
        self.tmp = 0
        self.uid = 0
        self.stack: list[str] = []
        self.steps = 0

    # ---- helpers
    def fresh(self, base: str) -> str:
        self.uid += 1
        return f"{base}@{self.uid}"

    def decide(self, label: str) -> bool:
        return self.o.choose(label, 2) == 0

    def emit(self, *ev: t.Any) -> None:
        self.events.append(tuple(ev))

    def label(self, v: t.Any) -> str:
        if isinstance(v, (U, NodeV, NodeList, Obj)):
            return v.label
        if isinstance(v, K):
            return repr(v.v)
        if isinstance(v, S):
            return v.text()
        return type(v).__name__

    # ---- truth
    def truth(self, v: t.Any, src: str = "") -> bool:
        if isinstance(v, K):
            return bool(v.v)
        if isinstance(v, S):
            if any(isinstance(p, str) and p for p in v.parts) or v.parts:
                return True
            return False
        if isinstance(v, ListV):
            return bool(v.items)
        if isinstance(v, DictV):
            return bool(v.d)
        if isinstance(v, (Obj, Func)):
            return True
        if isinstance(v, NodeV):
            if v.optional:
                return self.decide(f"{v.label} is not None")
            return True
        if isinstance(v, NodeList):
            # same choice point as iterating it
            return self.o.choose(f"len({v.label})", self.loop_max + 1) > 0
        if isinstance(v, U):
            return self.decide(v.label)
        return self.decide(src or "?")

    # ---- node typing
    def field_value(self, nv: NodeV, attr: str) -> t.Any:
        label = f"{nv.label}.{attr}"
        ann = self.m.node_field_ann(nv.cls, attr) if nv.cls else None
        if attr == "lineno":
            return U(label, "int")
        if ann is None:
            return U(label)
        a = ann.replace('"', "").replace("'", "").replace("t.Optional[", "").replace("nodes.", "")
        optional = "None" in a or "Optional" in ann
        core = a.replace("| None", "").replace("None |", "").strip().rstrip("]").strip() if optional else a
        if core.startswith("list["):
            inner = core[5:].rstrip("]")
            if "str" in inner or "tuple" in inner:
                return U(label)
            return NodeList(label, inner.strip() or None)
        if core in ("str",):
            return U(label, "str")
        if core in ("bool",):
            return U(label, "bool")
        if core in ("t.Any", "int"):
            return U(label)
        if self.m.is_node_class(core):
            return NodeV(label, core, optional)
        return U(label)

    def visit_kind(self, v: t.Any) -> str:
        if "blockvisit" in self.stack:
            return "stmt"
        cls = v.cls if isinstance(v, NodeV) else None
        if cls:
            for c in self.m.node_mro(cls):
                if c in NODE_BASE_KIND:
                    return NODE_BASE_KIND[c]
        if isinstance(v, NodeV) and v.label.endswith("]") and (".body[" in v.label or ".else_[" in v.label):
            return "stmt"
        return "expr"

    # ---- expression evaluation
    def ev(self, e: ast.expr, env: list[dict[str, t.Any]]) -> t.Any:
        self.steps += 1
        if self.steps > 200000:
            raise _Abort()
        meth = getattr(self, "ev_" + type(e).__name__, None)
        if meth is None:
            return U(self.src(e))
        return meth(e, env)

    def src(self, e: ast.AST) -> str:
        try:
            return ast.unparse(e)
        except Exception:
            return type(e).__name__

    def lookup(self, name: str, env: list[dict[str, t.Any]]) -> t.Any:
        for sc in reversed(env):
            if name in sc:
                return sc[name]
        g = self.m.global_value(name)
        if g is not None:
            return g
        return U(name)

    def ev_Constant(self, e: ast.Constant, env) -> t.Any:  # type: ignore[no-untyped-def]
        return K(e.value)

    def ev_Name(self, e: ast.Name, env) -> t.Any:  # type: ignore[no-untyped-def]
        return self.lookup(e.id, env)

    def ev_JoinedStr(self, e: ast.JoinedStr, env) -> t.Any:  # type: ignore[no-untyped-def]
        parts: list[t.Any] = []
        for v in e.values:
            if isinstance(v, ast.Constant):
                parts.append(v.value)
            elif isinstance(v, ast.FormattedValue):
                val = self.ev(v.value, env)
                parts.extend(self.fmt(val, v.conversion == ord("r"), self.src(v.value)))
        return S(parts)

    def fmt(self, val: t.Any, rconv: bool, src: str) -> list[t.Any]:
        if isinstance(val, K):
            return [repr(val.v) if rconv else str(val.v)]
        if isinstance(val, S):
            if rconv:
                return [Hole("repr", val.text())]
            return list(val.parts)
        if isinstance(val, U):
            if rconv:
                return [Hole("repr", val.label)]
            return [Hole("tmpl" if val.kind == "str" else "raw", val.label)]
        if rconv:
            return [Hole("repr", self.label(val))]
        return [Hole("raw", self.label(val) if not isinstance(val, (ListV, DictV, Func)) else src)]

    def tostr(self, val: t.Any, src: str = "") -> S:
        if isinstance(val, S):
            return val
        return S(self.fmt(val, False, src))

    def ev_BinOp(self, e: ast.BinOp, env) -> t.Any:  # type: ignore[no-untyped-def]
        a, b = self.ev(e.left, env), self.ev(e.right, env)
        if isinstance(e.op, ast.Add):
            if isinstance(a, K) and isinstance(b, K):
                try:
                    return K(a.v + b.v)
                except Exception:
                    return U(self.src(e))
            if isinstance(a, (S, K)) and isinstance(b, (S, K, U)) or isinstance(b, S) or (isinstance(a, U) and a.kind == "str"):
                if (isinstance(a, K) and not isinstance(a.v, str)) or (isinstance(b, K) and not isinstance(b.v, str)):
                    return U(self.src(e))
                return S(list(self.tostr(a).parts) + list(self.tostr(b).parts))
            if isinstance(a, ListV) and isinstance(b, ListV):
                return ListV(a.items + b.items)
        if isinstance(a, K) and isinstance(b, K):
            try:
                import operator as op

                f = {ast.Sub: op.sub, ast.Mult: op.mul, ast.Mod: op.mod, ast.FloorDiv: op.floordiv}.get(type(e.op))
                if f is not None:
                    return K(f(a.v, b.v))
            except Exception:
                pass
        return U(self.src(e))

    def ev_UnaryOp(self, e: ast.UnaryOp, env) -> t.Any:  # type: ignore[no-untyped-def]
        if isinstance(e.op, ast.Not):
            return K(not self.truth(self.ev(e.operand, env), self.src(e.operand)))
        v = self.ev(e.operand, env)
        if isinstance(v, K) and isinstance(e.op, ast.USub):
            return K(-v.v)
        return U(self.src(e))

    def ev_BoolOp(self, e: ast.BoolOp, env) -> t.Any:  # type: ignore[no-untyped-def]
        last: t.Any = K(True)
        for v in e.values:
            last = self.ev(v, env)
            tr = self.truth(last, self.src(v))
            if isinstance(e.op, ast.And) and not tr:
                return last if isinstance(last, K) else K(False)
            if isinstance(e.op, ast.Or) and tr:
                return last if not isinstance(last, U) else K(True) if False else last
        return last

    def ev_IfExp(self, e: ast.IfExp, env) -> t.Any:  # type: ignore[no-untyped-def]
        if self.truth(self.ev(e.test, env), self.src(e.test)):
            return self.ev(e.body, env)
        return self.ev(e.orelse, env)

    def ev_Compare(self, e: ast.Compare, env) -> t.Any:  # type: ignore[no-untyped-def]
        if len(e.ops) != 1:
            return K(self.decide(self.src(e)))
        a = self.ev(e.left, env)
        b = self.ev(e.comparators[0], env)
        op = e.ops[0]
        if isinstance(op, (ast.Is, ast.IsNot)):
            if isinstance(b, K) and b.v is None:
                res = self.is_none(a, self.src(e.left))
                return K(res if isinstance(op, ast.Is) else not res)
            if isinstance(a, K) and isinstance(b, K):
                r = a.v is b.v
                return K(r if isinstance(op, ast.Is) else not r)
            return K(self.decide(self.cmp_label(e, a, b)))
        if isinstance(a, K) and isinstance(b, K):
            try:
                import operator as opm

                f = {ast.Eq: opm.eq, ast.NotEq: opm.ne, ast.Lt: opm.lt, ast.LtE: opm.le, ast.Gt: opm.gt, ast.GtE: opm.ge,
                     ast.In: lambda x, y: x in y, ast.NotIn: lambda x, y: x not in y}[type(op)]
                return K(f(a.v, b.v))
            except Exception:
                pass
        if isinstance(op, (ast.Eq, ast.NotEq)) and isinstance(a, ListV) and isinstance(b, K):
            return K((a.items == b.v) == isinstance(op, ast.Eq))
        if isinstance(op, (ast.In, ast.NotIn)) and isinstance(b, (DictV,)) and isinstance(a, K):
            r = a.v in b.d
            return K(r if isinstance(op, ast.In) else not r)
        if isinstance(op, (ast.In, ast.NotIn)) and isinstance(b, ListV) and not b.items:
            return K(isinstance(op, ast.NotIn))
        if isinstance(op, (ast.In, ast.NotIn)) and isinstance(b, ListV) and isinstance(a, K) and all(isinstance(x, K) for x in b.items):
            r = a.v in [x.v for x in b.items]
            return K(r if isinstance(op, ast.In) else not r)
        neg = isinstance(op, (ast.NotEq, ast.NotIn))
        lab = self.cmp_label(e, a, b, positive=True)
        r = self.decide(lab)
        return K((not r) if neg else r)

    def cmp_label(self, e: ast.Compare, a: t.Any, b: t.Any, positive: bool = False) -> str:
        op = e.ops[0]
        sym = {ast.Eq: "==", ast.NotEq: "==" if positive else "!=", ast.In: "in", ast.NotIn: "in" if positive else "not in", ast.Lt: "<", ast.LtE: "<=", ast.Gt: ">", ast.GtE: ">=", ast.Is: "is", ast.IsNot: "is not"}[type(op)]
        return f"{self.label(a)} {sym} {self.label(b)}"

    def is_none(self, v: t.Any, src: str) -> bool:
        if isinstance(v, K):
            return v.v is None
        if isinstance(v, NodeV):
            if not v.optional:
                return False
            return not self.decide(f"{v.label} is not None")
        if isinstance(v, (S, ListV, DictV, Obj, Func, NodeList)):
            return False
        if isinstance(v, U):
            return not self.decide(f"{v.label} is not None")
        return not self.decide(f"{src} is not None")

    def ev_Tuple(self, e: ast.Tuple, env) -> t.Any:  # type: ignore[no-untyped-def]
        vals = [self.ev(x, env) for x in e.elts]
        if all(isinstance(v, K) for v in vals):
            return K(tuple(v.v for v in vals))
        return ListV(vals)

    def ev_List(self, e: ast.List, env) -> t.Any:  # type: ignore[no-untyped-def]
        return ListV([self.ev(x, env) for x in e.elts])

    def ev_Set(self, e: ast.Set, env) -> t.Any:  # type: ignore[no-untyped-def]
        vals = [self.ev(x, env) for x in e.elts]
        if all(isinstance(v, K) for v in vals):
            return K(frozenset(v.v for v in vals))
        return U(self.src(e))

    def ev_Dict(self, e: ast.Dict, env) -> t.Any:  # type: ignore[no-untyped-def]
        d = {}
        for k, v in zip(e.keys, e.values):
            if k is None:
                # {**a, **b}: the entries of a known dict value
                vv = self.ev(v, env)
                if isinstance(vv, DictV):
                    d.update(vv.d)
                    continue
                return U(self.src(e))
            kv = self.ev(k, env)
            key = kv.v if isinstance(kv, K) else self.label(kv)
            d[key] = self.ev(v, env)
        return DictV(d)

    def ev_Attribute(self, e: ast.Attribute, env) -> t.Any:  # type: ignore[no-untyped-def]
        if isinstance(e.value, ast.Name) and e.value.id == "self":
            if e.attr in self.selfattrs:
                return self.selfattrs[e.attr]
            f = self.m.method(e.attr)
            if f is not None:
                return f
            return U(f"self.{e.attr}")
        base = self.ev(e.value, env)
        return self.getattr(base, e.attr, self.src(e))

    def getattr(self, base: t.Any, attr: str, src: str) -> t.Any:
        if isinstance(base, Obj):
            if attr in base.attrs:
                return base.attrs[attr]
            v = U(f"{base.label}.{attr}")
            if base.kind == "Frame" and attr == "symbols":
                v = Obj("Symbols", {}, f"{base.label}.symbols")
            base.attrs[attr] = v
            return v
        if isinstance(base, NodeV):
            return self.field_value(base, attr)
        if isinstance(base, U):
            return U(f"{base.label}.{attr}")
        if isinstance(base, K) and base.v is None:
            return U(src)
        return U(src)

    def ev_Subscript(self, e: ast.Subscript, env) -> t.Any:  # type: ignore[no-untyped-def]
        base = self.ev(e.value, env)
        if isinstance(e.slice, ast.Slice):
            return U(self.src(e)) if not isinstance(base, U) or base.kind != "str" else U(self.src(e), "str")
        idx = self.ev(e.slice, env)
        if isinstance(base, ListV) and isinstance(idx, K) and isinstance(idx.v, int):
            try:
                return base.items[idx.v]
            except IndexError:
                raise _Raise("IndexError") from None
        if isinstance(base, DictV) and isinstance(idx, K):
            if idx.v in base.d:
                return base.d[idx.v]
        if isinstance(base, DictV) and base.d and not isinstance(idx, K) and all(isinstance(v, K) for v in base.d.values()):
            # a table lookup with an unknown key: one path per table value
            vals = list(base.d.values())
            return vals[self.o.choose(f"{self.label(idx)} selects entry", len(vals))]
        if isinstance(base, K) and isinstance(idx, K):
            try:
                return K(base.v[idx.v])
            except Exception:
                pass
        if isinstance(base, NodeList):
            return NodeV(f"{base.label}[{self.label(idx)}]", base.elem)
        return U(f"{self.label(base)}[{self.label(idx)}]")

    def ev_ListComp(self, e: ast.ListComp, env) -> t.Any:  # type: ignore[no-untyped-def]
        return U(self.src(e))

    def ev_GeneratorExp(self, e: ast.GeneratorExp, env) -> t.Any:  # type: ignore[no-untyped-def]
        return U(self.src(e))

    def ev_Lambda(self, e: ast.Lambda, env) -> t.Any:  # type: ignore[no-untyped-def]
        return U(self.src(e))

    def ev_NamedExpr(self, e: ast.NamedExpr, env) -> t.Any:  # type: ignore[no-untyped-def]
        v = self.ev(e.value, env)
        env[-1][e.target.id] = v
        return v

    def ev_Starred(self, e: ast.Starred, env) -> t.Any:  # type: ignore[no-untyped-def]
        return self.ev(e.value, env)

    # ---- calls
    def ev_Call(self, e: ast.Call, env) -> t.Any:  # type: ignore[no-untyped-def]
        fsrc = self.src(e.func)
        # ---- emission primitives on self
        if isinstance(e.func, ast.Attribute) and isinstance(e.func.value, ast.Name) and e.func.value.id == "self":
            name = e.func.attr
            if name in ("write", "writeline", "newline", "indent", "outdent", "visit", "temporary_identifier", "fail"):
                return self.primitive(name, e, env)
            f = self.m.method(name)
            if f is not None:
                if name in self.summarise and self.stack:
                    args = [self.ev(a, env) for a in e.args]
                    self.emit("summary", name, [self.label(a) for a in args], e.lineno)
                    if name == "signature":
                        self.emit("w", S([", *__signature__"]), e.lineno)
                        return K(None)
                    if name == "blockvisit":
                        self.emit("nl", None, 0, e.lineno)
                        self.emit("w", S(["pass"]), e.lineno)
                        self.emit("visit", self.label(args[0]) + "[*]", self.label(args[1]) if len(args) > 1 else None, "stmt", e.lineno, {})
                        return K(None)
                    if name == "macro_body":
                        fr = Obj("Frame", {}, self.fresh("frame"))
                        base = args[1] if len(args) > 1 else None
                        fr.attrs["eval_ctx"] = self.getattr(base, "eval_ctx", "") if isinstance(base, Obj) else U("eval_ctx")
                        fr.attrs["buffer"] = S(["t_macro"])
                        self.emit("nl", None, 0, e.lineno)
                        self.emit("w", S(["def macro(): pass  # macro_body"]), e.lineno)
                        mr = Obj("MacroRef", {"node": args[0], "accesses_caller": U("accesses_caller", "bool"), "accesses_kwargs": U("accesses_kwargs", "bool"), "accesses_varargs": U("accesses_varargs", "bool")}, self.fresh("macroref"))
                        return ListV([fr, mr])
                    self.emit("nl", None, 0, e.lineno)
                    self.emit("w", S([f"pass  # {name}"]), e.lineno)
                    return K(None)
                return self.call_func(f, e, env, name)
            ncls = self.m.nested_class(name)
            if ncls is not None:
                fields = [s.target.id for s in ncls.body if isinstance(s, ast.AnnAssign) and isinstance(s.target, ast.Name)]
                return Obj(ncls.name, dict(zip(fields, [self.ev(a, env) for a in e.args])), self.fresh(ncls.name))
            return U(f"self.{name}(...)")
        if isinstance(e.func, ast.Attribute):
            base = self.ev(e.func.value, env)
            return self.method_call(base, e.func.attr, e, env)
        fv = self.ev(e.func, env) if isinstance(e.func, ast.Name) else U(fsrc)
        if isinstance(fv, Func):
            return self.call_func(fv, e, env, getattr(fv.node, "name", "?"))
        return self.builtin_call(fsrc, e, env)

    def primitive(self, name: str, e: ast.Call, env) -> t.Any:  # type: ignore[no-untyped-def]
        args = [self.ev(a, env) for a in e.args]
        kw = {k.arg: self.ev(k.value, env) for k in e.keywords}
        if name == "write":
            self.emit("w", self.tostr(args[0], self.src(e.args[0])), e.lineno)
        elif name == "writeline":
            node = args[1] if len(args) > 1 else kw.get("node")
            extra = args[2] if len(args) > 2 else kw.get("extra", K(0))
            self.emit("nl", self.marker(node), extra.v if isinstance(extra, K) else 0, e.lineno)
            self.emit("w", self.tostr(args[0], self.src(e.args[0])), e.lineno)
        elif name == "newline":
            node = args[0] if args else kw.get("node")
            self.emit("nl", self.marker(node), 0, e.lineno)
        elif name == "indent":
            self.indent += 1
            self.emit("ind", 1, e.lineno)
        elif name == "outdent":
            step = args[0] if args else kw.get("step", K(1))
            if isinstance(step, K) and isinstance(step.v, (int, bool)):
                n = int(step.v)
            else:
                raise Unsupported(f"outdent({self.src(e)}) with unknown step")
            self.indent -= n
            self.emit("ind", -n, e.lineno)
        elif name == "visit":
            target = args[0]
            frame = args[1] if len(args) > 1 else None
            self.emit("visit", self.label(target), self.label(frame) if frame is not None else None, self.visit_kind(target), e.lineno, {k: self.label(v) for k, v in kw.items()})
        elif name == "temporary_identifier":
            self.tmp += 1
            return S([f"t_{self.tmp}"])
        elif name == "fail":
            self.emit("fail", self.label(args[0]) if args else "", e.lineno)
            raise _Raise("TemplateAssertionError")
        return K(None)

    def marker(self, node: t.Any) -> str | None:
        if node is None or (isinstance(node, K) and node.v is None):
            return None
        return self.label(node)

    def bind_args(self, fn: ast.AST, e: ast.Call, env, skip_self: bool) -> dict[str, t.Any]:  # type: ignore[no-untyped-def]
        a = fn.args  # type: ignore[attr-defined]
        params = [p.arg for p in a.posonlyargs + a.args]
        if skip_self and params and params[0] in ("self", "cls"):
            params = params[1:]
        defaults = dict(zip([p.arg for p in (a.posonlyargs + a.args)][len(a.posonlyargs + a.args) - len(a.defaults):], a.defaults))
        out: dict[str, t.Any] = {}
        for p, arg in zip(params, e.args):
            out[p] = self.ev(arg, env)
        for k in e.keywords:
            if k.arg is not None:
                out[k.arg] = self.ev(k.value, env)
        for p in params:
            if p not in out:
                d = defaults.get(p)
                out[p] = self.ev(d, [{}]) if d is not None else U(p)
        for p, d in zip(a.kwonlyargs, a.kw_defaults):
            if p.arg not in out:
                out[p.arg] = self.ev(d, [{}]) if d is not None else U(p.arg)
        if a.kwarg:
            out[a.kwarg.arg] = DictV({})
        return out

    def call_func(self, f: Func, e: ast.Call, env, name: str) -> t.Any:  # type: ignore[no-untyped-def]
        fn = f.node
        if len(self.stack) > 12:
            return U(f"{name}(...)")
        is_method = f.owner is not None and not any(ast.unparse(d) == "staticmethod" for d in fn.decorator_list)  # type: ignore[attr-defined]
        local = self.bind_args(fn, e, env, skip_self=is_method)
        decos = [ast.unparse(d) for d in fn.decorator_list]  # type: ignore[attr-defined]
        if "contextmanager" in decos:
            return Obj("ctxmgr", {"fn": fn, "env": f.closure + [local]})
        if "optimizeconst" in decos and self.decide("optimizer folds this node"):
            self.emit("visit", "folded(" + self.label(local.get("node")) + ")", self.label(local.get("frame")), "expr", e.lineno, {})
            return K(None)
        self.stack.append(name)
        if f.owner is not None:
            self.emit("call", name, e.lineno)
        try:
            self.exec_block(fn.body, f.closure + [local])  # type: ignore[attr-defined]
        except _Return as r:
            return r.value
        finally:
            self.stack.pop()
        return K(None)

    def method_call(self, base: t.Any, attr: str, e: ast.Call, env) -> t.Any:  # type: ignore[no-untyped-def]
        args = [self.ev(a, env) for a in e.args]
        kw = {k.arg: self.ev(k.value, env) for k in e.keywords if k.arg}
        src = self.src(e)
        if isinstance(base, Obj) and base.kind == "Frame":
            if attr == "inner":
                iso = kw.get("isolated", args[0] if args else K(False))
                new = Obj("Frame", {}, self.fresh("frame"))
                new.attrs["eval_ctx"] = self.getattr(base, "eval_ctx", "")
                isolated = isinstance(iso, K) and bool(iso.v)
                new.attrs["buffer"] = K(None) if isolated else self.getattr(base, "buffer", "")
                new.attrs["require_output_check"] = K(False) if isolated else self.getattr(base, "require_output_check", "")
                new.attrs["block"] = K(None) if isolated else self.getattr(base, "block", "")
                for fl in ("toplevel", "rootlevel", "loop_frame", "block_frame", "soft_frame"):
                    new.attrs[fl] = K(False)
                new.attrs["parent"] = K(None) if isolated else base
                self.emit("frame", new.label, "inner", base.label, e.lineno)
                return new
            if attr in ("soft", "copy"):
                new = Obj("Frame", dict(base.attrs), self.fresh("frame"))
                for k in ("eval_ctx", "buffer", "require_output_check", "toplevel", "loop_frame", "block_frame", "symbols"):
                    if k not in new.attrs:
                        new.attrs[k] = self.getattr(base, k, "")
                if attr == "soft":
                    new.attrs["rootlevel"] = K(False)
                    new.attrs["soft_frame"] = K(True)
                self.emit("frame", new.label, attr, base.label, e.lineno)
                return new
        if isinstance(base, Obj) and base.kind == "Symbols":
            if attr in ("ref", "declare_parameter"):
                return S([Hole("ident", f"{attr}({self.label(args[0])})")])
            if attr == "analyze_node":
                self.emit("analyze", base.label, self.label(args[0]), {k: self.label(v) for k, v in kw.items()}, e.lineno)
                return K(None)
            return U(f"{base.label}.{attr}({', '.join(self.label(a) for a in args)})")
        if isinstance(base, Obj) and base.kind == "EvalCtx" and attr == "save":
            return U("saved_ctx")
        if isinstance(base, ListV):
            if attr == "add":
                base.items.append(args[0])
                return K(None)
            if attr == "append":
                base.items.append(args[0])
                return K(None)
            if attr == "extend" and isinstance(args[0], ListV):
                base.items.extend(args[0].items)
                return K(None)
            if attr == "pop":
                return base.items.pop() if base.items else U("pop")
        if isinstance(base, DictV):
            if attr == "get":
                key = args[0]
                if isinstance(key, K):
                    return base.d.get(key.v, args[1] if len(args) > 1 else K(None))
                opts = list(base.d.values()) + [args[1] if len(args) > 1 else K(None)]
                i = self.o.choose(f"{self.label(key)} selects", len(opts))
                return opts[i]
            if attr == "items":
                return ListV([ListV([K(k) if not isinstance(k, str) or True else k, v]) for k, v in base.d.items()])
            if attr == "update":
                for a in args:
                    if isinstance(a, DictV):
                        base.d.update(a.d)
                for k, v in kw.items():
                    base.d[k] = v
                for k_ in e.keywords:  # d.update(x, **y)
                    if k_.arg is None:
                        y = self.ev(k_.value, env)
                        if isinstance(y, DictV):
                            base.d.update(y.d)
                        else:
                            raise Unsupported(f"dict.update(**{self.src(k_.value)}) with an unknown mapping")
                return K(None)
        if isinstance(base, K) and isinstance(base.v, str):
            if attr == "join":
                seq = args[0]
                if isinstance(seq, ListV):
                    parts: list[t.Any] = []
                    for i, it in enumerate(seq.items):
                        if i:
                            parts.append(base.v)
                        parts.extend(self.tostr(it).parts)
                    return S(parts)
                return S([Hole("raw", f"join({self.label(seq) if not isinstance(seq, U) else seq.label[:40]})")])
            if attr == "startswith" and isinstance(args[0], K):
                return K(base.v.startswith(args[0].v))
        if isinstance(base, S) or (isinstance(base, U) and base.kind == "str"):
            if attr in ("startswith", "endswith"):
                return K(self.decide(f"{self.label(base)}.{attr}({self.label(args[0])})"))
            if attr in ("replace", "rsplit", "split", "strip", "lower"):
                return U(f"{self.label(base)}.{attr}(...)", "str")
        if isinstance(base, NodeV):
            if attr == "as_const":
                return U(f"{base.label}.as_const()")
            if attr in ("find_all", "iter_child_nodes"):
                cls = None
                if args and isinstance(e.args[0], ast.Attribute):
                    cls = e.args[0].attr
                return NodeList(f"{base.label}.{attr}({self.src(e.args[0]) if e.args else ''})", cls, "found")
            if attr == "find":
                cls = e.args[0].attr if e.args and isinstance(e.args[0], ast.Attribute) else None
                return NodeV(f"{base.label}.find({cls})", cls, optional=True)
        if isinstance(base, (NodeList, U)) and attr == "items":
            return U(f"{self.label(base)}.items()")
        if attr == "add" or attr == "discard" or attr == "difference_update" or attr == "append" or attr == "pop" or attr == "update":
            return K(None) if attr != "pop" else U(src)
        if isinstance(base, Func):
            return U(src)
        return U(src)

    def builtin_call(self, fsrc: str, e: ast.Call, env) -> t.Any:  # type: ignore[no-untyped-def]
        args = [self.ev(a, env) for a in e.args]
        if fsrc == "isinstance" and len(args) == 2:
            return K(self.isinstance(args[0], e.args[1], self.src(e)))
        if fsrc == "len":
            a = args[0]
            if isinstance(a, ListV):
                return K(len(a.items))
            if isinstance(a, K):
                try:
                    return K(len(a.v))
                except Exception:
                    pass
            if isinstance(a, NodeList):
                # the same abstract length the loop over this list unrolls to (equal label =>
                # equal choice): `len(node.items) == 1` cannot hold on the zero-iteration path
                return K(self.o.choose(f"len({self.label(a)})", self.loop_max + 1))
            return U(f"len({self.label(a)})", "int")
        if fsrc == "repr":
            return S(self.fmt(args[0], True, self.src(e.args[0])))
        if fsrc == "str":
            return self.tostr(args[0], self.src(e.args[0])) if isinstance(args[0], (S, K)) else U(self.src(e))
        if fsrc in ("enumerate",):
            a = args[0]
            if isinstance(a, ListV):
                return ListV([ListV([K(i), x]) for i, x in enumerate(a.items)])
            return Obj("enumerate", {"of": a})
        if fsrc == "zip":
            return Obj("zip", {"of": args})
        if fsrc in ("sorted", "list", "tuple", "reversed", "iter"):
            return args[0] if args and isinstance(args[0], (ListV, NodeList)) else U(self.src(e))
        if fsrc == "dict":
            d: dict[t.Any, t.Any] = {}
            if args and isinstance(args[0], DictV):
                d.update(args[0].d)
            elif args:
                return U(self.src(e))
            for k in e.keywords:
                v = self.ev(k.value, env)
                if k.arg is None:
                    if isinstance(v, DictV):
                        d.update(v.d)
                    else:
                        return U(self.src(e))
                else:
                    d[k.arg] = v
            return DictV(d)
        if fsrc == "set":
            return ListV([]) if not args else U(self.src(e))
        if fsrc == "any" or fsrc == "all":
            return U(self.src(e), "bool")
        if fsrc == "bool" and len(args) == 1 and not e.keywords:
            # a flag computed from a condition: the same decision as testing the operand
            return K(self.truth(args[0], self.src(e.args[0])))
        if fsrc in ("t.cast", "typing.cast") and len(args) == 2:
            return args[1]
        if fsrc == "getattr" and len(args) >= 2 and isinstance(args[1], K):
            return self.getattr(args[0], args[1].v, self.src(e))
        if fsrc == "Frame":
            fr = Obj("Frame", {}, self.fresh("frame"))
            fr.attrs.update({"eval_ctx": args[0] if args else U("eval_ctx"), "buffer": K(None), "require_output_check": K(False), "block": K(None), "toplevel": K(False), "rootlevel": K(False), "loop_frame": K(False), "block_frame": K(False), "soft_frame": K(False), "parent": K(None)})
            self.emit("frame", fr.label, "root", None, e.lineno)
            return fr
        if fsrc == "EvalContext":
            return Obj("EvalCtx", {"volatile": U("eval_ctx.volatile", "bool"), "autoescape": U("eval_ctx.autoescape", "bool")}, "eval_ctx")
        if fsrc == "MacroRef":
            return Obj("MacroRef", {"node": args[0], "accesses_caller": K(False), "accesses_kwargs": K(False), "accesses_varargs": K(False)}, self.fresh("macroref"))
        cls = self.m.nested_class(fsrc)
        if cls is not None:
            fields = [s.target.id for s in cls.body if isinstance(s, ast.AnnAssign) and isinstance(s.target, ast.Name)]
            return Obj(cls.name, dict(zip(fields, args)), self.fresh(cls.name))
        if fsrc in ("CompilerExit", "nodes.Impossible", "VisitorExit"):
            return U(fsrc)
        return U(self.src(e)[:80])

    def isinstance(self, v: t.Any, cls_expr: ast.expr, src: str) -> bool:
        names = [self.src(x).split(".")[-1] for x in (cls_expr.elts if isinstance(cls_expr, ast.Tuple) else [cls_expr])]
        if isinstance(v, ListV):
            return "list" in names or "tuple" in names
        if isinstance(v, (S,)):
            return "str" in names
        if isinstance(v, K):
            return type(v.v).__name__ in names
        if isinstance(v, NodeV) and v.cls:
            mro = self.m.node_mro(v.cls)
            if any(n in mro for n in names):
                return True
            if "list" in names and len(names) == 1:
                return False
            # could a subclass of v.cls be an instance?
            if any(v.cls in self.m.node_mro(n) for n in names if self.m.is_node_class(n)):
                return self.decide(f"isinstance({v.label}, {'|'.join(names)})")
            return False
        if isinstance(v, U):
            return self.decide(f"isinstance({v.label}, {'|'.join(names)})")
        return self.decide(src)

    # ---- statements
    def exec_block(self, body: list[ast.stmt], env: list[dict[str, t.Any]]) -> None:
        for st in body:
            self.exec(st, env)

    def exec(self, st: ast.stmt, env: list[dict[str, t.Any]]) -> None:
        self.steps += 1
        if self.steps > 200000:
            raise _Abort()
        m = getattr(self, "ex_" + type(st).__name__, None)
        if m is None:
            raise Unsupported(f"statement {type(st).__name__} at line {st.lineno}")
        m(st, env)

    def ex_Expr(self, st: ast.Expr, env) -> None:  # type: ignore[no-untyped-def]
        if isinstance(st.value, ast.Constant):
            return
        self.ev(st.value, env)

    def ex_Pass(self, st, env) -> None:  # type: ignore[no-untyped-def]
        return

    def ex_Assert(self, st, env) -> None:  # type: ignore[no-untyped-def]
        return

    def ex_ImportFrom(self, st, env) -> None:  # type: ignore[no-untyped-def]
        for a in st.names:
            env[-1][a.asname or a.name] = U(a.name)

    def ex_Import(self, st, env) -> None:  # type: ignore[no-untyped-def]
        return

    def assign(self, tg: ast.expr, v: t.Any, env) -> None:  # type: ignore[no-untyped-def]
        if isinstance(tg, ast.Name):
            env[-1][tg.id] = v
        elif isinstance(tg, (ast.Tuple, ast.List)):
            items: list[t.Any]
            if isinstance(v, ListV) and len(v.items) == len(tg.elts):
                items = v.items
            elif isinstance(v, K) and isinstance(v.v, tuple) and len(v.v) == len(tg.elts):
                items = [K(x) for x in v.v]
            else:
                items = [U(f"{self.label(v)}[{i}]") for i in range(len(tg.elts))]
            for t_, it in zip(tg.elts, items):
                self.assign(t_, it, env)
        elif isinstance(tg, ast.Attribute):
            if isinstance(tg.value, ast.Name) and tg.value.id == "self":
                self.selfattrs[tg.attr] = v
                return
            base = self.ev(tg.value, env)
            if isinstance(base, Obj):
                base.attrs[tg.attr] = v
                self.emit("setattr", base.label, tg.attr, self.label(v), tg.lineno)
        elif isinstance(tg, ast.Subscript):
            base = self.ev(tg.value, env)
            idx = self.ev(tg.slice, env) if not isinstance(tg.slice, ast.Slice) else None
            if isinstance(base, DictV) and isinstance(idx, K):
                base.d[idx.v] = v
            elif isinstance(base, ListV) and isinstance(idx, K) and isinstance(idx.v, int):
                try:
                    base.items[idx.v] = v
                except IndexError:
                    pass

    def ex_Assign(self, st: ast.Assign, env) -> None:  # type: ignore[no-untyped-def]
        v = self.ev(st.value, env)
        for tg in st.targets:
            self.assign(tg, v, env)

    def ex_AnnAssign(self, st: ast.AnnAssign, env) -> None:  # type: ignore[no-untyped-def]
        if st.value is not None:
            self.assign(st.target, self.ev(st.value, env), env)

    def ex_AugAssign(self, st: ast.AugAssign, env) -> None:  # type: ignore[no-untyped-def]
        cur = self.ev(st.target, env)  # type: ignore[arg-type]
        val = self.ev(st.value, env)
        if isinstance(cur, K) and isinstance(val, K) and isinstance(st.op, ast.Add):
            try:
                self.assign(st.target, K(cur.v + val.v), env)
                return
            except Exception:
                pass
        if isinstance(st.op, ast.Add) and isinstance(cur, (S, K)) and isinstance(val, (S, K, U)):
            self.assign(st.target, S(list(self.tostr(cur).parts) + list(self.tostr(val).parts)), env)
            return
        self.assign(st.target, U(self.src(st.target) + "'"), env)

    def ex_Return(self, st: ast.Return, env) -> None:  # type: ignore[no-untyped-def]
        raise _Return(self.ev(st.value, env) if st.value is not None else K(None))

    def ex_Raise(self, st: ast.Raise, env) -> None:  # type: ignore[no-untyped-def]
        name = "reraise"
        if st.exc is not None:
            name = self.src(st.exc.func if isinstance(st.exc, ast.Call) else st.exc).split(".")[-1]
        raise _Raise(name)

    def ex_Break(self, st, env) -> None:  # type: ignore[no-untyped-def]
        raise _Break()

    def ex_Continue(self, st, env) -> None:  # type: ignore[no-untyped-def]
        raise _Continue()

    def ex_FunctionDef(self, st: ast.FunctionDef, env) -> None:  # type: ignore[no-untyped-def]
        env[-1][st.name] = Func(st, list(env))

    def ex_If(self, st: ast.If, env) -> None:  # type: ignore[no-untyped-def]
        if self.truth(self.ev(st.test, env), self.src(st.test)):
            self.exec_block(st.body, env)
        else:
            self.exec_block(st.orelse, env)

    def iterate(self, it: t.Any, st: ast.For) -> list[t.Any]:
        if isinstance(it, ListV):
            return list(it.items)
        if isinstance(it, K) and isinstance(it.v, (tuple, list, frozenset, set)):
            return [K(x) for x in (sorted(it.v) if isinstance(it.v, (set, frozenset)) else it.v)]
        if isinstance(it, DictV):
            return [K(k) for k in it.d]
        lid = f"loop@{st.lineno}"
        if isinstance(it, Obj) and it.kind == "enumerate":
            inner = self.iterate(it.attrs["of"], st)
            return [ListV([K(i), x]) for i, x in enumerate(inner)]
        if isinstance(it, Obj) and it.kind == "zip":
            cols = [self.iterate(a, st) for a in it.attrs["of"]]
            n = min(len(c) for c in cols) if cols else 0
            return [ListV([c[i] for c in cols]) for i in range(n)]
        n = self.o.choose(f"len({self.label(it)})", self.loop_max + 1)
        if isinstance(it, NodeList):
            return [NodeV(f"{it.label}[{i}]", it.elem) for i in range(n)]
        return [U(f"{self.label(it)}[{i}]") for i in range(n)]

    def ex_For(self, st: ast.For, env) -> None:  # type: ignore[no-untyped-def]
        it = self.ev(st.iter, env)
        items = self.iterate(it, st)
        broke = False
        for item in items:
            self.assign(st.target, item, env)
            try:
                self.exec_block(st.body, env)
            except _Break:
                broke = True
                break
            except _Continue:
                continue
        if not broke:
            self.exec_block(st.orelse, env)

    def ex_While(self, st, env) -> None:  # type: ignore[no-untyped-def]
        raise Unsupported("while loop in a code generator method")

    def ex_With(self, st: ast.With, env) -> None:  # type: ignore[no-untyped-def]
        mgrs = []
        for item in st.items:
            v = self.ev(item.context_expr, env)
            if isinstance(v, Obj) and v.kind == "ctxmgr":
                fn = v.attrs["fn"]
                idx = [i for i, s in enumerate(fn.body) if isinstance(s, ast.Expr) and isinstance(s.value, ast.Yield)]
                if len(idx) != 1:
                    raise Unsupported("context manager without a single top-level yield")
                self.exec_block(fn.body[: idx[0]], v.attrs["env"])
                mgrs.append((fn, idx[0], v.attrs["env"]))
            if item.optional_vars is not None:
                self.assign(item.optional_vars, U("ctx"), env)
        self.exec_block(st.body, env)
        for fn, i, cenv in reversed(mgrs):
            self.exec_block(fn.body[i + 1:], cenv)

    MAY_RAISE = {
        "IndexError": ("subscript",), "KeyError": ("subscript",), "LookupError": ("subscript",),
        "Impossible": ("as_const",), "Exception": ("as_const",),
    }

    def stmt_may_raise(self, st: ast.stmt, kinds: set[str]) -> bool:
        for n in ast.walk(st):
            if "subscript" in kinds and isinstance(n, ast.Subscript) and isinstance(n.ctx, ast.Load) and not isinstance(n.slice, ast.Slice):
                return True
            if "as_const" in kinds and isinstance(n, ast.Call) and isinstance(n.func, ast.Attribute) and n.func.attr in ("as_const", "_output_child_to_const"):
                return True
        return False

    def ex_Try(self, st: ast.Try, env) -> None:  # type: ignore[no-untyped-def]
        hnames: list[list[str]] = []
        for h in st.handlers:
            if h.type is None:
                hnames.append(["BaseException"])
            elif isinstance(h.type, ast.Tuple):
                hnames.append([self.src(x).split(".")[-1] for x in h.type.elts])
            else:
                hnames.append([self.src(h.type).split(".")[-1]])
        kinds: set[str] = set()
        for names in hnames:
            for n in names:
                kinds.update(self.MAY_RAISE.get(n, ()))

        def handler_for(exc: str) -> int | None:
            for i, names in enumerate(hnames):
                if exc in names or "BaseException" in names or ("Exception" in names and exc not in ("CompilerExit_",)) :
                    if exc in names or "Exception" in names or "BaseException" in names:
                        return i
                if exc in ("IndexError", "KeyError") and "LookupError" in names:
                    return i
            return None

        try:
            try:
                for s in st.body:
                    if kinds and self.stmt_may_raise(s, kinds):
                        if not self.decide_fresh(f"raises@{s.lineno}"):
                            pass
                        else:
                            raise _Raise("IndexError" if "subscript" in kinds and not ({"as_const"} & kinds) else "Impossible")
                    self.exec(s, env)
            except _Raise as r:
                i = handler_for(r.name)
                if i is None:
                    raise
                h = st.handlers[i]
                if h.name:
                    env[-1][h.name] = U(h.name)
                self.exec_block(h.body, env)
            else:
                self.exec_block(st.orelse, env)
        finally:
            if st.finalbody:
                self.exec_block(st.finalbody, env)

    def decide_fresh(self, label: str) -> bool:
        """A choice that is independent per occurrence (not memoised by label): default = no raise."""
        self.uid += 1
        return self.o.choose(f"{label}#{self.uid}", 2, memo=False) == 1


# ------------------------------------------------------------------------- model
class EmitModel:
    def __init__(self, repo: Repo, gen_class: str = "compiler:CodeGenerator") -> None:
        repo = getattr(repo, "raw", repo)  # the interpreter reads the code as written
        self.repo = repo
        self.cls = repo.cls(gen_class)
        self.mro = repo.mro(self.cls)
        self.node_classes = {c.name: c for c in repo.classes("nodes")}
        self._globals_cache: dict[str, t.Any] = {}
        self._method_cache: dict[str, Func | None] = {}

    # ---- resolution
    def method(self, name: str) -> Func | None:
        if name in self._method_cache:
            return self._method_cache[name]
        f: Func | None = None
        for c in self.mro:
            if name in c.methods:
                f = Func(c.methods[name], [], owner=c)
                break
            if name in c.assigns:
                break
        self._method_cache[name] = f
        return f

    def nested_class(self, src: str) -> ast.ClassDef | None:
        name = src.split(".")[-1]
        for c in self.mro:
            for st in c.node.body:
                if isinstance(st, ast.ClassDef) and st.name == name:
                    return st
        return None

    def global_value(self, name: str) -> t.Any:
        if name in self._globals_cache:
            return self._globals_cache[name]
        v: t.Any = None
        for c in self.mro:
            m = c.module
            if name in m.assigns:
                try:
                    v = K(self.repo.eval_const(m.assigns[name], m))
                except Exception:
                    v = None
                if isinstance(v, K) and isinstance(v.v, dict):
                    v = DictV({k: K(x) for k, x in v.v.items()})
                break
            if name in m.defs and isinstance(m.defs[name], (ast.FunctionDef,)):
                d = m.defs[name]
                if name in ("find_undeclared", "has_safe_repr", "generate", "optimizeconst", "_make_binop", "_make_unop"):
                    v = None
                break
            imp = m.imports.get(name)
            if imp and imp[0].startswith(".") and imp[1]:
                mm = self.repo.modules.get(imp[0].lstrip("."))
                if mm and imp[1] in mm.assigns:
                    try:
                        v = K(self.repo.eval_const(mm.assigns[imp[1]], mm))
                    except Exception:
                        v = None
                break
        self._globals_cache[name] = v
        return v

    def is_node_class(self, name: str) -> bool:
        return name in self.node_classes

    def node_mro(self, name: str) -> list[str]:
        ci = self.node_classes.get(name)
        if ci is None:
            return []
        return [c.name for c in self.repo.mro(ci)]

    def node_field_ann(self, cls: str | None, attr: str) -> str | None:
        if cls is None:
            return None
        for c in self.node_mro(cls):
            ci = self.node_classes[c]
            if attr in ci.annotations:
                return ast.unparse(ci.annotations[attr])
        return None

    # ---- entries
    def visitor_entries(self) -> dict[str, tuple[str, t.Any]]:
        """visit_X -> ('def', FunctionDef) | ('maker', (maker name, op))"""
        out: dict[str, tuple[str, t.Any]] = {}
        for c in reversed(self.mro):
            for name, fn in c.methods.items():
                if name.startswith("visit_"):
                    out[name] = ("def", (fn, c))
            for name, val in c.assigns.items():
                if name.startswith("visit_") and isinstance(val, ast.Call) and isinstance(val.func, ast.Name):
                    out[name] = ("maker", (val.func.id, val, c))
        return out

    def run_paths(self, entry: str, summarise: set[str] | None = None, loop_max: int = 1, preset: dict[str, t.Any] | None = None,
                  args: dict[str, t.Any] | None = None, max_paths: int = MAX_PATHS) -> list[Path]:
        entries = self.visitor_entries()
        kind, payload = entries.get(entry, (None, None))
        helper = None
        if kind is None:
            helper = self.method(entry)
            if helper is None:
                raise AnalysisError(f"anchor vanished: {self.cls.name}.{entry}")
        preset = dict(preset or {})
        preset.setdefault("self._finalize is not None", False)
        summ = SUMMARISED if summarise is None else summarise
        paths: list[Path] = []
        forced: list[int] = []
        while True:
            oracle = Oracle(forced, preset)
            it = Interp(self, oracle, set(summ) - {entry} - INLINE_FOR.get(entry, set()), loop_max)
            outcome = "normal"
            Obj._n = 0
            try:
                if kind == "def":
                    fn, owner = payload
                    self._call_entry(it, fn, owner, entry, args)
                elif kind == "maker":
                    mk, call, owner = payload
                    self._call_maker(it, mk, call, entry, args)
                else:
                    assert helper is not None
                    self._call_entry(it, helper.node, helper.owner, entry, args)
            except _Raise as r:
                outcome = {"TemplateAssertionError": "fail"}.get(r.name, r.name if r.name == "CompilerExit" else f"raise:{r.name}")
            except _Return:
                pass
            except (_Break, _Continue):
                outcome = "raise:loopctl"
            except _Abort:
                raise AnalysisError(f"emission model: step limit in {entry}") from None
            except Unsupported as e:
                raise AnalysisError(f"emission model: unsupported construct in {entry}: {e}") from None
            decisions = {lab: (c if (n != 2 or (lab.startswith("len(") and lab.endswith(")") and " == " not in lab)) else c == 0) for lab, n, c in oracle.trace}
            paths.append(Path(it.events, decisions, outcome, it.indent))
            if len(paths) > max_paths:
                raise AnalysisError(f"emission model: more than {max_paths} paths in {entry}")
            # next forced prefix
            tr = oracle.trace
            i = len(tr) - 1
            while i >= 0 and tr[i][2] >= tr[i][1] - 1:
                i -= 1
            if i < 0:
                break
            forced = [c for _, _, c in tr[:i]] + [tr[i][2] + 1]
        return paths

    def _default_args(self, fn: ast.AST, entry: str) -> dict[str, t.Any]:
        a = fn.args  # type: ignore[attr-defined]
        out: dict[str, t.Any] = {}
        params = a.posonlyargs + a.args
        defaults = dict(zip([p.arg for p in params][len(params) - len(a.defaults):], a.defaults))
        for p in params[1:] if params and params[0].arg in ("self", "cls") else params:
            ann = ast.unparse(p.annotation) if p.annotation is not None else ""
            core = ann.replace('"', "").replace("'", "")
            if p.arg == "frame" or "Frame" in core:
                fr = Obj("Frame", {}, "frame")
                fr.attrs["eval_ctx"] = Obj("EvalCtx", {"volatile": U("frame.eval_ctx.volatile", "bool"), "autoescape": U("frame.eval_ctx.autoescape", "bool")}, "frame.eval_ctx")
                fr.attrs["buffer"] = U("frame.buffer")
                out[p.arg] = fr
            elif "nodes." in core:
                names = [x.strip().split(".")[-1] for x in core.replace("t.Union[", "").replace("]", "").split("|")]
                cls = names[0] if len(names) == 1 else self._common_base(names)
                out[p.arg] = NodeV(p.arg, cls)
            elif p.arg in defaults:
                try:
                    out[p.arg] = K(ast.literal_eval(defaults[p.arg]))
                except Exception:
                    out[p.arg] = U(p.arg)
                if core.startswith("bool"):
                    out[p.arg] = U(p.arg, "bool")
            else:
                out[p.arg] = U(p.arg)
        return out

    def _common_base(self, names: list[str]) -> str | None:
        mros = [self.node_mro(n) for n in names if self.is_node_class(n)]
        if not mros:
            return None
        for c in mros[0]:
            if all(c in m for m in mros):
                return c
        return None

    def _call_entry(self, it: Interp, fn: ast.AST, owner: ClassInfo | None, entry: str, args: dict[str, t.Any] | None) -> None:
        local = self._default_args(fn, entry)
        if args:
            local.update(args)
        decos = [ast.unparse(d) for d in fn.decorator_list]  # type: ignore[attr-defined]
        it.stack.append(entry)
        if "optimizeconst" in decos and it.decide("optimizer folds this node"):
            it.emit("visit", "folded(node)", "frame", "expr", fn.lineno, {})  # type: ignore[attr-defined]
            return
        if "contextmanager" in decos:
            idx = [i for i, s in enumerate(fn.body) if isinstance(s, ast.Expr) and isinstance(s.value, ast.Yield)]  # type: ignore[attr-defined]
            it.exec_block(fn.body[: idx[0]], [local])  # type: ignore[attr-defined]
            it.emit("w", S([Hole("raw", "with-body")]), fn.lineno)  # type: ignore[attr-defined]
            it.exec_block(fn.body[idx[0] + 1:], [local])  # type: ignore[attr-defined]
            return
        try:
            it.exec_block(fn.body, [local])  # type: ignore[attr-defined]
        except _Return:
            pass

    def _call_maker(self, it: Interp, maker: str, call: ast.Call, entry: str, args: dict[str, t.Any] | None) -> None:
        mfn = self.cls.module.defs.get(maker)
        if not isinstance(mfn, ast.FunctionDef):
            raise AnalysisError(f"anchor vanished: {maker}")
        closure = {p.arg: it.ev(a, [{}]) for p, a in zip(mfn.args.args, call.args)}
        inner = [s for s in mfn.body if isinstance(s, ast.FunctionDef)]
        if len(inner) != 1:
            raise AnalysisError(f"{maker}: inner visitor not found")
        fn = inner[0]
        local = self._default_args(fn, entry)
        if args:
            local.update(args)
        it.stack.append(entry)
        decos = [ast.unparse(d) for d in fn.decorator_list]
        if "optimizeconst" in decos and it.decide("optimizer folds this node"):
            it.emit("visit", "folded(node)", "frame", "expr", fn.lineno, {})
            return
        try:
            it.exec_block(fn.body, [closure, local])
        except _Return:
            pass


# --------------------------------------------------------------------- rendering
class Skeleton:
    def __init__(self, text: str, holes: list[Hole], visits: list[tuple], kind: str) -> None:
        self.text = text
        self.holes = holes
        self.visits = visits
        self.kind = kind
        self.tree: ast.AST | None = None
        self.error: str | None = None


def render(path: Path, base_indent: int = 1) -> Skeleton:
    """Events -> Python text.  Holes become identifiers / string literals; visit holes
    ``__E<i>__`` (expression) or a ``__S<i>__`` line (statement)."""
    lines: list[str] = []
    cur: list[str] | None = None
    indent = base_indent
    pending = False
    holes: list[Hole] = []
    visits: list[tuple] = []

    def flush_start() -> None:
        nonlocal cur, pending
        if cur is not None:
            lines.append("".join(cur))
        cur = ["    " * max(indent, 0)]
        pending = False

    first = True
    for ev in path.events:
        k = ev[0]
        if k == "nl":
            pending = True
        elif k == "ind":
            indent += ev[1]
        elif k == "w":
            if pending or cur is None:
                flush_start()
            assert cur is not None
            for p in ev[1].parts:
                if isinstance(p, str):
                    cur.append(p)
                else:
                    holes.append(p)
                    i = len(holes)
                    if p.label.startswith("operators["):
                        cur.append("<")
                    elif p.kind == "repr":
                        cur.append(f"'__r{i}__'")
                    elif p.kind == "ident":
                        cur.append(f"__i{i}__")
                    elif p.kind == "tmpl":
                        cur.append(f"__t{i}__")
                    else:
                        cur.append(f"__h{i}__")
            first = False
        elif k == "visit":
            visits.append(ev)
            i = len(visits)
            if ev[3] == "stmt":
                if cur is not None:
                    lines.append("".join(cur))
                cur = ["    " * max(indent, 0) + f"__S{i}__"]
                pending = True
            else:
                if pending or cur is None:
                    # an expression visited at a line start (e.g. newline(); visit(target))
                    if cur is None or pending:
                        flush_start()
                assert cur is not None
                cur.append(f"__E{i}__")
    if cur is not None:
        lines.append("".join(cur))
    return Skeleton("\n".join(lines), holes, visits, "stmt")


EXPR_WRAP = {
    "visit_Keyword": "__f__({})",
    "visit_Slice": "__x__[{}]",
    "visit_Operand": "(__x__ {})",
    "visit_Pair": "{{{}}}",
}


def parse_skeleton(sk: Skeleton, entry: str, is_stmt: bool) -> None:
    txt = sk.text
    try:
        if is_stmt:
            src = "async def __w__():\n" + (txt if txt.strip() else "    pass") + "\n"
            sk.tree = ast.parse(src)
        else:
            body = txt.strip()
            wrap = EXPR_WRAP.get(entry, "({})")
            sk.tree = ast.parse(wrap.format(body) if body else "None", mode="eval")
    except SyntaxError as e:
        sk.error = f"{type(e).__name__}: {e.msg} (line {e.lineno})"
