"""Markup trust inventory (shared by C15, C16, C24): every ``Markup(...)`` construction in the
package is classified and the class is verified mechanically with the trust flow."""

from __future__ import annotations

import ast

from . import astq
from .core import Ctx
from .trust import Trust

# (module, function) -> (class, trusted parameters, trusted calls/attributes, reason)
SITES = {
    ("filters", "do_mark_safe"): ("explicit-safe-api", ["value"], [], "the `safe` filter: the template author marks the value safe"),
    ("nodes", "MarkSafe.as_const"): ("explicit-safe-api", [], ["as_const"], "MarkSafe node (extension API): explicit marking"),
    ("nodes", "MarkSafeIfAutoescape.as_const"): ("explicit-safe-api", [], ["as_const"], "MarkSafeIfAutoescape node (i18n): translations count as template text"),
    ("nodes", "TemplateData.as_const"): ("template-text", [], ["self.data"], "literal template text"),
    ("ext", "_make_new_gettext.gettext"): ("template-text", [], ["call"], "translation of a template string (counts as template text)"),
    ("ext", "_make_new_ngettext.ngettext"): ("template-text", [], ["call"], "translation of a template string"),
    ("ext", "_make_new_pgettext.pgettext"): ("template-text", [], ["call"], "translation of a template string"),
    ("ext", "_make_new_npgettext.npgettext"): ("template-text", [], ["call"], "translation of a template string"),
    ("environment", "TemplateModule.__html__"): ("rendered-output", [], ["concat"], "the rendered body of the template"),
    ("runtime", "BlockReference._async_call"): ("rendered-output", [], ["concat"], "rendered block"),
    ("runtime", "BlockReference.__call__"): ("rendered-output", [], ["concat"], "rendered block"),
    ("runtime", "Macro._async_invoke"): ("rendered-output", [], ["_func", "self._func"], "rendered macro body"),
    ("runtime", "Macro._invoke"): ("rendered-output", [], ["_func", "self._func"], "rendered macro body"),
    ("runtime", "markup_join"): ("sanitised", [], [], "empty literal used as joiner (join escapes its arguments)"),
    ("utils", "generate_lorem_ipsum"): ("sanitised", [], [], "words escaped before wrapping in <p>"),
    ("utils", "htmlsafe_json_dumps"): ("sanitised-json", [], [], "JSON with < > & ' replaced by unicode escapes (checked by C24.R2)"),
    ("filters", "do_xmlattr"): ("sanitised", [], [], "keys validated, keys and values escaped"),
    ("filters", "do_urlize"): ("sanitised", [], [], "urlize() escapes its input first (summary of utils.urlize)"),
    ("filters", "do_indent"): ("sanitised", [], [], "indentation must be escaped / literal"),
    ("filters", "do_striptags"): ("method-use", ["value"], [], "Markup(...) only used to call .striptags(), result is plain text"),
}


def urlize_summary(ctx: Ctx) -> tuple[bool, str]:
    fi = ctx.repo.func("utils:urlize")
    tr = Trust(fi.node)
    ok = tr.function_returns_trusted()
    why = ""
    if not ok:
        for r in astq.returns(fi.node):
            if r.value is not None and not tr.trust(r.value):
                why = tr.why(r.value)
        low = sorted(k for k, v in tr.names.items() if not v and k not in tr.params and ":" not in k)
        why = f"{why}; untrusted names: {low[:6]}"
    return ok, why


def markup_inventory(ctx: Ctx, rid: str) -> None:
    ctx.rule(rid, "Markup trust inventory: every Markup(...) construction is an explicit safe API, rendered output, template text, or wraps a value the trust flow proves escaped / literal; new construction sites are reported")
    repo = ctx.repo
    u_ok, u_why = urlize_summary(ctx)
    ctx.check(u_ok, "utils.urlize returns escaped text", "utils:urlize", "urlize returns unescaped data",
              f"utils.urlize's return value is not built exclusively from escaped input, literals and escaped attributes: {u_why} - the urlize filter wraps this string in Markup under autoescape, so raw context data reaches the output", "src/jinja2/utils.py",
              detail={"function": "utils.urlize", "returns_trusted": u_ok})
    n = 0
    for mod in sorted(repo.modules):
        m = repo.module(mod)
        for c in astq.calls(m.tree):
            if astq.callee(c) not in ("Markup", "markupsafe.Markup"):
                continue
            q = astq.enclosing_qual(c)
            n += 1
            site = SITES.get((mod, q))
            if site is None:
                ctx.bad(f"{mod}:{q}", f"unclassified Markup construction {ast.unparse(c)[:50]}",
                        f"{mod}.{q} constructs `{ast.unparse(c)[:80]}`: a new place where a string is marked safe without review - if its argument can contain context data, autoescaping is bypassed", f"{m.rel}:{c.lineno}")
                continue
            cls, tparams, tcalls, reason = site
            fn = c
            while fn is not None and not isinstance(fn, (ast.FunctionDef, ast.AsyncFunctionDef)):
                fn = getattr(fn, "_parent", None)
            assert fn is not None
            if cls == "sanitised-json":
                from .normalize import norm as _norm

                # normal form of the enclosing function: a replace loop over a table of pairs,
                # or step-by-step reassignments, are the chain of .replace() calls they spell out
                txts = [ast.unparse(c2) for c2 in astq.calls(_norm(fn)) if astq.callee(c2) in ("Markup", "markupsafe.Markup")] or [ast.unparse(c)]
                ok = all(all(f".replace('{ch}', " in txt for ch in "<>&") and ".replace(\"'\", " in txt for txt in txts)
                ctx.check(ok, f"{mod}:{q}", f"{mod}:{q}", "JSON not fully neutralised", "the JSON text marked safe must have <, >, & and ' replaced", f"{m.rel}:{c.lineno}")
                continue
            if cls == "method-use":
                par = getattr(c, "_parent", None)
                ok = isinstance(par, ast.Attribute) and par.attr == "striptags"
                ctx.check(ok, f"{mod}:{q}", f"{mod}:{q}", "Markup object escapes the function", "the Markup wrapper in do_striptags may only be used to call .striptags()", f"{m.rel}:{c.lineno}")
                continue
            summaries = {"urlize": u_ok}
            tr = Trust(fn, trusted_params=tparams, trusted_calls=tcalls, summaries=summaries)
            scope = tr.scope_of(c)
            ok = all(tr.trust(a, scope) for a in c.args)
            if not ok and cls == "rendered-output":
                # normal form: a local naming the trusted producer (`join = env.concat`) is
                # inlined, so the call is recognised by its real callee
                from .normalize import norm as _norm_ro

                nf = _norm_ro(fn)
                tr2 = Trust(nf, trusted_params=tparams, trusted_calls=tcalls, summaries=summaries)
                mk2 = [c2 for c2 in astq.calls(nf) if astq.callee(c2) in ("Markup", "markupsafe.Markup")]
                ok = bool(mk2) and all(tr2.trust(a, tr2.scope_of(c2)) for c2 in mk2 for a in c2.args)
            ctx.check(ok, f"{mod}:{q}:{ast.unparse(c)[:30]}", f"{mod}:{q}", f"{ast.unparse(c)[:40]} wraps unescaped data",
                      f"{mod}.{q}: `{ast.unparse(c)[:60]}` ({cls}: {reason}) - the argument is not proven escaped: {tr.why(c.args[0], scope) if c.args else ''} flows into it, so a plain string argument is emitted as markup",
                      f"{m.rel}:{c.lineno}", detail={"site": f"{mod}:{q}", "class": cls, "reason": reason})
    ctx.floor("Markup constructions", n, 20)
    # the other way to be trusted: escape() and Markup.join return an object's __html__()
    # verbatim.  Who defines it, and is its text free of unescaped data?
    html_ok = {
        ("runtime", "ChainableUndefined"): "returns str(self); str of this class and of Undefined is '' - no subclass in the package overrides __str__",
        ("environment", "TemplateModule"): "rendered output of the module, wrapped in Markup",
        ("filters", "HasHTML"): "typing protocol (TYPE_CHECKING only)",
    }
    nh = 0
    for mod in sorted(repo.modules):
        m = repo.module(mod)
        for cdef in [x for x in ast.walk(m.tree) if isinstance(x, ast.ClassDef)]:
            if not any(isinstance(f, (ast.FunctionDef, ast.AsyncFunctionDef)) and f.name == "__html__" for f in cdef.body):
                continue
            nh += 1
            why = html_ok.get((mod, cdef.name))
            ctx.check(why is not None, f"__html__:{mod}:{cdef.name}", f"{mod}:{cdef.name}", f"{cdef.name} defines __html__",
                      f"{mod}.{cdef.name} defines __html__: escape() and Markup.join() trust that text without escaping it. For a class whose string form (or that of a subclass, e.g. DebugUndefined's `{{{{ no such element: obj['<key>'] }}}}`) contains context data this emits raw markup under autoescape", f"{m.rel}:{cdef.lineno}", detail={"reason": why})
    # the reviewed ChainableUndefined case stays valid only while no subclass gives it a data-dependent string form
    for ci in repo.classes("runtime"):
        if any(c.name == "ChainableUndefined" for c in repo.mro(ci)[1:]):
            ctx.check("__str__" not in ci.methods, f"__html__:subclass:{ci.name}", f"runtime:{ci.name}", f"{ci.name} overrides __str__ below an __html__ definition", f"{ci.name} inherits ChainableUndefined.__html__ (= str(self)) but overrides __str__: its text is emitted unescaped", ci.loc())
    ctx.floor("__html__ definitions", nh, 2)
