"""Trust (escaping) flow for functions that build markup.

Lattice: a value is TRUSTED (True) when it is a string literal, the result of an escaping
call, rendered template output, or built from such values by concatenation, formatting,
joining, slicing, splitting and regex group extraction; everything else - parameters, results
of unknown calls, anything passed through ``unescape`` / ``striptags`` - is UNTRUSTED.
Names start TRUSTED and are lowered to the meet of all their assignments (fixpoint).  Numbers
(len, count, index arithmetic) are harmless and count as trusted.
"""

from __future__ import annotations

import ast
import typing as t

ESCAPERS = {"escape", "markupsafe.escape", "Markup.escape", "soft_escape"}
UNTRUST = {"unescape", "striptags", "html.unescape", "unquote"}
NUMERIC = {"len", "int", "range", "min", "max", "enumerate", "sum", "ord", "abs"}
STR_DERIVING = {"rstrip", "lstrip", "strip", "lower", "upper", "group", "groups", "start", "end", "split", "rsplit", "splitlines", "partition", "rpartition", "startswith",
                "endswith", "count", "index", "find", "rfind", "match", "search", "fullmatch", "span", "title", "capitalize", "center", "pop", "copy", "isdigit", "isspace"}
RE_FUNCS = {"re.split", "re.match", "re.search", "re.fullmatch", "re.findall"}


class Trust:
    def __init__(self, fn: ast.AST, trusted_params: t.Iterable[str] = (), trusted_calls: t.Iterable[str] = (), summaries: dict[str, bool] | None = None) -> None:
        self.fn = fn
        self.trusted_calls = set(trusted_calls)
        self.summaries = dict(summaries or {})
        self.names: dict[str, bool] = {}
        self.params: set[str] = set()
        self.inner: dict[str, ast.AST] = {}
        a = fn.args  # type: ignore[attr-defined]
        for p in a.posonlyargs + a.args + a.kwonlyargs:
            self.params.add(p.arg)
            self.names[p.arg] = p.arg in set(trusted_params)
        if a.vararg:
            self.names[a.vararg.arg] = False
        if a.kwarg:
            self.names[a.kwarg.arg] = False
        for n in ast.walk(fn):
            if isinstance(n, (ast.FunctionDef, ast.AsyncFunctionDef)) and n is not fn:
                self.inner[n.name] = n
                for p in n.args.args:
                    # nested helper parameters take the meet of the arguments at their call sites
                    self.names.setdefault(f"{n.name}:{p.arg}", True)
        self.solve()

    # ------------------------------------------------------------------
    def get(self, name: str, scope: str = "") -> bool:
        if scope and f"{scope}:{name}" in self.names:
            return self.names[f"{scope}:{name}"]
        return self.names.get(name, True)

    def lower(self, name: str, v: bool, scope: str = "") -> bool:
        key = f"{scope}:{name}" if scope and f"{scope}:{name}" in self.names else name
        old = self.names.get(key, True)
        new = old and v
        if key in self.params and not scope:
            return False
        self.names[key] = new
        return new != old

    def solve(self) -> None:
        for _ in range(12):
            changed = False
            for n in ast.walk(self.fn):
                scope = self.scope_of(n)
                if isinstance(n, ast.Assign):
                    v = self.trust(n.value, scope)
                    for tg in n.targets:
                        changed |= self.bind(tg, v, scope, n.value)
                elif isinstance(n, ast.AnnAssign) and n.value is not None:
                    changed |= self.bind(n.target, self.trust(n.value, scope), scope, n.value)
                elif isinstance(n, ast.AugAssign):
                    changed |= self.bind(n.target, self.trust(n.value, scope), scope, n.value)
                elif isinstance(n, (ast.For, ast.AsyncFor)):
                    changed |= self.bind(n.target, self.trust(n.iter, scope), scope, n.iter)
                elif isinstance(n, ast.comprehension):
                    changed |= self.bind(n.target, self.trust(n.iter, scope), scope, n.iter)
                elif isinstance(n, ast.Call) and isinstance(n.func, ast.Name) and n.func.id in self.inner:
                    callee = self.inner[n.func.id]
                    for p, a in zip(callee.args.args, n.args):  # type: ignore[attr-defined]
                        changed |= self.lower(p.arg, self.trust(a, scope), n.func.id)
                elif isinstance(n, ast.Call) and isinstance(n.func, ast.Attribute) and n.func.attr in ("append", "extend", "insert", "add") and isinstance(n.func.value, ast.Name) and n.args:
                    changed |= self.lower(n.func.value.id, self.trust(n.args[-1], scope), scope)
            if not changed:
                break

    def scope_of(self, n: ast.AST) -> str:
        cur = getattr(n, "_parent", None)
        while cur is not None and cur is not self.fn:
            if isinstance(cur, (ast.FunctionDef, ast.AsyncFunctionDef)):
                return cur.name
            cur = getattr(cur, "_parent", None)
        return ""

    def bind(self, tg: ast.expr, v: bool, scope: str, value: ast.expr | None = None) -> bool:
        if isinstance(tg, ast.Name):
            return self.lower(tg.id, v, scope)
        if isinstance(tg, (ast.Tuple, ast.List)):
            ch = False
            for e in tg.elts:
                ch |= self.bind(e, v, scope, value)
            return ch
        if isinstance(tg, ast.Subscript) and isinstance(tg.value, ast.Name):
            return self.lower(tg.value.id, v, scope)
        return False

    def trust(self, e: ast.expr | None, scope: str = "") -> bool:
        if e is None:
            return True
        if isinstance(e, ast.Constant):
            return True
        if isinstance(e, ast.Name):
            return self.get(e.id, scope)
        if isinstance(e, ast.JoinedStr):
            return all(self.trust(v.value, scope) for v in e.values if isinstance(v, ast.FormattedValue))
        if isinstance(e, ast.BinOp):
            return self.trust(e.left, scope) and self.trust(e.right, scope)
        if isinstance(e, ast.BoolOp):
            return all(self.trust(v, scope) for v in e.values)
        if isinstance(e, ast.IfExp):
            return self.trust(e.body, scope) and self.trust(e.orelse, scope)
        if isinstance(e, (ast.Compare, ast.UnaryOp)):
            return True
        if isinstance(e, (ast.Tuple, ast.List, ast.Set)):
            return all(self.trust(x, scope) for x in e.elts)
        if isinstance(e, ast.Dict):
            return all(self.trust(x, scope) for x in e.values)
        if isinstance(e, ast.Subscript):
            return self.trust(e.value, scope)
        if isinstance(e, ast.Starred):
            return self.trust(e.value, scope)
        if isinstance(e, ast.Attribute):
            txt = ast.unparse(e)
            if txt in self.trusted_calls:
                return True
            return self.trust(e.value, scope) if not (isinstance(e.value, ast.Name) and e.value.id in ("self", "cls")) else txt in self.trusted_calls
        if isinstance(e, (ast.ListComp, ast.GeneratorExp, ast.SetComp)):
            return self.trust(e.elt, scope)
        if isinstance(e, ast.Await):
            return self.trust(e.value, scope)
        if isinstance(e, ast.Call):
            f = ast.unparse(e.func)
            tail = f.split(".")[-1]
            if f in ESCAPERS or tail == "escape":
                return True
            if tail in UNTRUST or f in UNTRUST:
                return False
            if f in self.trusted_calls or tail in self.trusted_calls:
                return True
            if f in self.summaries:
                return self.summaries[f]
            if f in NUMERIC:
                return True
            if f in ("str", "soft_str", "list", "tuple", "sorted", "reversed", "iter", "next", "chain", "set", "dict"):
                return all(self.trust(a, scope) for a in e.args) if e.args else True
            if f in ("Markup", "markupsafe.Markup"):
                return all(self.trust(a, scope) for a in e.args)
            if f in RE_FUNCS:
                return all(self.trust(a, scope) for a in e.args[1:])
            if isinstance(e.func, ast.Name) and e.func.id in self.inner:
                return self.returns_trusted(self.inner[e.func.id], e.func.id)
            if isinstance(e.func, ast.Attribute):
                recv = self.trust(e.func.value, scope)
                if tail == "join":
                    return recv and all(self.trust(a, scope) for a in e.args)
                if tail == "replace":
                    return recv and all(self.trust(a, scope) for a in e.args)
                if tail in ("format", "format_map"):
                    return recv and all(self.trust(a, scope) for a in e.args) and all(self.trust(k.value, scope) for k in e.keywords)
                if tail in STR_DERIVING:
                    return recv
                if tail in ("items", "keys", "values", "get"):
                    return recv
            return False
        return False

    def returns_trusted(self, fn: ast.AST, scope: str) -> bool:
        ok = True
        for n in ast.walk(fn):
            if isinstance(n, ast.Return) and n.value is not None and self.scope_of(n) == scope:
                ok = ok and self.trust(n.value, scope)
        return ok

    def function_returns_trusted(self) -> bool:
        ok = True
        for n in ast.walk(self.fn):
            if isinstance(n, ast.Return) and n.value is not None and self.scope_of(n) == "":
                ok = ok and self.trust(n.value, "")
        return ok

    def why(self, e: ast.expr, scope: str = "") -> str:
        """First untrusted leaf of an expression (for the report)."""
        for n in ast.walk(e):
            if isinstance(n, ast.Name) and not self.get(n.id, scope):
                return f"`{n.id}` ({'parameter' if n.id in self.params else 'derived from untrusted data'})"
            if isinstance(n, ast.Call) and not self.trust(n, scope):
                inner = [x for x in ast.walk(n) if x is not n and isinstance(x, (ast.Name, ast.Call)) and not self.trust(x, scope)]  # type: ignore[arg-type]
                if not inner:
                    return f"`{ast.unparse(n)[:60]}`"
        return "an untrusted value"
