"""Static model of the lexer rule table.

``Lexer.__init__`` builds ``self.rules`` from string templates and environment options.  This
module reads that construction out of the source by *constant propagation over the function
body*: every ``environment.<attr>`` becomes an opaque, non-empty placeholder literal (or the
boolean of the configuration being examined), ``re.escape``/``e`` is applied for real,
``c(...)`` / ``_Rule(...)`` / ``OptionalLStrip(...)`` / ``Failure(...)`` become tagged tuples
and ``compile_rules`` is folded the same way.  Nothing of jinja2 is imported or executed.
"""

from __future__ import annotations

import ast
import re
import typing as t

from .srcmodel import AnalysisError
from .srcmodel import Module
from .srcmodel import NotConst
from .srcmodel import Repo

PH_L = ""
PH_R = ""


def placeholder(attr: str) -> str:
    return f"{PH_L}{attr}{PH_R}"


class Pat(t.NamedTuple):
    pattern: str
    flags: int
    origin: str  # name of a module-level regex or "inline"


class Rule(t.NamedTuple):
    pat: Pat
    tokens: t.Any  # str | tuple | ("OLS", ...) | (("FAIL", msg),)
    command: t.Any
    lineno: int


class LexModel:
    def __init__(self, repo: Repo, config: dict[str, t.Any]) -> None:
        self.repo = repo
        self.m: Module = repo.module("lexer")
        self.config = config
        self.env_reads: dict[str, set[str]] = {}
        self.rules: dict[str, list[Rule]] = {}
        self.locals: dict[str, t.Any] = {}
        self._build()

    # -------------------------------------------------------------- evaluation
    def _env_attr(self, attr: str, where: str) -> t.Any:
        self.env_reads.setdefault(where, set()).add(attr)
        if attr in self.config:
            return self.config[attr]
        return placeholder(attr)

    def _ev(self, node: ast.expr, env: dict[str, t.Any], where: str) -> t.Any:
        m = self.m
        if isinstance(node, ast.Attribute) and isinstance(node.value, ast.Name) and node.value.id == "environment":
            return self._env_attr(node.attr, where)
        if isinstance(node, ast.Attribute) and ast.unparse(node) in ("re.escape",):
            return re.escape
        if isinstance(node, ast.Name) and node.id in env:
            return env[node.id]
        if isinstance(node, ast.Name) and node.id in m.assigns:
            v = m.assigns[node.id]
            # module level compiled regex
            if isinstance(v, ast.Call) and ast.unparse(v.func) == "re.compile":
                return self._module_regex(node.id)
            return self.repo.eval_const(v, m)
        if isinstance(node, ast.Name) and node.id == "name_re":
            return Pat("[A-Za-z_ª-\U0010ffff][A-Za-z_0-9ª-\U0010ffff]*", 0, "name_re")
        if isinstance(node, ast.Constant):
            return node.value
        if isinstance(node, ast.JoinedStr):
            out = ""
            for v in node.values:
                if isinstance(v, ast.Constant):
                    out += v.value
                else:
                    val = self._ev(v.value, env, where)  # type: ignore[attr-defined]
                    if not isinstance(val, (str, int)):
                        raise NotConst(f"f-string part {ast.unparse(v.value)}")  # type: ignore[attr-defined]
                    out += str(val)
            return out
        if isinstance(node, ast.BinOp) and isinstance(node.op, ast.Add):
            return self._ev(node.left, env, where) + self._ev(node.right, env, where)
        if isinstance(node, ast.IfExp):
            c = self._ev(node.test, env, where)
            return self._ev(node.body if c else node.orelse, env, where)
        if isinstance(node, ast.Compare) and len(node.ops) == 1:
            a = self._ev(node.left, env, where)
            b = self._ev(node.comparators[0], env, where)
            op = node.ops[0]
            if isinstance(op, ast.IsNot):
                return a is not b
            if isinstance(op, ast.Is):
                return a is b
            if isinstance(op, ast.Eq):
                return a == b
            if isinstance(op, ast.NotEq):
                return a != b
            raise NotConst("compare")
        if isinstance(node, ast.Tuple):
            return tuple(self._ev(e, env, where) for e in node.elts)
        if isinstance(node, ast.List):
            return [self._ev(e, env, where) for e in node.elts]
        if isinstance(node, ast.ListComp) and len(node.generators) == 1:
            g = node.generators[0]
            res = []
            for item in self._ev(g.iter, env, where):
                e2 = dict(env)
                self._bind(g.target, item, e2)
                if all(self._ev(c, e2, where) for c in g.ifs):
                    res.append(self._ev(node.elt, e2, where))
            return res
        if isinstance(node, ast.Subscript):
            base = self._ev(node.value, env, where)
            if isinstance(node.slice, ast.Slice):
                lo = self._ev(node.slice.lower, env, where) if node.slice.lower else None
                hi = self._ev(node.slice.upper, env, where) if node.slice.upper else None
                return base[lo:hi]
            return base[self._ev(node.slice, env, where)]
        if isinstance(node, ast.Call):
            fn = ast.unparse(node.func)
            if fn == "compile_rules":
                return self._compile_rules()
            args = [self._ev(a, env, where) for a in node.args]
            kw = {k.arg: self._ev(k.value, env, where) for k in node.keywords}
            if fn in ("e", "re.escape") or (isinstance(node.func, ast.Name) and env.get(node.func.id) is re.escape):
                return re.escape(args[0])  # (whatever the local alias of re.escape is called)
            if fn == "c":
                flags = env.get("__c_flags__", re.M | re.S)
                return Pat(args[0], flags, "inline")
            if fn == "_Rule":
                return Rule(self._as_pat(args[0]), args[1], args[2], node.lineno)
            if fn == "OptionalLStrip":
                return ("OLS",) + tuple(args)
            if fn == "Failure":
                return ("FAIL", args[0] if args else "")
            if fn == "len":
                a0 = args[0]
                if isinstance(a0, str) and a0.startswith(PH_L):
                    # opaque delimiter: its length is the configured sample length
                    return self.config.get("__len__", {}).get(a0, 2)
                return len(a0)
            if fn == "compile_rules":
                return self._compile_rules()
            if isinstance(node.func, ast.Attribute) and node.func.attr == "join" and isinstance(node.func.value, ast.Constant):
                return node.func.value.value.join(args[0])
            if fn == "sorted":
                return sorted(args[0], **kw)
            raise NotConst(f"call {fn}")
        if isinstance(node, ast.Dict):
            return {self._ev(k, env, where): self._ev(v, env, where) for k, v in zip(node.keys, node.values)}  # type: ignore[arg-type]
        raise NotConst(f"{type(node).__name__}: {ast.unparse(node)[:60]}")

    def _as_pat(self, v: t.Any) -> Pat:
        if isinstance(v, Pat):
            return v
        raise NotConst("rule pattern is not a compiled regex")

    def _bind(self, target: ast.expr, value: t.Any, env: dict) -> None:
        if isinstance(target, ast.Name):
            env[target.id] = value
        elif isinstance(target, (ast.Tuple, ast.List)):
            vals = list(value)
            for tg, v in zip(target.elts, vals):
                self._bind(tg, v, env)
        else:
            raise NotConst("bind")

    def _module_regex(self, name: str) -> Pat:
        v = self.m.assigns[name]
        assert isinstance(v, ast.Call)
        try:
            pat = self.repo.eval_const(v.args[0], self.m) if v.args else None
        except NotConst:
            pat = None
        if not isinstance(pat, str):
            # operator_re is an f-string over ``operators``
            if name == "operator_re":
                ops = self.repo.const("lexer:operators")
                pat = "(" + "|".join(re.escape(x) for x in sorted(ops, key=lambda x: -len(x))) + ")"
            else:
                raise NotConst(f"regex {name}")
        flags = 0
        for a in list(v.args[1:]) + [k.value for k in v.keywords if k.arg == "flags"]:
            for part in ast.unparse(a).split("|"):
                part = part.strip().replace("re.", "")
                flags |= int(getattr(re, part))
        return Pat(pat, flags, name)

    def module_regex(self, name: str) -> Pat:
        if name not in self.m.assigns:
            raise AnalysisError(f"anchor vanished: lexer.{name}")
        try:
            return self._module_regex(name)
        except NotConst as e:
            raise AnalysisError(f"lexer.{name} not evaluable: {e}") from None

    def _compile_rules(self) -> list[tuple[str, str]]:
        f = self.repo.func("lexer:compile_rules")
        env: dict[str, t.Any] = {}
        result = None
        for st in f.body:
            result = self._exec(st, env, "compile_rules")
            if result is not None:
                break
        if result is None:
            raise NotConst("compile_rules has no evaluable return")
        return result[0]

    def _exec(self, st: ast.stmt, env: dict, where: str) -> tuple | None:
        if isinstance(st, ast.Expr):
            v = st.value
            if isinstance(v, ast.Constant):
                return None
            if isinstance(v, ast.Call) and isinstance(v.func, ast.Attribute) and v.func.attr == "append" and isinstance(v.func.value, ast.Name):
                env[v.func.value.id].append(self._ev(v.args[0], env, where))
                return None
            raise NotConst(f"statement {ast.unparse(st)[:50]}")
        if isinstance(st, (ast.Assign, ast.AnnAssign)):
            value = st.value
            targets = st.targets if isinstance(st, ast.Assign) else [st.target]
            if value is None:
                return None
            # self.rules = {...}
            for tg in targets:
                if isinstance(tg, ast.Attribute) and isinstance(tg.value, ast.Name) and tg.value.id == "self":
                    if tg.attr == "rules":
                        self.rules = self._ev(value, env, where)
                    else:
                        try:
                            self.locals["self." + tg.attr] = self._ev(value, env, where)
                        except NotConst:
                            pass
                    return None
            val = self._ev(value, env, where)
            for tg in targets:
                self._bind(tg, val, env)
            return None
        if isinstance(st, ast.If):
            c = self._ev(st.test, env, where)
            for s in st.body if c else st.orelse:
                r = self._exec(s, env, where)
                if r is not None:
                    return r
            return None
        if isinstance(st, ast.For) and not st.orelse:
            # a loop over an evaluable sequence (the comprehension it could have been written as)
            for item in list(self._ev(st.iter, env, where)):
                self._bind(st.target, item, env)
                for s in st.body:
                    r = self._exec(s, env, where)
                    if r is not None:
                        return r
            return None
        if isinstance(st, ast.Return):
            return (self._ev(st.value, env, where),) if st.value is not None else (None,)
        if isinstance(st, ast.FunctionDef):
            # the local helper ``c``: record its flags
            if st.name == "c":
                for n in ast.walk(st):
                    if isinstance(n, ast.Call) and ast.unparse(n.func) == "re.compile" and len(n.args) > 1:
                        flags = 0
                        for part in ast.unparse(n.args[1]).split("|"):
                            flags |= int(getattr(re, part.strip().replace("re.", "")))
                        env["__c_flags__"] = flags
            return None
        raise NotConst(f"statement {type(st).__name__}")

    def _build(self) -> None:
        f = self.repo.func("lexer:Lexer.__init__")
        env: dict[str, t.Any] = {}
        try:
            for st in f.body:
                self._exec(st, env, "Lexer.__init__")
        except NotConst as e:
            raise AnalysisError(f"Lexer.__init__ rule table not evaluable: {e}") from None
        self.locals.update(env)
        if not isinstance(self.rules, dict) or not self.rules:
            raise AnalysisError("Lexer.__init__: self.rules literal not found")
        for k, v in self.rules.items():
            if not isinstance(v, list) or not all(isinstance(r, Rule) for r in v):
                raise AnalysisError(f"lexer state {k!r}: rules are not _Rule literals")


def configs() -> list[dict[str, t.Any]]:
    out = []
    for trim in (False, True):
        for ls, lc in ((True, True), (False, False)):
            cfg: dict[str, t.Any] = {"trim_blocks": trim, "lstrip_blocks": True, "keep_trailing_newline": False}
            if not ls:
                cfg["line_statement_prefix"] = None
            if not lc:
                cfg["line_comment_prefix"] = None
            out.append(cfg)
    return out


# ----------------------------------------------------------------- regex facts
def parse_re(p: Pat) -> t.Any:
    import re._parser as sp  # type: ignore[import-not-found]

    return sp.parse(p.pattern, p.flags)


def min_width(p: Pat) -> int:
    return int(parse_re(p).getwidth()[0])


def named_groups(p: Pat) -> list[str]:
    return list(parse_re(p).state.groupdict.keys())


def group_count(p: Pat) -> int:
    return int(parse_re(p).state.groups) - 1
