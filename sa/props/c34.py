"""C34 - native rendering returns native values as documented.

Decided statically: native_concat's case analysis - no output -> None, exactly one piece that
is not a string -> that object itself (untouched), otherwise the joined text parsed with
literal_eval(parse(..., mode="eval")) and returned as text when it is not a literal (handlers
for ValueError / SyntaxError / MemoryError) - and that a generator argument is re-chained
after peeking two items; NativeCodeGenerator's output hooks are balanced (pre writes the
finalize call exactly when post closes it) and its constants are only folded when their repr
is safe; NativeTemplate.render / render_async use the native concat and keep the async
dispatch; the environment class wires code generator, concat and template class together.
Also: Macro._invoke and Macro._async_invoke wrap the macro's value identically.  
Not decided: literal_eval's value for every text.
"""

from __future__ import annotations

import ast

from .. import astq
from ..cfg import guards_of
from ..cfg import handler_types
from ..core import Ctx
from ..emitrules import get_paths


def check(ctx: Ctx) -> str:
    ctx.use("nativetypes", "compiler", "environment")
    repo = ctx.repo
    nc = repo.func("nativetypes:native_concat")
    ctx.rule("R3", "native_concat: empty -> None; a single non-str piece is returned as is; otherwise the joined text goes through literal_eval(parse(mode='eval')) and is returned unparsed on ValueError / SyntaxError / MemoryError")
    s = ast.unparse(nc.node)
    ctx.check("head = list(islice(values, 2))" in s, "peek-two", "nativetypes:native_concat", "peek two items", "native_concat must look at the first two pieces to tell a single value from text", nc.loc())
    rets = astq.returns(nc.node)
    r_none = [r for r in rets if ast.unparse(r.value) == "None"]
    ctx.check(len(r_none) == 1 and astq.guard_atoms(nc.node, r_none[0]) == [("head", False)], "empty", "nativetypes:native_concat", "no output", "no output must give None", nc.loc())
    r_raw = [r for r in rets if ast.unparse(r.value) == "raw" and not astq.ancestors_handlers(r)]
    gs = astq.guard_atoms(nc.node, r_raw[0]) if r_raw else []
    ctx.check(len(r_raw) == 1 and sorted(gs) == sorted([("head", True), ("isinstance(raw, str)", False), ("len(head) == 1", True)]), "single-native", "nativetypes:native_concat", "single non-string value",
              f"a single piece that is not a string must be returned itself (guards found: {gs}); any other condition converts native values to text or returns text pieces unparsed", nc.loc(), detail={"guards": gs})
    ctx.check("raw = head[0]" in s, "single:first", "nativetypes:native_concat", "the single piece", "the single piece is head[0]", nc.loc())
    rech = [a for a in ast.walk(nc.nnode) if isinstance(a, ast.Assign) and ast.unparse(a.targets[0]) == "values" and ast.unparse(a.value) == "chain(head, values)"]
    joins = [a for a in ast.walk(nc.nnode) if isinstance(a, ast.Assign) and ast.unparse(a.targets[0]) == "raw" and isinstance(a.value, ast.Call) and ast.unparse(a.value.func) == "''.join" and len(a.value.args) == 1 and isinstance(a.value.args[0], (ast.ListComp, ast.GeneratorExp))]
    ok_re = len(rech) == 1 and ("isinstance(values, GeneratorType)", True) in astq.guard_atoms(nc.nnode, rech[0]) and len(joins) == 1 and (rech[0].lineno, rech[0].col_offset) < (joins[0].lineno, joins[0].col_offset)
    if ok_re:
        comp = joins[0].value.args[0]  # type: ignore[attr-defined]
        tv = ast.unparse(comp.generators[0].target)
        ok_re = len(comp.generators) == 1 and ast.unparse(comp.generators[0].iter) == "values" and not comp.generators[0].ifs and ast.unparse(comp.elt) == f"str({tv})"
    ctx.check(ok_re, "rechain", "nativetypes:native_concat", "generator re-chained", "after peeking, a generator must be re-chained with the peeked head before joining; all pieces are joined with str()", nc.loc())
    le = [c for c in astq.calls(nc.nnode) if astq.callee(c) == "literal_eval"]  # normal form: a local naming the parsed tree is inlined
    ok = len(le) == 1 and ast.unparse(le[0].args[0]).replace(" ", "") == "parse(raw,mode='eval')"
    ctx.check(ok, "literal_eval", "nativetypes:native_concat", "literal parsing", "the text must be parsed with literal_eval(parse(raw, mode='eval'))", nc.loc())
    hs = [h for h in ast.walk(nc.node) if isinstance(h, ast.ExceptHandler)]
    ok = len(hs) == 1 and handler_types(hs[0]) == {"ValueError", "SyntaxError", "MemoryError"} and ast.unparse(hs[0].body[0]) == "return raw"
    ctx.check(ok, "not-a-literal", "nativetypes:native_concat", "fallback to text", "text that is not a Python literal must be returned as text (ValueError, SyntaxError, MemoryError)", nc.loc())

    ctx.rule("R2", "NativeCodeGenerator: _output_child_pre writes the finalize call exactly when _output_child_post closes it; no str()/escape() wrapper; constants folded only with a safe repr; visit_Output skeletons parse (C01.R7)")
    ng = repo.cls("nativetypes:NativeCodeGenerator")
    pre, post = ng.methods.get("_output_child_pre"), ng.methods.get("_output_child_post")
    ctx.need(pre is not None and post is not None, "NativeCodeGenerator output hooks vanished")
    from ..normalize import norm as _n

    pre, post = _n(pre), _n(post)  # a local naming finalize.src is inlined; early return and if/else are one form
    pw = [c for c in astq.calls(pre) if astq.callee(c) == "self.write"]
    qw = [c for c in astq.calls(post) if astq.callee(c) == "self.write"]
    ok = len(pw) == 1 and len(qw) == 1 and ast.unparse(pw[0].args[0]) == "finalize.src" and ast.unparse(qw[0].args[0]) == "')'" \
        and astq.guard_atoms(pre, pw[0]) == [("finalize.src is None", False)] and astq.guard_atoms(post, qw[0]) == [("finalize.src is None", False)]
    ctx.check(ok, "hooks-balanced", "nativetypes:NativeCodeGenerator", "pre/post balance", "the native output hooks must open finalize.src and close it with ')' under the same condition, and write nothing else", ng.loc())
    res = get_paths(ctx, ["visit_Output"], "nativetypes:NativeCodeGenerator")
    n = 0
    for p, sk in res["visit_Output"]:
        if p.outcome != "normal":
            continue
        n += 1
        ctx.check(sk.error is None and "str(" not in sk.text and "escape(" not in sk.text.replace("autoescape", ""), f"native-output:{n}", "nativetypes:NativeCodeGenerator.visit_Output", "native output wrapped / unparseable", f"native visit_Output must emit the bare expressions:\n{sk.text[:200]}", "src/jinja2/nativetypes.py")
    ctx.floor("native visit_Output paths", n, 50)
    oc = ng.methods.get("_output_child_to_const")
    s = ast.unparse(oc) if oc is not None else ""
    ctx.check("if not has_safe_repr(const):\n        raise nodes.Impossible()" in s, "const:safe-repr", "nativetypes:NativeCodeGenerator._output_child_to_const", "safe repr gate", "native constants may only be folded when their repr is safe", ng.loc())
    df = ng.methods.get("_default_finalize")
    ctx.check(df is not None and ast.unparse(astq.returns(df)[0].value) == "value", "default_finalize", "nativetypes:NativeCodeGenerator._default_finalize", "identity finalize", "the native default finalize must return the value unchanged", ng.loc())
    cr = ng.methods.get("_output_const_repr")
    crv = astq.returns(_n(cr))[0].value if cr is not None else None
    cr_ok = False
    if isinstance(crv, ast.Call) and astq.callee(crv) == "repr" and len(crv.args) == 1 and isinstance(crv.args[0], ast.Call) and ast.unparse(crv.args[0].func) == "''.join" and isinstance(crv.args[0].args[0], (ast.ListComp, ast.GeneratorExp)):
        comp_ = crv.args[0].args[0]
        g_ = comp_.generators[0]
        cr_ok = len(comp_.generators) == 1 and not g_.ifs and ast.unparse(g_.iter) == "group" and ast.unparse(comp_.elt) == f"str({ast.unparse(g_.target)})"
    ctx.check(cr_ok, "const_repr", "nativetypes:NativeCodeGenerator._output_const_repr", "constant group repr", "a constant group is emitted as the repr of its joined text", ng.loc())

    ctx.rule("R1", "NativeTemplate.render / render_async join with the native concat and keep the async dispatch; NativeEnvironment wires code generator, concat and template class")
    nt = repo.cls("nativetypes:NativeTemplate")
    for meth in ("render", "render_async"):
        fn = nt.methods[meth]
        s = ast.unparse(_n(fn))  # locals naming the context / the concat hook are inlined
        ctx.check("self.environment_class.concat(" in s and "self.root_render_func(self.new_context(dict(*args, **kwargs)))" in s, f"{meth}:concat", f"nativetypes:NativeTemplate.{meth}", "native concat", f"{meth} must join the root generator's output with the native concat", nt.loc(fn))
    s = ast.unparse(nt.methods["render"])
    ctx.check("if self.environment.is_async:" in s and "self.render_async(*args, **kwargs)" in s, "render:dispatch", "nativetypes:NativeTemplate.render", "async dispatch", "NativeTemplate.render must run render_async in async environments", nt.loc())
    comps_ = [c_ for c_ in ast.walk(_n(nt.methods["render_async"])) if isinstance(c_, ast.ListComp) and len(c_.generators) == 1 and c_.generators[0].is_async and not c_.generators[0].ifs and ast.unparse(c_.generators[0].iter).startswith("self.root_render_func(") and ast.unparse(c_.elt) == ast.unparse(c_.generators[0].target)]
    ctx.check(len(comps_) == 1, "render_async:collect", "nativetypes:NativeTemplate.render_async", "collects all pieces", "render_async must collect every piece before joining", nt.loc())
    ne = repo.cls("nativetypes:NativeEnvironment")
    ctx.check(ast.unparse(ne.assigns.get("code_generator_class", ast.Constant(None))) == "NativeCodeGenerator" and ast.unparse(ne.assigns.get("concat", ast.Constant(None))) == "staticmethod(native_concat)", "env:wiring", "nativetypes:NativeEnvironment", "class attributes", "NativeEnvironment must use NativeCodeGenerator and native_concat", ne.loc())
    m = repo.module("nativetypes")
    ctx.check("NativeEnvironment.template_class = NativeTemplate" in m.src and ast.unparse(nt.assigns.get("environment_class", ast.Constant(None))) == "NativeEnvironment", "env:template", "nativetypes:<module>", "template class wiring", "NativeEnvironment.template_class and NativeTemplate.environment_class must point at each other", "src/jinja2/nativetypes.py")

    # a constant output child is turned into text at compile time only if its repr() is a
    # literal: otherwise the native value degrades to a string (rule shared with C08 / C01)
    from .c08 import r3_safe_repr

    r3_safe_repr(ctx, "R5")
    ctx.rule("R4", "who-may-use the plain string join: rendered pieces that become a *value* (block references `self.x()` / `super()`, generated code's `concat`) are joined with environment.concat, which is the native concat in a native environment; the bare utils.concat is used only at the reviewed text-only sites")
    allowed = {
        ("runtime", "markup_join"): "string concatenation operator `~` (always text)",
        ("runtime", "str_join"): "string concatenation operator `~` (always text)",
        ("environment", "TemplateModule.__html__"): "explicit text form of a module",
        ("environment", "TemplateModule.__str__"): "explicit text form of a module",
        ("environment", "TemplateStream._buffered_generator"): "streaming yields text chunks",
    }
    nsite = 0
    for mod in ("runtime", "environment", "async_utils"):
        m2 = repo.module(mod)
        for c in astq.calls(m2.tree):
            if astq.callee(c) != "concat":
                continue
            nsite += 1
            q = astq.enclosing_qual(c)
            ctx.check((mod, q) in allowed, f"concat:{mod}:{q}", f"{mod}:{q}", "joins rendered pieces with the plain string concat",
                      f"{mod}.{q} joins with the bare `concat` (''.join): in a NativeEnvironment a block reference / captured value that consists of one non-string piece must come back as that object (environment.concat = native_concat), and ''.join raises TypeError for it", f"{m2.rel}:{c.lineno}", detail={"site": f"{mod}:{q}", "reason": allowed.get((mod, q))})
    ctx.floor("plain concat sites", nsite, 4)
    br = repo.cls("runtime:BlockReference")
    for meth in ("__call__", "_async_call"):
        from ..normalize import norm as _norm

        s = ast.unparse(_norm(br.methods[meth]))  # a local naming self._context is inlined
        ctx.check("self._context.environment.concat(" in s, f"BlockReference.{meth}:env-concat", f"runtime:BlockReference.{meth}", "joins with environment.concat", f"BlockReference.{meth} must join the block's output with environment.concat", br.loc(br.methods[meth]))
    wc = repo.func("compiler:CodeGenerator.write_commons")
    ctx.check("concat = environment.concat" in ast.unparse(wc.node), "generated:concat", "compiler:CodeGenerator.write_commons", "generated code binds concat to environment.concat", "generated code must join buffers with environment.concat", wc.loc())
    # the module body replayed by `include ... without context` holds the root generator's
    # events themselves, not their text (rule owned by C10)
    from . import c10

    ctx.run_imported("C10", {"R1"}, c10.check)
    # a set block hands on what was captured, unconverted (rule owned by C15)
    from . import c15

    ctx.run_imported("C15", {"R6"}, c15.check)
    ctx.rule("R7", "Macro._invoke and Macro._async_invoke return the same thing: the macro's value wrapped in Markup under autoescape, the value itself otherwise (no text conversion on one side only)")
    ctx.use("runtime")
    wraps: dict[str, set[str]] = {}
    for fname in ("_invoke", "_async_invoke"):
        fi_ = repo.func(f"runtime:Macro.{fname}")
        w_: set[str] = set()
        rvs = {t_.id for a in ast.walk(fi_.node) if isinstance(a, ast.Assign) and "self._func(" in ast.unparse(a.value) for t_ in a.targets if isinstance(t_, ast.Name)}
        for a in list(ast.walk(fi_.node)):
            e_ = a.value if isinstance(a, (ast.Return, ast.Assign)) else None
            if e_ is None:
                continue
            for sub in (e_.body, e_.orelse) if isinstance(e_, ast.IfExp) else (e_,):
                if isinstance(a, ast.Assign) and not (isinstance(a.targets[0], ast.Name) and a.targets[0].id in rvs and any(isinstance(x, ast.Name) and x.id in rvs for x in ast.walk(sub))):
                    continue
                if isinstance(sub, ast.Call) and sub.args and any(isinstance(x, ast.Name) and x.id in rvs for x in ast.walk(sub.args[0])):
                    w_.add(astq.callee(sub))
                elif isinstance(sub, ast.Name) and sub.id in rvs and isinstance(a, ast.Return):
                    w_.add("<value>")
        wraps[fname] = w_
    ok = wraps["_invoke"] == wraps["_async_invoke"] == {"Markup", "<value>"}
    ctx.check(ok, "macro:invoke-twins", "runtime:Macro._async_invoke", f"sync returns {sorted(wraps['_invoke'])}, async returns {sorted(wraps['_async_invoke'])}",
              f"Macro._invoke returns {sorted(wraps['_invoke'])} and Macro._async_invoke {sorted(wraps['_async_invoke'])} (both must be Markup(value) under autoescape and the value itself otherwise): a text conversion on one side makes a native environment return the str() of a macro's value (a date, a list element) in that mode only",
              repo.func("runtime:Macro._async_invoke").loc())

    return __doc__ or ""
