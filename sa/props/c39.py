"""C39 - the raw token stream is lossless and line-accurate.

Decided statically: every token yielded by tokeniter carries the current line and is
followed by the line-count update for exactly its text; newlines removed by '-' are counted
once; the text handed out is the matched text except for the whitespace the control code
removes (rstrip / whitespace-only truncation, shared with C12); Environment.lex returns the
unfiltered stream; message extraction lexes the preprocessed source.
Not decided: concatenation equality over all sources.
"""

from __future__ import annotations

from ..core import Ctx
from ..lexrules import lstrip_rules, newline_rules, token_line_rules


def check(ctx: Ctx) -> str:
    ctx.use('lexer', 'environment', 'ext')
    token_line_rules(ctx, "R1")
    lstrip_rules(ctx, "R3")
    newline_rules(ctx, "R5")
    # Environment.lex uses self.lexer: the lexer must be the one for the environment's
    # *current* options (overlays, later attribute changes), never a memoised one
    from . import c13

    ctx.run_imported("C13", {"R3", "R6"}, c13.check)
    # the token stream equals the source minus control-removed whitespace only if the end rules
    # keep their newline inside the captured group and the sign is read from the right group
    from ..lexrules import end_rule_siblings
    from ..lexrules import sign_group_rule

    end_rule_siblings(ctx, "R6")
    sign_group_rule(ctx, "R7")
    return __doc__ or ""
