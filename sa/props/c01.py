"""C01 - every source compiles or fails with a template syntax error.

Decided statically: totality of dispatch (keywords, lexer states, token vocabulary, statement
arms), the classification of every ``raise`` on the compile path, guarded conversions of
token text, uniqueness obligations the emitted Python imposes on the parser, recursion
guards, and (engine E1) that every skeleton the code generator can emit parses as Python.
Also: no lexer regex is exponentially ambiguous (automaton criterion, all syntax configurations); text interpolated inside emitted string literals is identifier-valued; the dependency finder reaches every filter / test of a compilation unit; fold guards as a deny list, ints folded only when they convert to text; names Python refuses as keywords take the **{} form.  
Also: delimiter / prefix strings reach lexer patterns only through re.escape (a raw metacharacter would make re.compile raise re.error while loading).  
Not decided: that CPython accepts every *instantiated* skeleton, regex matching time.
"""

from __future__ import annotations

import ast

from .. import astq
from ..cfg import catches
from ..cfg import enclosing_try
from ..cfg import handler_types
from ..core import Ctx
from ..lexmodel import LexModel
from ..lexmodel import configs
from ..lexmodel import min_width
from ..lexmodel import named_groups
from ..lexmodel import parse_re
from ..srcmodel import walk_no_nested

SYNTAX_ERRORS = {"TemplateSyntaxError", "TemplateAssertionError"}
SIGNALS = {
    "CompilerExit": "caught by CodeGenerator.blockvisit",
    "VisitorExit": "caught by compiler.find_undeclared",
    "nodes.Impossible": "fold refusal, caught by Optimizer / visit_Output / as_const callers",
    "Impossible": "fold refusal, caught by Optimizer / visit_Output / as_const callers",
    "StopIteration": "iterator protocol of TokenStreamIterator",
}
# (module, function, exception) -> (max count, why it is outside the property or unreachable)
REVIEWED = {
    ("lexer", "Lexer.tokeniter", "RuntimeError"): (3, "unreachable: R2 proves state closure, named groups and progress"),
    ("parser", "Parser.subparse", "AssertionError"): (1, "unreachable: R4 proves the arms cover the root token set"),
    ("compiler", "generate", "TypeError"): (1, "API misuse: a non-Template node was passed (not a source string)"),
    ("compiler", "CodeGenerator.enter_frame", "NotImplementedError"): (1, "unreachable: load actions are the four idtracking constants (C03.R6)"),
    ("idtracking", "Symbols.ref", "AssertionError"): (1, "unreachable: C03.R7 field coverage"),
    ("idtracking", "RootVisitor.visit_For", "RuntimeError"): (1, "unreachable: for_branch is one of three literals (C03.R2)"),
    ("idtracking", "RootVisitor.generic_visit", "NotImplementedError"): (1, "unreachable: C03.R1 every analysed class has a RootVisitor method"),
    ("nodes", "get_eval_context", "RuntimeError"): (1, "API misuse: node without environment"),
    ("nodes", "Node.__init__", "TypeError"): (4, "API misuse: wrong node construction by an extension"),
    ("nodes", "InternalName.__init__", "TypeError"): (1, "API misuse"),
    ("nodes", "_failing_new", "TypeError"): (1, "API misuse: custom node types"),
    ("nodes", "NodeType.__new__", "AssertionError"): (0, "class creation time"),
    ("ext", "Extension.parse", "NotImplementedError"): (1, "abstract method of the extension API"),
    ("ext", "InternationalizationExtension._parse_block", "RuntimeError"): (1, "unreachable: same root token argument as R4 (data / variable_begin / block_begin / eos)"),
}


def check(ctx: Ctx) -> str:
    repo = ctx.repo
    ctx.use("lexer", "parser", "compiler", "idtracking", "nodes", "optimizer", "visitor", "ext")
    r1_keywords(ctx)
    vocab = r2_lexer_states(ctx)
    r3_vocabulary(ctx, vocab)
    r4_subparse_arms(ctx)
    r5_raises(ctx)
    r6_conversions(ctx)
    r8_recursion(ctx)
    r10_uniqueness(ctx)
    r13_emitted_literals(ctx)
    r14_dependency_finder(ctx)
    r15_regex_ambiguity(ctx)
    from ..emitrules import c01_skeleton_rules

    c01_skeleton_rules(ctx)
    # folded constants are written with repr(): only literal-evaluable values may pass
    # has_safe_repr, anything else is a host-language error in the generated module
    from .c08 import r0_fold_failures
    from .c08 import r3_safe_repr

    r3_safe_repr(ctx, "R11")
    r0_fold_failures(ctx, "R12", size_rule=True)
    # R5 accepts the AssertionError of Symbols.ref and the NotImplementedError of
    # enter_frame / RootVisitor.generic_visit as unreachable *because* the symbol analysis
    # covers exactly what the compiler visits: re-check those rules here
    from . import c03

    ctx.run_imported("C03", {"R1", "R7", "R6"}, c03.check)
    from ..lexrules import delimiters_escaped_rule

    delimiters_escaped_rule(ctx, "R16")
    return __doc__ or ""


# ------------------------------------------------------------------------- R1
def r1_keywords(ctx: Ctx) -> None:
    ctx.rule("R1", "every statement keyword has a Parser.parse_<kw>; call/filter arms and bundled extension tags resolve")
    repo = ctx.repo
    kws = repo.const("parser:_statement_keywords")
    ctx.need(isinstance(kws, (set, frozenset)) and kws, "_statement_keywords is not a set")
    pcls = repo.cls("parser:Parser")
    ps = repo.func("parser:Parser.parse_statement")
    # the dispatch must still be the getattr(self, f"parse_{...}") form guarded by the table
    gets = [c for c in astq.calls(ps.node, "getattr") if "parse_" in ast.unparse(c)]
    ctx.need(gets, "parse_statement no longer dispatches through getattr(self, 'parse_<kw>')")
    guarded = any("_statement_keywords" in g for g, pol in astq.guard_texts(ps.node, gets[0]) if pol)
    ctx.check(guarded, "dispatch guarded by table", "parser:Parser.parse_statement", "getattr dispatch unguarded",
              "getattr(self, f'parse_{kw}') is not dominated by `kw in _statement_keywords`", ps.loc(gets[0]))
    ctx.floor("statement keywords", len(kws), 12)
    for kw in sorted(kws):
        fi = repo.resolve_method(pcls, f"parse_{kw}")
        ctx.check(fi is not None, f"kw:{kw}", "parser:Parser.parse_statement", f"keyword {kw}",
                  f"keyword {kw!r} is in _statement_keywords but Parser.parse_{kw} does not exist (AttributeError at parse time)",
                  ps.loc(), detail={"keyword": kw, "method": f"parse_{kw}"})
    for special, meth in (("call", "parse_call_block"), ("filter", "parse_filter_block")):
        ctx.check(repo.resolve_method(pcls, meth) is not None and f"'{special}'" in ast.unparse(ps.node),
                  f"arm:{special}", "parser:Parser.parse_statement", f"arm {special}", f"{special} arm or {meth} missing", ps.loc())
    # bundled extensions: each declares tags and a parse method
    for ci in repo.classes("ext"):
        if ci.name == "Extension" or not any(b.name == "Extension" for b in repo.mro(ci)[1:]):
            continue
        tags = ci.assigns.get("tags")
        own_parse = repo.resolve_method(ci, "parse")
        ok = tags is not None and own_parse is not None and own_parse.cls is not None and own_parse.cls.name != "Extension"
        ctx.check(ok, f"ext:{ci.name}", f"ext:{ci.name}", "tags/parse", "bundled extension declares tags but inherits the abstract parse()", ci.loc())


# ------------------------------------------------------------------------- R2
def r2_lexer_states(ctx: Ctx) -> set[str]:
    ctx.rule("R2", "lexer state machine is closed: pushed states are keys of rules, #bygroup rules have named groups, nullable rules change state, failure rules are last")
    repo = ctx.repo
    raw_tokens: set[str] = set()
    n_rules = 0
    for cfg in configs():
        lm = LexModel(repo, cfg)
        states = set(lm.rules)
        ctx.need("root" in states, "no root state")
        cfgname = ",".join(f"{k}={v}" for k, v in sorted(cfg.items()))
        for state, rules in lm.rules.items():
            for idx, rule in enumerate(rules):
                n_rules += 1
                inst = f"{cfgname}|{state}[{idx}]"
                where = "lexer:Lexer.__init__"
                loc = f"{lm.m.rel}:{rule.lineno}"
                toks = rule.tokens
                groups = named_groups(rule.pat)
                bygroup = rule.command == "#bygroup" or (isinstance(toks, tuple) and "#bygroup" in toks)
                # pushed states
                if rule.command == "#bygroup":
                    missing = [g for g in groups if g not in states]
                    ctx.check(not missing, inst + ":push", where, f"state {state} rule {idx} push",
                              f"#bygroup can push state(s) {missing} that are not keys of self.rules (KeyError)", loc,
                              detail={"state": state, "named_groups": groups})
                elif rule.command not in (None, "#pop"):
                    ctx.check(rule.command in states, inst + ":push", where, f"state {state} rule {idx} push",
                              f"pushes unknown state {rule.command!r}", loc)
                if bygroup:
                    ctx.check(bool(groups), inst + ":groups", where, f"state {state} rule {idx} bygroup",
                              "#bygroup rule without a named group (RuntimeError at lex time)", loc)
                    # every alternative of the directive part must be a named group, else
                    # "no group matched" is reachable
                    ok = _all_alternatives_named(rule.pat)
                    ctx.check(ok, inst + ":alts", where, f"state {state} rule {idx} alternatives",
                              "#bygroup rule has an alternative outside every named group (RuntimeError reachable)", loc)
                # progress
                mw = min_width(rule.pat)
                if mw == 0:
                    ctx.check(rule.command is not None, inst + ":progress", where, f"state {state} rule {idx} nullable",
                              "rule can match the empty string without a state change (RuntimeError / no progress)", loc,
                              detail={"pattern": rule.pat.pattern[:60], "min_width": mw})
                # #pop on root would empty the stack
                if state == "root":
                    ctx.check(rule.command != "#pop", inst + ":rootpop", where, "root rule pops", "a root rule pops the state stack", loc)
                # token tuple arity == groups for tuple rules
                if isinstance(toks, tuple):
                    seq = toks[1:] if toks and toks[0] == "OLS" else toks
                    ngroups = parse_re(rule.pat).state.groups - 1
                    ctx.check(len([x for x in seq]) <= ngroups, inst + ":arity", where, f"state {state} rule {idx} arity",
                              f"{len(seq)} tokens but only {ngroups} groups (IndexError)", loc)
                    if toks and toks[0] == "OLS":
                        # the lstrip code reads groups[0] as text and groups[2::2] as sign groups
                        ctx.check(ngroups >= 3, inst + ":ols", where, f"state {state} rule {idx} lstrip groups",
                                  "OptionalLStrip rule without text/sign groups", loc)
                    for x in seq:
                        if isinstance(x, str) and not x.startswith("#"):
                            raw_tokens.add(x)
                elif isinstance(toks, str):
                    raw_tokens.add(toks)
                if rule.command == "#bygroup":
                    raw_tokens.update(groups)
            # a failure rule must be the last rule and match any single char
            for idx, rule in enumerate(rules):
                if isinstance(rule.tokens, tuple) and rule.tokens and isinstance(rule.tokens[0], tuple) and rule.tokens[0][0] == "FAIL":
                    ctx.check(idx == len(rules) - 1, f"{cfgname}|{state}:faillast", "lexer:Lexer.__init__", f"state {state} failure rule position",
                              "failure rule is not the last rule of its state", f"{lm.m.rel}:{rule.lineno}")
        # the two legal explicit start states
        ti = repo.func("lexer:Lexer.tokeniter")
        starts = set()
        for n in ast.walk(ti.node):
            if isinstance(n, ast.Assert) and "state in" in ast.unparse(n.test):
                s = astq.const_str_set(n.test.comparators[0])  # type: ignore[attr-defined]
                if s:
                    starts = s
        ctx.need(starts, "tokeniter no longer asserts the legal start states")
        for s in sorted(starts):
            ctx.check(s + "_begin" in states, f"{cfgname}|start:{s}", "lexer:Lexer.tokeniter", f"start state {s}",
                      f"start state {s!r} maps to {s}_begin which is not a lexer state", ti.loc())
    ctx.floor("lexer rules", n_rules, 4 * 28)
    # vocabulary after wrap()
    ignored = repo.const("lexer:ignored_tokens")
    ops = repo.const("lexer:operators")
    vocab = {t for t in raw_tokens if t not in ignored}
    vocab -= {"raw_begin", "raw_end", "operator"}
    vocab = {{"linestatement_begin": "block_begin", "linestatement_end": "block_end"}.get(t, t) for t in vocab}
    vocab |= set(ops.values()) | {"eof", "initial"}
    return vocab


def _all_alternatives_named(pat) -> bool:  # type: ignore[no-untyped-def]
    """In ``(.*?)(?:A|B|C)`` every top-level alternative of the directive group must be a
    named group (possibly followed by nothing)."""
    import re._constants as sc  # type: ignore[import-not-found]

    tree = parse_re(pat)
    names = {v: k for k, v in tree.state.groupdict.items()}
    items = list(tree)
    for op, av in items:
        if op is sc.SUBPATTERN and av[0] is None:
            # non capturing group
            inner = list(av[3])
            if len(inner) == 1 and inner[0][0] is sc.BRANCH:
                for alt in inner[0][1][1]:
                    alt = list(alt)
                    if not alt or alt[0][0] is not sc.SUBPATTERN or alt[0][1][0] not in names:
                        return False
                return True
        if op is sc.BRANCH:
            for alt in av[1]:
                alt = list(alt)
                if not alt or alt[0][0] is not sc.SUBPATTERN or alt[0][1][0] not in names:
                    return False
            return True
    # single alternative
    for op, av in items:
        if op is sc.SUBPATTERN and av[0] in names:
            return True
    return False


# ------------------------------------------------------------------------- R3
def _token_exprs(tree: ast.AST) -> list[tuple[str, ast.AST]]:
    out: list[tuple[str, ast.AST]] = []
    for n in ast.walk(tree):
        if isinstance(n, ast.Call) and isinstance(n.func, ast.Attribute) and n.func.attr in ("expect", "skip_if", "next_if", "test", "test_any"):
            recv = ast.unparse(n.func.value)
            if "stream" not in recv and "token" not in recv and "current" not in recv and "look()" not in recv:
                continue
            for a in n.args:
                if isinstance(a, ast.Constant) and isinstance(a.value, str):
                    out.append((a.value, n))
                elif isinstance(a, ast.Starred):
                    pass
        elif isinstance(n, ast.Compare) and len(n.ops) == 1:
            left = ast.unparse(n.left)
            if left.endswith(".type") or left in ("token_type",):
                comp = n.comparators[0]
                if isinstance(comp, ast.Name):
                    # a local naming the tuple of token types
                    src = [a for a in ast.walk(tree) if isinstance(a, ast.Assign) and len(a.targets) == 1 and isinstance(a.targets[0], ast.Name) and a.targets[0].id == comp.id]
                    if len(src) == 1:
                        comp = src[0].value
                if isinstance(comp, ast.Constant) and isinstance(comp.value, str):
                    out.append((comp.value, n))
                else:
                    s = astq.const_str_set(comp)
                    if s:
                        out.extend((x, n) for x in s)
        elif isinstance(n, ast.Tuple) and n.elts and all(isinstance(e, ast.Constant) and isinstance(e.value, str) and e.value.startswith("name:") for e in n.elts):
            out.extend((e.value, n) for e in n.elts)  # type: ignore[attr-defined]
    return out


def r3_vocabulary(ctx: Ctx, vocab: set[str]) -> None:
    ctx.rule("R3", "every token type the parser/ext test is producible by Lexer.wrap (no dead token string)")
    n = 0
    for mod in ("parser", "ext"):
        m = ctx.repo.module(mod)
        for expr, node in _token_exprs(m.tree):
            typ = expr.split(":", 1)[0]
            if astq.enclosing_qual(node).startswith("_CommentFinder"):
                continue  # works on the raw tokeniter stream, not on wrap() output
            n += 1
            ctx.check(typ in vocab, f"{mod}:{expr}:{getattr(node, 'lineno', 0)}", f"{mod}:{astq.enclosing_qual(node)}", f"token {expr}",
                      f"token expression {expr!r} tests type {typ!r}, which Lexer.wrap never produces (dead or misspelled branch)",
                      f"{m.rel}:{getattr(node, 'lineno', 0)}", detail={"expr": expr})
    ctx.floor("token tests", n, 150)
    # _compare_operators and _math_nodes keys are token types too
    for name in ("_compare_operators", "_math_nodes"):
        keys = ctx.repo.const_map(f"parser:{name}") if name == "_math_nodes" else ctx.repo.const(f"parser:{name}")
        for k in keys:
            ctx.check(k in vocab, f"{name}:{k}", "parser:<module>", f"{name}[{k}]", f"{name} key {k!r} is not a token type", "src/jinja2/parser.py")


# ------------------------------------------------------------------------- R4
def r4_subparse_arms(ctx: Ctx) -> None:
    ctx.rule("R4", "tokens the root lexer state can yield (after wrap) are covered by the arms of Parser.subparse")
    repo = ctx.repo
    sp = repo.func("parser:Parser.subparse")
    arms: set[str] = set()
    for n in ast.walk(sp.node):
        if isinstance(n, ast.Compare) and ast.unparse(n.left) == "token.type" and isinstance(n.comparators[0], ast.Constant):
            arms.add(n.comparators[0].value)
    ctx.need(arms, "subparse no longer dispatches on token.type")
    ignored = repo.const("lexer:ignored_tokens")
    for cfg in configs():
        lm = LexModel(repo, cfg)
        root = set()
        for rule in lm.rules["root"]:
            toks = rule.tokens
            seq = toks[1:] if isinstance(toks, tuple) and toks and toks[0] == "OLS" else (toks if isinstance(toks, tuple) else (toks,))
            for x in seq:
                if x == "#bygroup":
                    root.update(named_groups(rule.pat))
                elif isinstance(x, str):
                    root.add(x)
        root = {{"linestatement_begin": "block_begin"}.get(t, t) for t in root if t not in ignored and t not in ("raw_begin", "raw_end")}
        cfgname = ",".join(f"{k}={v}" for k, v in sorted(cfg.items()))
        for t_ in sorted(root):
            ctx.check(t_ in arms, f"{cfgname}:{t_}", "parser:Parser.subparse", f"root token {t_}",
                      f"root lexer state yields {t_!r} but subparse has no arm for it (AssertionError 'internal parsing error')", sp.loc(),
                      detail={"root_tokens": sorted(root), "arms": sorted(arms)})
    # the wrap() renames this argument relies on
    wrap = ast.unparse(repo.func("lexer:Lexer.wrap").node)
    ctx.check("TOKEN_LINESTATEMENT_BEGIN" in wrap and "TOKEN_BLOCK_BEGIN" in wrap and "ignored_tokens" in wrap,
              "wrap renames", "lexer:Lexer.wrap", "rename/filter", "wrap no longer filters ignored tokens / renames line statement tokens", "src/jinja2/lexer.py")


# ------------------------------------------------------------------------- R5
def _raise_ok(fi, r: ast.Raise) -> str | None:  # type: ignore[no-untyped-def]
    typ = astq.raise_type(r)
    base = typ.split(".")[-1]
    if base in SYNTAX_ERRORS:
        return "syntax-error"
    if typ in SIGNALS:
        return "signal"
    if typ == "<reraise>":
        return "reraise"
    # raise exc(...) where exc is a parameter defaulting to TemplateSyntaxError
    if isinstance(r.exc, ast.Call) and isinstance(r.exc.func, ast.Name):
        a = fi.node.args
        names = [x.arg for x in a.args]
        defaults = dict(zip(names[len(names) - len(a.defaults):], a.defaults))
        d = defaults.get(r.exc.func.id)
        if d is not None and ast.unparse(d).split(".")[-1] in SYNTAX_ERRORS:
            return "syntax-error(param)"
        # raise token(lineno, filename) guarded by isinstance(token, Failure)
        gt = astq.guard_texts(fi.node, r)
        if any(f"isinstance({r.exc.func.id}, Failure)" in g and pol for g, pol in gt):
            return "syntax-error(Failure)"
    if typ == "self.error_class" and fi.cls is not None and fi.cls.name == "Failure":
        return "syntax-error(Failure)"
    # re-raising a caught exception object: ``raise e``
    if isinstance(r.exc, ast.Name):
        for a_ in astq.ancestors_handlers(r):
            if a_.name == r.exc.id:
                return "reraise"
    return None


def r5_raises(ctx: Ctx) -> None:
    ctx.rule("R5", "every raise on the compile path raises the TemplateSyntaxError family, an internally caught signal, or is a reviewed unreachable/API-misuse site")
    counts: dict[tuple[str, str, str], int] = {}
    total = 0
    for mod in ("lexer", "parser", "compiler", "idtracking", "optimizer", "visitor", "nodes", "ext"):
        m = ctx.repo.module(mod)
        for fn in astq.all_funcdefs(m.tree):
            q = astq.qualname(fn)
            if mod == "ext" and not (q.startswith("InternationalizationExtension.parse") or q.startswith("InternationalizationExtension._parse_block")
                                     or q.startswith("InternationalizationExtension._make_node") or q.startswith("ExprStmtExtension") or q.startswith("LoopControlExtension")
                                     or q.startswith("DebugExtension.parse") or q == "Extension.parse"):
                continue
            from ..srcmodel import FuncInfo

            fi = FuncInfo(m, fn, None)
            for r in [x for x in walk_no_nested(fn) if isinstance(x, ast.Raise)]:
                total += 1
                cls_ = _raise_ok(_Wrap(fi, q), r)
                typ = astq.raise_type(r)
                if cls_ is not None:
                    ctx.ok(f"{mod}:{q}:{typ}:{r.lineno}", trivial=True)
                    continue
                key = (mod, q, typ.split(".")[-1] if typ not in ("nodes.Impossible",) else typ)
                counts[key] = counts.get(key, 0) + 1
                allowed = REVIEWED.get(key)
                if allowed is not None and counts[key] <= allowed[0]:
                    ctx.ok(f"{mod}:{q}:{typ}:{counts[key]}", detail={"site": f"{mod}:{q}", "raises": typ, "why": allowed[1]})
                else:
                    ctx.bad(f"{mod}:{q}", f"raise {typ}",
                            f"`raise {typ}` on the compile path is neither a TemplateSyntaxError, a caught signal nor a reviewed unreachable site: loading a template could surface {typ}",
                            f"{m.rel}:{r.lineno}")
    ctx.floor("raise statements on the compile path", total, 50)


class _Wrap:
    """FuncInfo-like view that knows the qualified class name."""

    def __init__(self, fi, q: str) -> None:  # type: ignore[no-untyped-def]
        self.node = fi.node
        self.cls = type("C", (), {"name": q.split(".")[0]})() if "." in q else None


# ------------------------------------------------------------------------- R6
def r6_conversions(ctx: Ctx) -> None:
    ctx.rule("R6", "converting calls on token text in Lexer.wrap are guarded by a try mapping to TemplateSyntaxError, or justified by a language-inclusion argument on the number regexes")
    repo = ctx.repo
    wrap = repo.func("lexer:Lexer.wrap")
    found = 0
    for c in astq.calls(wrap.node):
        name = astq.attr_tail(c)
        if name not in ("int", "float", "literal_eval", "decode", "encode", "complex"):
            continue
        found += 1
        guarded = False
        for tr, part in enclosing_try(c):
            if part != "body":
                continue
            for h in tr.handlers:
                hs = handler_types(h)
                if catches(hs, "ValueError") and any(astq.raise_type(r).split(".")[-1] in SYNTAX_ERRORS for r in astq.raises(h)):
                    guarded = True
        if name == "literal_eval" and not guarded:
            # float text: justified only if float_re cannot match a spelling Python rejects
            lm = LexModel(repo, configs()[0])
            wide = _unicode_wide_classes(lm.module_regex("float_re"))
            ctx.check(not wide, "wrap:literal_eval", "lexer:Lexer.wrap", "literal_eval(float text)",
                      f"literal_eval() is unguarded and float_re uses Unicode-wide classes {wide}: a spelling such as '1.٣' lexes as a float but raises builtins.SyntaxError",
                      wrap.loc(c), detail={"call": ast.unparse(c)[:60], "float_re_unicode_classes": wide})
            continue
        ctx.check(guarded, f"wrap:{name}", "lexer:Lexer.wrap", f"{name}(token text)",
                  f"{ast.unparse(c)[:50]} can raise ValueError (e.g. more than 4300 digits) and is not inside a try that maps to TemplateSyntaxError",
                  wrap.loc(c), detail={"call": ast.unparse(c)[:60]})
    ctx.floor("converting calls in Lexer.wrap", found, 3)
    # integer_re too must stay within ASCII digits, else int(..., 0) sees non-ASCII digits
    lm = LexModel(repo, configs()[0])
    wide = _unicode_wide_classes(lm.module_regex("integer_re"))
    ctx.check(not wide, "integer_re:ascii", "lexer:<module>", "integer_re digit class",
              f"integer_re uses Unicode-wide classes {wide}: non-ASCII digits are lexed as integer literals", "src/jinja2/lexer.py")
    # identifiers: isidentifier() check maps to TemplateSyntaxError
    ident = [c for c in astq.calls(wrap.node) if astq.attr_tail(c) == "isidentifier"]
    ctx.check(bool(ident), "wrap:isidentifier", "lexer:Lexer.wrap", "identifier check", "name tokens are no longer validated with str.isidentifier()", wrap.loc())


def _unicode_wide_classes(pat) -> list[str]:  # type: ignore[no-untyped-def]
    import re
    import re._constants as sc  # type: ignore[import-not-found]

    if pat.flags & re.ASCII:
        return []
    out: list[str] = []

    def walk(items) -> None:  # type: ignore[no-untyped-def]
        for op, av in items:
            if op is sc.IN:
                for o2, a2 in av:
                    if o2 is sc.CATEGORY and a2 in (sc.CATEGORY_DIGIT, sc.CATEGORY_WORD):
                        out.append(str(a2).lower().replace("category_", "\\"))
            elif op is sc.CATEGORY and av in (sc.CATEGORY_DIGIT, sc.CATEGORY_WORD):
                out.append(str(av))
            elif op in (sc.MAX_REPEAT, sc.MIN_REPEAT, sc.POSSESSIVE_REPEAT):
                walk(av[2])
            elif op is sc.SUBPATTERN:
                walk(av[3])
            elif op is sc.BRANCH:
                for alt in av[1]:
                    walk(alt)
            elif op in (sc.ASSERT, sc.ASSERT_NOT):
                walk(av[1])

    walk(parse_re(pat))
    return sorted(set(out))


# ------------------------------------------------------------------------- R8
def r8_recursion(ctx: Ctx) -> None:
    ctx.rule("R8", "recursive descent / recursive visiting carries a depth guard that maps exhaustion to TemplateSyntaxError")
    repo = ctx.repo
    pcls = repo.cls("parser:Parser")
    graph: dict[str, set[str]] = {}
    for name, fn in pcls.methods.items():
        callees = set()
        for c in astq.calls(fn):
            f = astq.callee(c)
            if f.startswith("self.") and f[5:] in pcls.methods:
                callees.add(f[5:])
            elif f == "parse" and name == "parse_tuple":
                callees.update({"parse_primary", "parse_expression"})
        graph[name] = callees

    def reach(a: str) -> set[str]:
        seen: set[str] = set()
        todo = [a]
        while todo:
            x = todo.pop()
            for y in graph.get(x, ()):
                if y not in seen:
                    seen.add(y)
                    todo.append(y)
        return seen

    cyc = sorted(n for n in graph if n in reach(n))
    ctx.need("parse_expression" in cyc and "parse_primary" in cyc, "parser recursion cycle not found (call graph changed)")
    guarded = False
    for n in cyc:
        src = ast.unparse(pcls.methods[n])
        if "RecursionError" in src or "getrecursionlimit" in src or "_depth" in src or "max_depth" in src:
            guarded = True
    env_guard = "RecursionError" in ast.unparse(repo.func("environment:Environment.compile").node) or "RecursionError" in ast.unparse(repo.func("environment:Environment._parse").node)
    ctx.check(guarded or env_guard, "parser-cycle", "parser:Parser", "expression recursion without depth guard",
              f"the parser recurses through {len(cyc)} mutually recursive methods (parse_expression ... parse_primary) with no depth guard: deeply nested input raises RecursionError, not TemplateSyntaxError",
              "src/jinja2/parser.py", detail={"cycle": cyc})
    vis = ast.unparse(repo.cls("visitor:NodeVisitor").node)
    gen = ast.unparse(repo.func("environment:Environment._generate").node) + ast.unparse(repo.func("compiler:generate").node)
    ctx.check("RecursionError" in vis or "RecursionError" in gen or env_guard, "visitor-cycle", "visitor:NodeVisitor", "visit recursion without depth guard",
              "NodeVisitor.visit/generic_visit (code generation, symbol analysis, optimizer) recurse on node depth with no guard; CPython additionally rejects more than 20 statically nested blocks in the generated module",
              "src/jinja2/visitor.py")


# ------------------------------------------------------------------------ R10
def r10_uniqueness(ctx: Ctx) -> None:
    ctx.rule("R10", "where emitted Python demands distinct names (def parameters, call keywords) the parser function building that list rejects duplicates")
    repo = ctx.repo
    for meth, what, field in (
        ("parse_signature", "macro / call-block parameter names become the parameter list of an emitted `def`", "args"),
        ("parse_call_args", "keyword names become `name=` keywords of an emitted call", "kwargs"),
    ):
        fi = repo.func(f"parser:Parser.{meth}")
        ok = False
        for c in astq.calls(fi.node):
            f = astq.callee(c)
            if f in ("self.fail", "ensure"):
                texts = [g for g, pol in astq.guard_texts(fi.node, c)]
                if f == "ensure" and c.args:
                    texts.append(ast.unparse(c.args[0]))
                for tx in texts:
                    try:
                        tn = ast.parse(tx, mode="eval").body
                    except SyntaxError:
                        continue
                    for n in ast.walk(tn):
                        if isinstance(n, ast.Compare) and any(isinstance(o, (ast.In, ast.NotIn)) for o in n.ops):
                            # membership of the new name in the names collected so far
                            ok = True
                        if isinstance(n, ast.Call) and ast.unparse(n.func) == "len" and "set(" in ast.unparse(n):
                            ok = True
                        if isinstance(n, ast.Call) and ast.unparse(n.func) == "any" and n.args and isinstance(n.args[0], ast.GeneratorExp) and any(isinstance(x, ast.Compare) and isinstance(x.ops[0], ast.Eq) for x in ast.walk(n.args[0].elt)):
                            # the same membership test spelled as any(other == new for other in collected)
                            ok = True
        ctx.check(ok, meth, f"parser:Parser.{meth}", "duplicate names accepted",
                  f"{what}, but {meth} accepts duplicate names: CPython rejects the generated module with builtins.SyntaxError", fi.loc(),
                  detail={"method": meth, "obligation": what})
    # the compiler adds its own keywords (caller, _loop_vars, _block_vars) next to the template's
    sig = repo.func("compiler:CodeGenerator.signature")
    ok = False
    for c in astq.calls(sig.node):
        if astq.callee(c) == "self.fail":
            for g, pol in astq.guard_texts(sig.node, c):
                if pol and "in extra_kwargs" in g and ".key" in g:
                    ok = True
    ctx.check(ok, "signature:extra_kwargs", "compiler:CodeGenerator.signature", "reserved keyword collision accepted",
              "signature() writes the template's keyword arguments and the compiler's extra_kwargs into one call without rejecting a name used by both: `{% call m(caller=1) %}` yields builtins.SyntaxError (keyword argument repeated)",
              sig.loc(), detail={"obligation": "template kwargs and extra_kwargs are disjoint"})
    # names Python refuses as keyword-argument names are passed through the **{...} form
    wk = [a for a in ast.walk(sig.node) if isinstance(a, ast.Assign) and isinstance(a.value, ast.Call) and astq.callee(a.value) == "any" and a.value.args and isinstance(a.value.args[0], ast.GeneratorExp)]
    pred = ""
    for a in wk:
        elt = a.value.args[0].elt  # type: ignore[attr-defined]
        pred = ast.unparse(elt)
        # a helper predicate defined in the module is read through
        if isinstance(elt, ast.Call) and isinstance(elt.func, ast.Name) and elt.func.id in repo.module("compiler").defs:
            pred += " " + ast.unparse(repo.module("compiler").defs[elt.func.id])
    ctx.check(bool(wk) and ("is_python_keyword" in pred or "iskeyword" in pred) and "__debug__" in pred, "signature:forbidden-names", "compiler:CodeGenerator.signature", "keyword names Python refuses are emitted literally",
              f"signature() decides with `{pred[:80]}` whether keyword arguments need the **{{...}} form; it must cover the reserved words and `__debug__` (`f(__debug__=1)` is a SyntaxError: cannot assign to __debug__)",
              sig.loc(), detail={"predicate": pred[:120]})
    # CPython compares identifiers after NFKC normalisation, the duplicate checks compare the raw text
    def _nfkc(fn_node: ast.AST) -> bool:
        return any(astq.callee(c).split(".")[-1] == "normalize" and c.args and isinstance(c.args[0], ast.Constant) and c.args[0].value in ("NFKC", "NFKD") for c in astq.calls(fn_node))

    lexer_norm = _nfkc(repo.func("lexer:Lexer.wrap").node) or _nfkc(repo.func("lexer:Lexer.tokeniter").node)
    for meth in ("parse_signature", "parse_call_args"):
        fi = repo.func(f"parser:Parser.{meth}")
        norm_here = _nfkc(fi.node)
        ctx.check(lexer_norm or norm_here, f"{meth}:nfkc", f"parser:Parser.{meth}", "duplicates compared without NFKC normalisation",
                  f"{meth} compares the raw names; CPython normalises identifiers (NFKC) before comparing them, so `m(ﬁ, fi)` / `f(ﬁ=1, fi=2)` pass the duplicate check and the generated module is rejected with builtins.SyntaxError", fi.loc())


# ------------------------------------------------------------------------ R13
def r13_emitted_literals(ctx: Ctx) -> None:
    ctx.rule("R13", "text interpolated *inside* a string literal of the generated code is identifier-valued (a node's .name, or a loop variable over such names / constants); any other text is emitted as a whole literal with !r")
    repo = ctx.repo
    n_sites = 0
    for mod in ("compiler", "nativetypes"):
        m = repo.module(mod)
        for c in astq.calls(m.tree):
            if astq.callee(c).split(".")[-1] not in ("write", "writeline") or not c.args or not isinstance(c.args[0], ast.JoinedStr):
                continue
            fn = c
            while fn is not None and not isinstance(fn, (ast.FunctionDef, ast.AsyncFunctionDef)):
                fn = getattr(fn, "_parent", None)
            loopvars = {x.id for l_ in ast.walk(fn) if isinstance(l_, (ast.For, ast.comprehension)) for x in ast.walk(l_.target) if isinstance(x, ast.Name)} if fn is not None else set()
            quote = None
            for v in c.args[0].values:
                if isinstance(v, ast.Constant) and isinstance(v.value, str):
                    for ch in v.value:
                        if quote is None and ch in "'\"":
                            quote = ch
                        elif quote == ch:
                            quote = None
                elif isinstance(v, ast.FormattedValue) and quote is not None:
                    n_sites += 1
                    e = v.value

                    def _ident(x: ast.AST, depth: int = 0) -> bool:
                        base = x.value if isinstance(x, ast.Subscript) else x
                        if isinstance(base, ast.Attribute) and base.attr == "name" and isinstance(base.value, ast.Name) and base.value.id != "self":
                            return True
                        if isinstance(base, ast.Name):
                            if base.id in loopvars:
                                return True
                            # a local that only names such a value (`kind = dependency[:-1]`)
                            vals_ = [a_.value for a_ in ast.walk(fn) if isinstance(a_, ast.Assign) and any(isinstance(t_, ast.Name) and t_.id == base.id for t_ in a_.targets)] if fn is not None else []
                            return bool(vals_) and depth < 3 and all(_ident(v_, depth + 1) for v_ in vals_)
                        return False

                    ident = _ident(e)
                    q = astq.enclosing_qual(c)
                    ctx.check(ident, f"{mod}:{q}:{ast.unparse(e)}", f"{mod}:{q}", f"`{ast.unparse(e)}` interpolated inside an emitted {quote}-quoted literal",
                              f"{q} writes `{ast.unparse(e)}` inside a {quote}...{quote} literal of the generated module; unless that text is an identifier, a quote or backslash in it (a template name such as a\"b, a file name, user text) ends the literal early and compile() raises builtins.SyntaxError - emit the whole message with !r instead",
                              f"{m.rel}:{c.lineno}", detail={"site": f"{mod}:{q}", "value": ast.unparse(e)})
    ctx.floor("interpolations inside emitted literals", n_sites, 3)


# ------------------------------------------------------------------------ R14
def r14_dependency_finder(ctx: Ctx) -> None:
    """`_filter_test_common` reads `self.filters[node.name]` / `self.tests[node.name]` without a
    default: the ids are assigned by pull_dependencies from what DependencyFinderVisitor
    collected.  The lookup is total only if the finder reaches every Filter / Test node of the
    unit being compiled - it must descend into the operands and arguments of each one and stop
    only at blocks (compiled as their own unit, with their own pull_dependencies)."""
    ctx.rule("R14", "DependencyFinderVisitor registers every Filter / Test of a compilation unit: each visit_<Kind> records the name in its own set and always continues with generic_visit; only visit_Block stops")
    repo = ctx.repo
    dv = repo.cls("compiler:DependencyFinderVisitor")
    want = {"visit_Filter": "filters", "visit_Test": "tests"}
    ctx.need(set(want) <= set(dv.methods), "DependencyFinderVisitor.visit_Filter / visit_Test not found")
    for name, fn in sorted(dv.methods.items()):
        if not name.startswith("visit_"):
            continue
        body = [s_ for s_ in fn.body if not (isinstance(s_, ast.Expr) and isinstance(s_.value, ast.Constant)) and not isinstance(s_, ast.Pass)]
        if name == "visit_Block":
            ctx.check(not body, "finder:Block", "compiler:DependencyFinderVisitor.visit_Block", "block boundary", "visit_Block must stop the search (blocks are compiled separately)", f"src/jinja2/compiler.py:{fn.lineno}")
            continue
        par = fn.args.args[1].arg if len(fn.args.args) > 1 else "node"
        descends = any(isinstance(s_, ast.Expr) and isinstance(s_.value, ast.Call) and astq.callee(s_.value) == "self.generic_visit" and [ast.unparse(a) for a in s_.value.args] == [par] for s_ in body)
        ctx.check(descends, f"finder:{name}:descends", f"compiler:DependencyFinderVisitor.{name}", "does not continue into the node's children",
                  f"{name} does not call self.generic_visit({par}) unconditionally: a filter or test that only occurs inside the operand / arguments of this node (`{{% if items|length is gt 2 %}}`, `x is divisibleby(y|int)`) gets no id in pull_dependencies and `_filter_test_common` raises KeyError while the template is compiled",
                  f"src/jinja2/compiler.py:{fn.lineno}")
        if name in want:
            from ..normalize import norm as _norm

            nf = _norm(fn)  # a local naming node.name is inlined
            adds = [c for c in astq.calls(nf) if astq.callee(c) == f"self.{want[name]}.add" and [ast.unparse(a) for a in c.args] == [f"{par}.name"]]
            ctx.check(len(adds) == 1 and not astq.guard_atoms(nf, adds[0]), f"finder:{name}:records", f"compiler:DependencyFinderVisitor.{name}", "name not recorded",
                      f"{name} must add {par}.name to self.{want[name]} unconditionally", f"src/jinja2/compiler.py:{fn.lineno}")
    ftc = repo.func("compiler:CodeGenerator._filter_test_common")
    s = ast.unparse(ftc.node)
    ctx.check("self.filters[node.name]" in s and "self.tests[node.name]" in s, "finder:consumers", "compiler:CodeGenerator._filter_test_common", "id lookup", "the id of a filter / test is looked up by node.name in the maps pull_dependencies filled", ftc.loc())


# ------------------------------------------------------------------------ R15
def r15_regex_ambiguity(ctx: Ctx) -> None:
    """The "never hangs" clause for the tokenizer: `re` is a backtracking matcher, and a
    pattern whose automaton is exponentially ambiguous (two different runs q -w-> q) makes
    a *failing* match take time exponential in the input - an unterminated string literal
    of 40 characters then never finishes tokenizing."""
    from ..rx import eda_witness

    ctx.rule("R15", "no regex of the lexer (module constants and the rules Lexer.__init__ builds, every syntax configuration) is exponentially ambiguous: no state q and word w with two different runs q -w-> q")
    repo = ctx.repo
    seen: set[tuple[str, int]] = set()
    n = 0
    pats: list[tuple[str, str, int, str]] = []
    lm0 = LexModel(repo, configs()[0])
    for name in ("whitespace_re", "newline_re", "string_re", "integer_re", "float_re"):
        p = lm0.module_regex(name)
        pats.append((f"lexer.{name}", p.pattern, p.flags, f"{lm0.m.rel}"))
    for cfg in configs():
        lm = LexModel(repo, cfg)
        cfgname = ",".join(f"{k}={v}" for k, v in sorted(cfg.items()))
        for state, rules in lm.rules.items():
            for idx, rule in enumerate(rules):
                pats.append((f"Lexer.rules[{state}][{idx}] ({cfgname})" if rule.pat.origin == "inline" else f"lexer.{rule.pat.origin}", rule.pat.pattern, rule.pat.flags, f"{lm.m.rel}:{rule.lineno}"))
    for what, pattern, flags, loc in pats:
        if (pattern, flags) in seen:
            continue
        seen.add((pattern, flags))
        n += 1
        try:
            wit = eda_witness(pattern, flags)
        except (ValueError, RecursionError) as e:  # construct outside the automaton model (back-reference ...)
            ctx.notes.append(f"R15: {what} not analysable ({e})")
            continue
        ctx.check(wit is None, f"eda:{what.split(' (')[0]}", "lexer:<module>" if what.startswith("lexer.") else "lexer:Lexer.__init__", f"{what.split(' (')[0]} is exponentially ambiguous",
                  f"{what} = {pattern[:70]!r} has two different runs over {wit[1]!r} from the state reached by {wit[0]!r}: when no match exists (an unterminated string, a stray quote) the backtracking matcher tries exponentially many splits of the text - tokenizing does not finish" if wit else "",
                  loc, detail={"regex": what, "pump": wit[1] if wit else None})
    ctx.floor("distinct lexer regexes analysed", n, 12)
