"""C19 - the immutable sandbox never modifies list, dict, set or deque data.

Decided statically: the ``_mutable_spec`` table is *simulated* through the lookup loop of
``modifies_known_mutable`` (first-match / any-match shape recognised from the source) for the
exact builtin types list, dict, set, deque with their real ABC registrations, against the
complete set of public mutating methods of those types (classification table below,
cross-checked against ``dir()`` of the running interpreter so that no public method is
unclassified); ``ImmutableSandboxedEnvironment.is_safe_attribute`` is super() AND NOT
modifies_known_mutable; filters and tests never mutate their arguments (engine E3).
Also: the decision functions keep no state (no mutable default argument, no stores).  
Not decided: mutation through callables the data itself provides.
"""

from __future__ import annotations

import ast
import collections
import collections.abc as abc

from .. import astq
from ..core import Ctx
from ..effects import no_argument_mutation

# public methods of the four builtin containers that modify the receiver
MUTATING = {
    "list": {"append", "clear", "extend", "insert", "pop", "remove", "reverse", "sort"},
    "dict": {"clear", "pop", "popitem", "setdefault", "update"},
    "set": {"add", "clear", "difference_update", "discard", "intersection_update", "pop", "remove", "symmetric_difference_update", "update"},
    "deque": {"append", "appendleft", "clear", "extend", "extendleft", "insert", "pop", "popleft", "remove", "reverse", "rotate"},
}
PURE = {
    "list": {"copy", "count", "index"},
    "dict": {"copy", "fromkeys", "get", "items", "keys", "values"},
    "set": {"copy", "difference", "intersection", "isdisjoint", "issubset", "issuperset", "symmetric_difference", "union"},
    "deque": {"copy", "count", "index", "maxlen"},
}
TYPES = {"list": list, "dict": dict, "set": set, "deque": collections.deque}
ABCS = {"abc.MutableSet": abc.MutableSet, "abc.MutableMapping": abc.MutableMapping, "abc.MutableSequence": abc.MutableSequence,
        "deque": collections.deque, "list": list, "dict": dict, "set": set, "collections.deque": collections.deque}


def check(ctx: Ctx) -> str:
    ctx.use("sandbox", "filters", "tests")
    repo = ctx.repo
    ctx.rule("R0", "the classification of public container methods used by R1 covers every public attribute of list/dict/set/deque of this interpreter")
    for tn, tp in TYPES.items():
        public = {a for a in dir(tp) if not a.startswith("_")}
        unknown = public - MUTATING[tn] - PURE[tn]
        ctx.need(not unknown, f"unclassified public methods of {tn}: {sorted(unknown)} (update the checker's table)")
        ctx.ok(f"classified:{tn}", detail={"type": tn, "mutating": sorted(MUTATING[tn])})

    ctx.rule("R8", "the immutability decision is a pure function of (object, attribute): modifies_known_mutable / is_safe_attribute keep no state - no mutable default argument, no item or attribute store, no global")
    for spec in ("sandbox:modifies_known_mutable", "sandbox:ImmutableSandboxedEnvironment.is_safe_attribute", "sandbox:SandboxedEnvironment.is_safe_attribute", "sandbox:is_internal_attribute"):
        fd = repo.func(spec)
        a_ = fd.node.args
        mut_def = [d_ for d_ in list(a_.defaults) + [k for k in a_.kw_defaults if k is not None] if isinstance(d_, (ast.Dict, ast.List, ast.Set, ast.Call, ast.DictComp, ast.ListComp, ast.SetComp))]
        stores = [x for x in ast.walk(fd.node) if (isinstance(x, (ast.Subscript, ast.Attribute)) and isinstance(x.ctx, (ast.Store, ast.Del))) or isinstance(x, (ast.Global, ast.Nonlocal))]
        stores += [c for c in astq.calls(fd.node) if isinstance(c.func, ast.Attribute) and c.func.attr in ("setdefault", "update", "add", "append") and not isinstance(c.func.value, ast.Call)]
        bad_ = mut_def + stores
        ctx.check(not bad_, f"stateless:{spec.split(':')[1]}", spec, f"keeps state: `{ast.unparse(bad_[0])[:60]}`" if bad_ else "stateless",
                  f"{spec.split(':')[1]} remembers something between calls (`{ast.unparse(bad_[0])[:80] if bad_ else ''}`): the answer for one object then depends on which objects were asked about before - a cache keyed by type(obj) gives every *class* object the answer of the first class seen, after which `dict.update(d, ...)` is allowed in the immutable sandbox",
                  fd.loc(bad_[0]) if bad_ else fd.loc())

    ctx.rule("R1", "modifies_known_mutable(obj, name) is True for every public mutating method of the exact types list, dict, set, deque (spec table simulated through the lookup loop)")
    m, node = repo.const_node("sandbox:_mutable_spec")
    ctx.need(isinstance(node, ast.Tuple), "_mutable_spec is no longer a tuple literal")
    spec: list[tuple[str, set[str], int]] = []
    for row in node.elts:  # type: ignore[attr-defined]
        ctx.need(isinstance(row, ast.Tuple) and len(row.elts) == 2, "_mutable_spec row shape changed")
        tname = ast.unparse(row.elts[0])
        names = astq.const_str_set(row.elts[1])
        ctx.need(names is not None and tname in ABCS, f"_mutable_spec row {tname} not evaluable")
        spec.append((tname, names, row.lineno))  # type: ignore[arg-type]
    ctx.floor("_mutable_spec rows", len(spec), 3)
    fi = repo.func("sandbox:modifies_known_mutable")
    loops = [n for n in ast.walk(fi.nnode) if isinstance(n, ast.For)]  # normal form: `if not isinstance: continue` + rest is `if isinstance: rest`
    ctx.need(len(loops) == 1 and "_mutable_spec" in ast.unparse(loops[0].iter), "modifies_known_mutable no longer loops over _mutable_spec")
    loop = loops[0]
    # recognise the shape: first-match (`if isinstance: return attr in unsafe`) or any-match
    src = ast.unparse(loop)
    # the loop's own variable names are mapped onto (typespec, unsafe) before matching
    if isinstance(loop.target, ast.Tuple) and len(loop.target.elts) == 2 and all(isinstance(e_, ast.Name) for e_ in loop.target.elts):
        import copy as _copy
        import re as _re

        ren = {loop.target.elts[0].id: "typespec", loop.target.elts[1].id: "unsafe"}  # type: ignore[attr-defined]
        if list(ren) != ["typespec", "unsafe"]:
            from ..normalize import clone, set_parents

            loop = clone(loop)
            for n_ in ast.walk(loop):
                if isinstance(n_, ast.Name) and n_.id in ren:
                    n_.id = ren[n_.id]
            set_parents(loop)
            src = ast.unparse(loop)
    elif isinstance(loop.target, ast.Name):
        # `for row in _mutable_spec:` with row[0] / row[1] instead of unpacking
        from ..normalize import clone, set_parents

        rv_ = loop.target.id
        loop = clone(loop)

        class _Idx(ast.NodeTransformer):
            def visit_Subscript(self, n_: ast.Subscript) -> ast.AST:
                if isinstance(n_.value, ast.Name) and n_.value.id == rv_ and isinstance(n_.slice, ast.Constant) and n_.slice.value in (0, 1):
                    return ast.copy_location(ast.Name(id=("typespec", "unsafe")[n_.slice.value], ctx=ast.Load()), n_)
                return self.generic_visit(n_)

        loop = _Idx().visit(loop)
        set_parents(loop)
        src = ast.unparse(loop)
    # two adjacent tests with the same leaving body are one disjunction
    # (`if A: return r` + `if B: return r` is `if A or B: return r`)
    from ..normalize import clone as _cl19a, set_parents as _sp19a

    loop = _cl19a(loop)  # (the shared normal form is not modified)
    _sp19a(loop)

    def _flat(st: ast.stmt) -> list[ast.stmt]:
        # `if A: <leave> elif B: <leave>` is `if A: <leave>` followed by `if B: <leave>`
        if isinstance(st, ast.If) and len(st.orelse) == 1 and isinstance(st.orelse[0], ast.If) and st.body and isinstance(st.body[-1], (ast.Return, ast.Continue, ast.Raise, ast.Break)):
            rest_ = st.orelse[0]
            st.orelse = []
            return [st] + _flat(rest_)
        return [st]

    flat_body = [y for x in list(loop.body) for y in _flat(x)]
    changed_shape = len(flat_body) != len(loop.body)
    loop.body = flat_body
    merged_body: list[ast.stmt] = []
    for st_ in list(loop.body):
        prev = merged_body[-1] if merged_body else None
        if (isinstance(st_, ast.If) and isinstance(prev, ast.If) and not st_.orelse and not prev.orelse and st_.body and isinstance(st_.body[-1], (ast.Return, ast.Continue, ast.Raise, ast.Break))
                and [ast.unparse(x) for x in st_.body] == [ast.unparse(x) for x in prev.body]):
            lhs = prev.test.values if isinstance(prev.test, ast.BoolOp) and isinstance(prev.test.op, ast.Or) else [prev.test]
            prev.test = ast.BoolOp(op=ast.Or(), values=list(lhs) + [st_.test])
            continue
        merged_body.append(st_)
    if changed_shape or len(merged_body) != len(loop.body):
        from ..normalize import clone as _cl19, set_parents as _sp19

        loop = _cl19(loop) if False else loop
        loop.body = merged_body
        ast.fix_missing_locations(loop)
        _sp19(loop)
        src = ast.unparse(loop)
    first_match = False
    any_match = False
    covers_class = False
    for n in ast.walk(loop):
        if isinstance(n, ast.If) and "isinstance(obj, typespec)" in ast.unparse(n.test):
            inner = n.body
            tparts = {ast.unparse(v_) for v_ in (n.test.values if isinstance(n.test, ast.BoolOp) and isinstance(n.test.op, ast.Or) else [n.test])}
            # the row matches an instance of the type, and (since 42dfe43) the type itself / a subclass
            if len(inner) == 1 and isinstance(inner[0], ast.Return) and ast.unparse(inner[0].value) == "attr in unsafe" and "isinstance(obj, typespec)" in tparts and tparts <= {"isinstance(obj, typespec)", "isinstance(obj, type) and issubclass(obj, typespec)"}:
                first_match = True
                covers_class = "isinstance(obj, type) and issubclass(obj, typespec)" in tparts
            elif "attr in unsafe" in ast.unparse(n.test) or any(isinstance(x, ast.If) and ast.unparse(x.test) == "attr in unsafe" for x in inner):
                any_match = True
    ctx.need(first_match or any_match, f"lookup loop shape of modifies_known_mutable not recognised: {src[:80]}")
    rets = astq.returns(fi.node)
    ctx.need(rets and ast.unparse(rets[-1].value) == "False", "modifies_known_mutable no longer ends with `return False`")
    ctx.check(covers_class or any_match, "spec:unbound-methods", "sandbox:modifies_known_mutable", "mutating methods taken from the type are not covered",
              "modifies_known_mutable matches instances only: the same methods are reachable unbound on the type, and `dict` is a default template global - `{{ dict.update(d, x=1) }}` / `{{ dict.clear(d) }}` modify a dict of the render data in the immutable sandbox; the row test must also accept `isinstance(obj, type) and issubclass(obj, typespec)`",
              fi.loc())

    def simulate(tp: type, attr: str) -> bool:
        for tname, names, _ in spec:
            if issubclass(tp, ABCS[tname]):
                if first_match:
                    return attr in names
                if attr in names:
                    return True
        return False

    for tn, tp in TYPES.items():
        for meth in sorted(MUTATING[tn]):
            ok = simulate(tp, meth)
            row = next((t_ for t_, _, _ in spec if issubclass(tp, ABCS[t_])), None)
            ctx.check(ok, f"{tn}.{meth}", "sandbox:_mutable_spec", f"{tn}.{meth}",
                      f"{tn}.{meth} modifies its receiver but modifies_known_mutable({tn}(), {meth!r}) is False ({'first matching row is ' + str(row) if first_match else 'no row lists it'}): the immutable sandbox hands the bound method to the template",
                      "src/jinja2/sandbox.py", detail={"type": tn, "method": meth, "first_matching_row": row, "lookup": "first-match" if first_match else "any-match"})
        # and pure methods stay usable (over-blocking is not a violation of the property, only recorded)
    ctx.rule("R2", "ImmutableSandboxedEnvironment.is_safe_attribute = super().is_safe_attribute AND NOT modifies_known_mutable(obj, attr)")
    isa = repo.func("sandbox:ImmutableSandboxedEnvironment.is_safe_attribute")
    ctx.check(isa.cls is not None and isa.cls.name == "ImmutableSandboxedEnvironment", "override exists", "sandbox:ImmutableSandboxedEnvironment", "is_safe_attribute override missing",
              "ImmutableSandboxedEnvironment no longer overrides is_safe_attribute", isa.loc())
    src = ast.unparse(isa.node)
    calls_super = [c for c in astq.calls(isa.node) if astq.callee(c) == "super().is_safe_attribute"]
    calls_mod = [c for c in astq.calls(isa.node) if astq.callee(c) == "modifies_known_mutable"]
    ctx.check(bool(calls_super) and bool(calls_mod), "both consulted", "sandbox:ImmutableSandboxedEnvironment.is_safe_attribute", "checks consulted", "must consult both super().is_safe_attribute and modifies_known_mutable", isa.loc())
    if calls_mod:
        c = calls_mod[0]
        ctx.check([ast.unparse(a) for a in c.args] == ["obj", "attr"], "mod args", "sandbox:ImmutableSandboxedEnvironment.is_safe_attribute", "modifies_known_mutable arguments", f"modifies_known_mutable is called with {[ast.unparse(a) for a in c.args]}", isa.loc(c))
    # truth table: result True requires super True and modifies False
    ok = _truth_table_ok(isa.node)
    ctx.check(ok, "truth table", "sandbox:ImmutableSandboxedEnvironment.is_safe_attribute", "combination of the two checks",
              "is_safe_attribute can return True although super() rejected the attribute or modifies_known_mutable() flagged it", isa.loc(), detail={"source": src[:200]})
    # getattr/getitem of the sandbox consult is_safe_attribute (shared with C17)
    for meth in ("getattr", "getitem"):
        f2 = repo.func(f"sandbox:SandboxedEnvironment.{meth}")
        ctx.check("self.is_safe_attribute(" in ast.unparse(f2.node), f"{meth} consults", f"sandbox:SandboxedEnvironment.{meth}", "is_safe_attribute consulted", f"{meth} no longer consults is_safe_attribute", f2.loc())
    no_argument_mutation(ctx, "R3")
    # the one statement that stores into an existing object, `{% set obj.attr ... %}`, never
    # goes through is_safe_attribute: only its Namespace check (C03.R5) keeps it off the
    # lists / dicts of the render data
    from . import c03

    ctx.run_imported("C03", {"R5", "R8"}, c03.check)
    # an intercepted operator is computed by the function of the same name: `+` by
    # operator.add, never by an in-place variant that extends a list of the data (rule owned by C02)
    from . import c02

    ctx.run_imported("C02", {"R2"}, c02.check)
    return __doc__ or ""


def _truth_table_ok(fn: ast.AST) -> bool:
    """Abstractly evaluate the function for the 4 valuations of (super ok, modifies)."""

    def ev(e: ast.expr, env: dict[str, bool]) -> bool | None:
        if isinstance(e, ast.Call):
            f = ast.unparse(e.func)
            if f == "super().is_safe_attribute":
                return env["super"]
            if f == "modifies_known_mutable":
                return env["mod"]
            return None
        if isinstance(e, ast.UnaryOp) and isinstance(e.op, ast.Not):
            v = ev(e.operand, env)
            return None if v is None else not v
        if isinstance(e, ast.BoolOp):
            vals = [ev(v, env) for v in e.values]
            if any(v is None for v in vals):
                return None
            return all(vals) if isinstance(e.op, ast.And) else any(vals)
        if isinstance(e, ast.Constant) and isinstance(e.value, bool):
            return e.value
        if isinstance(e, ast.Name) and e.id in env:
            return env[e.id]
        return None

    def run(body: list[ast.stmt], env: dict[str, bool]) -> bool | None | str:
        for s in body:
            if isinstance(s, ast.Expr) and isinstance(s.value, ast.Constant):
                continue
            if isinstance(s, ast.Return):
                return ev(s.value, env) if s.value is not None else None
            if isinstance(s, ast.If):
                c = ev(s.test, env)
                if c is None:
                    return None
                r = run(s.body if c else s.orelse, env)
                if r != "fall":
                    return r
                continue
            if isinstance(s, ast.Assign) and isinstance(s.targets[0], ast.Name):
                v = ev(s.value, env)
                if v is None:
                    return None
                env[s.targets[0].id] = v
                continue
            return None
        return "fall"

    for sup in (True, False):
        for mod in (True, False):
            r = run(fn.body, {"super": sup, "mod": mod})  # type: ignore[attr-defined]
            if r is None or r == "fall":
                return False
            if r != (sup and not mod):
                return False
    return True
