"""C33 - translation blocks render like their source text and are fully extractable.

Decided statically: *escape pairing* - text whose ``%`` was doubled while parsing a trans
block is un-doubled exactly when no ``%``-formatting will be applied to it (old style without
any variables); new style always formats (``rv % variables``) and keeps the doubling; the
function names produced by _make_node (gettext / ngettext / pgettext / npgettext) are in
GETTEXT_FUNCTIONS, are the names _install_callables installs and _uninstall removes; the
four new-style wrappers are siblings (Markup under autoescape, ``% variables``, num /
context defaults); trans variables are emitted in a deterministic order; extraction visits
the same Call nodes by name; babel_extract's environment lines up with Environment.__init__.
Not decided: rendered text for all messages.
"""

from __future__ import annotations

import ast
import itertools

from .. import astq
from ..cfg import guards_of
from ..core import Ctx
from .c25 import bool_eval


def check(ctx: Ctx) -> str:
    ctx.use("ext")
    repo = ctx.repo
    mn = repo.func("ext:InternationalizationExtension._make_node")
    pb = repo.func("ext:InternationalizationExtension._parse_block")
    ctx.rule("R3", "percent escape pairing: `%` is doubled in block text; it is un-doubled exactly when no %-formatting follows (old style and no variables at all)")
    s = ast.unparse(pb.node)
    ctx.check("parser.stream.current.value.replace('%', '%%')" in s and "buf.append(f'%({name})s')" in s, "doubling", "ext:InternationalizationExtension._parse_block", "doubling and placeholders", "_parse_block must double literal % and emit %(name)s placeholders", pb.loc())
    und = [c for c in astq.calls(mn.node) if isinstance(c.func, ast.Attribute) and c.func.attr == "replace" and [ast.unparse(a) for a in c.args] == ["'%%'", "'%'"]]
    ctx.need(len(und) >= 1, "un-doubling replace('%%', '%') not found in _make_node")
    # formatting is applied: new style always (wrapper does rv % variables), old style iff `variables`
    mods = [c for c in astq.calls(mn.node) if astq.callee(c) == "nodes.Mod"]
    ctx.need(len(mods) == 1, "old-style nodes.Mod(...) not found")
    fmt_guards = [(g, pol) for g, pol in guards_of(mods[0])]
    ok = True
    bad = None
    for vr, ns, va in itertools.product([True, False], repeat=3):
        val = {"vars_referenced": vr, "newstyle": ns, "variables": va}
        undouble = all((bool_eval(g, val) if pol else not bool_eval(g, val)) for g, pol in guards_of(und[0]))
        formats = ns or all((bool_eval(g, val) if pol else not bool_eval(g, val)) for g, pol in fmt_guards)
        if any(bool_eval(g, val) is None for g, _ in list(guards_of(und[0])) + fmt_guards):
            ctx.need(False, "guards of the un-doubling / formatting are not boolean combinations of vars_referenced, newstyle, variables")
        # referenced names are always added to variables, so vars_referenced implies variables
        if vr and not va:
            continue
        if undouble and formats:
            ok = False
            bad = dict(val, undoubled=undouble, formatted=formats)
        if not undouble and not formats:
            ok = False
            bad = dict(val, undoubled=undouble, formatted=formats)
    ctx.check(ok, "pairing", "ext:InternationalizationExtension._make_node", "un-doubling condition differs from the no-formatting condition",
              f"the doubled %% is un-doubled under {[(ast.unparse(g), p) for g, p in guards_of(und[0])]} but %-formatting is applied under newstyle or {[(ast.unparse(g), p) for g, p in fmt_guards]}; e.g. {bad}: an old-style `{{% trans user=x %}}100%{{% endtrans %}}` formats the un-doubled text and raises ValueError (or keeps a doubled %% in the output)",
              mn.loc(und[0]), detail={"counterexample": bad})
    for name, fn in [(n_.name, n_) for n_ in ast.walk(repo.module("ext").tree) if isinstance(n_, ast.FunctionDef) and n_.name in ("gettext", "ngettext", "pgettext", "npgettext") and astq.qualname(n_).startswith("_make_new_")]:
        rets = astq.returns(fn)
        ctx.check(len(rets) == 1 and ast.unparse(rets[0].value) == "rv % variables", f"newstyle:{name}:format", f"ext:{astq.qualname(fn)}", "new style always formats", f"the new-style {name} wrapper must return rv % variables unconditionally (the parser keeps %% doubled for it)", f"src/jinja2/ext.py:{fn.lineno}")

    ctx.rule("R1", "function names: _make_node builds [n][p]gettext; all are in GETTEXT_FUNCTIONS, installed by _install_callables and removed by _uninstall")
    gf = set(repo.const("ext:GETTEXT_FUNCTIONS"))
    s = ast.unparse(mn.node)
    ctx.check("func_name = 'gettext'" in s and "func_name = f'p{func_name}'" in s and "func_name = f'n{func_name}'" in s, "names:built", "ext:InternationalizationExtension._make_node", "name construction", "the function name must be gettext with p (context) and n (plural) prefixes", mn.loc())
    produced = {"gettext", "ngettext", "pgettext", "npgettext"}
    ctx.check(produced <= gf and "_" in gf, "names:extractable", "ext:<module>", "GETTEXT_FUNCTIONS", f"GETTEXT_FUNCTIONS {sorted(gf)} must contain every name a trans block can call ({sorted(produced)}) and `_`: otherwise messages rendered at run time are not extracted", "src/jinja2/ext.py")
    ic = repo.func("ext:InternationalizationExtension._install_callables")
    upd = [c for c in astq.calls(ic.node) if astq.callee(c) == "self.environment.globals.update"]
    keys = {k.arg for k in upd[0].keywords} if upd else set()
    ctx.check(keys == produced and all(ast.unparse(k.value) == k.arg for k in upd[0].keywords), "names:installed", "ext:InternationalizationExtension._install_callables", "installed names", f"_install_callables installs {sorted(keys)}; trans blocks call {sorted(produced)}", ic.loc())
    un = repo.func("ext:InternationalizationExtension._uninstall")
    rem = set()
    for n_ in ast.walk(un.node):
        if isinstance(n_, ast.For):
            rem = astq.const_str_set(n_.iter) or set()
    ctx.check(rem == produced, "names:uninstalled", "ext:InternationalizationExtension._uninstall", "removed names", f"_uninstall removes {sorted(rem)}", un.loc())
    # plural / context argument order
    ctx.check("func_args.insert(0, nodes.Const(context))" in s and "func_args.extend((nodes.Const(plural), plural_expr))" in s and "[nodes.Const(singular)]" in s, "args:order", "ext:InternationalizationExtension._make_node", "argument order", "arguments must be [context,] singular[, plural, n]", mn.loc())

    ctx.rule("R2", "new-style wrappers are siblings: call the wrapped function through the context, mark the result safe under autoescape, default num / context variables, then format")
    m = repo.module("ext")
    wrappers = {n_.name: n_ for n_ in ast.walk(m.tree) if isinstance(n_, ast.FunctionDef) and astq.qualname(n_) in ("_make_new_gettext.gettext", "_make_new_ngettext.ngettext", "_make_new_pgettext.pgettext", "_make_new_npgettext.npgettext")}
    ctx.need(len(wrappers) == 4, "new-style wrapper functions not found")
    for name, fn in wrappers.items():
        s = ast.unparse(fn)
        ok = "rv = __context.call(func, " in s and "if __context.eval_ctx.autoescape:\n        rv = Markup(rv)" in s
        ctx.check(ok, f"wrapper:{name}", f"ext:_make_new_{name}", "call + autoescape marking", f"the new-style {name} wrapper must call the wrapped function via __context.call and wrap the result in Markup exactly under autoescape", f"src/jinja2/ext.py:{fn.lineno}")
        if "n" in name[:2] and name != "gettext":
            ctx.check("variables.setdefault('num', __num)" in s, f"wrapper:{name}:num", f"ext:_make_new_{name}", "num default", "plural wrappers must default the `num` variable", f"src/jinja2/ext.py:{fn.lineno}")
        if name.startswith(("p", "np")):
            ctx.check("variables.setdefault('context', __string_ctx)" in s, f"wrapper:{name}:context", f"ext:_make_new_{name}", "context default", "context wrappers must default the `context` variable", f"src/jinja2/ext.py:{fn.lineno}")
    args_ok = {"gettext": "(func, __string)", "ngettext": "(func, __singular, __plural, __num)", "pgettext": "(func, __string_ctx, __string)", "npgettext": "(func, __string_ctx, __singular, __plural, __num)"}
    for name, fn in wrappers.items():
        ctx.check(f"__context.call{args_ok[name]}" in ast.unparse(fn), f"wrapper:{name}:args", f"ext:_make_new_{name}", "argument order", f"{name} must pass {args_ok[name]}", f"src/jinja2/ext.py:{fn.lineno}")
    # old style marks safe-if-autoescape before formatting
    s = ast.unparse(mn.node)
    ctx.check("node = nodes.MarkSafeIfAutoescape(node)" in s and s.index("MarkSafeIfAutoescape") < s.index("nodes.Mod("), "oldstyle:marksafe", "ext:InternationalizationExtension._make_node", "old style marks before formatting", "old style must mark the translated string safe (under autoescape) before %-formatting so that variable values get escaped", mn.loc())
    ctx.check("if num_called_num and key == 'num':\n                continue" in s, "newstyle:num", "ext:InternationalizationExtension._make_node", "num passed once", "a plural count named num must not be passed twice", mn.loc())

    ctx.rule("R5", "coupled state in the trans parser: every (re)binding of the plural expression is accompanied, in the same block, by the recomputation of num_called_num from the same variable name")
    pa = repo.func("ext:InternationalizationExtension.parse")
    binds = [n_ for n_ in ast.walk(pa.node) if isinstance(n_, ast.Assign) and any(ast.unparse(t_) == "plural_expr" for t_ in n_.targets) and ast.unparse(n_.value) != "None"]
    ctx.floor("plural_expr bindings", len(binds), 3)
    for b in binds:
        # walk outwards from the binding: the enclosing block (or the block of the enclosing if/else one level up) must assign num_called_num
        found = False
        cur: ast.AST = b
        for _ in range(2):
            par = getattr(cur, "_parent", None)
            if par is None:
                break
            for field in ("body", "orelse"):
                seq = getattr(par, field, None)
                if isinstance(seq, list) and any(x is cur for x in seq):
                    i = [k for k, x in enumerate(seq) if x is cur][0]
                    for later in seq[i + 1:]:
                        if isinstance(later, ast.Assign) and any(ast.unparse(t_) == "num_called_num" for t_ in later.targets):
                            found = True
            cur = par
        ctx.check(found, f"plural_expr@{ast.unparse(b.value)[:30]}", "ext:InternationalizationExtension.parse", f"plural_expr = {ast.unparse(b.value)[:40]} without num_called_num update",
                  f"`{ast.unparse(b)[:70]}` rebinds the plural expression but num_called_num is not recomputed next to it: the flag keeps the value of an earlier variable, so new-style gettext drops or keeps the user's `num` argument wrongly", pa.loc(b))
    nums = [n_ for n_ in ast.walk(pa.node) if isinstance(n_, ast.Assign) and any(ast.unparse(t_) == "num_called_num" for t_ in n_.targets) and ast.unparse(n_.value) != "False"]
    for a in nums:
        ctx.check(ast.unparse(a.value).endswith("== 'num'"), f"num_called_num:{ast.unparse(a.value)[:30]}", "ext:InternationalizationExtension.parse", "num_called_num formula", f"num_called_num must be `<name> == 'num'`, is `{ast.unparse(a.value)}`", pa.loc(a))

    ctx.rule("R4", "extraction sees what rendering calls: extract_from_ast visits Call nodes whose callee is a Name in the gettext function list; babel_extract parses with the same options")
    ex = repo.func("ext:extract_from_ast")
    s = ast.unparse(ex.node)
    ctx.check("ast.find_all(nodes.Call)" in s and "not isinstance(node.node, nodes.Name) or node.node.name not in gettext_functions" in s, "extract:calls", "ext:extract_from_ast", "visited calls", "extraction must visit every Call whose callee is a name in gettext_functions", ex.loc())
    ctx.check("nodes.Call(nodes.Name(func_name, 'load'), func_args, [], None, None)" in ast.unparse(mn.node), "extract:shape", "ext:InternationalizationExtension._make_node", "call shape", "trans blocks must compile to Call(Name(func_name), ...) - the shape extraction looks for", mn.loc())
    be = repo.func("ext:babel_extract")
    s = ast.unparse(be.node)
    ctx.check("environment.newstyle_gettext = True" in s and "environment.policies['ext.i18n.trimmed'] = True" in s, "babel:options", "ext:babel_extract", "extension options", "babel_extract must honour the trimmed and newstyle_gettext options", be.loc())
    # old-style trans blocks mark their result with MarkSafeIfAutoescape and new-style ones with
    # a run-time test in the wrapper: both must follow the *run-time* autoescape setting
    from ..escrules import runtime_selector_rule

    runtime_selector_rule(ctx, "R6")
    # new-style gettext callables are pass_context: inside loops / blocks they are called with
    # a derived context and read its eval_ctx.autoescape
    from .c37 import derived_context_rule

    derived_context_rule(ctx, "R7")
    return __doc__ or ""
