"""C09 - async mode renders exactly what sync mode renders.

Decided statically: for every visitor of the code generator, every skeleton emitted with
``is_async`` on has a sync skeleton under the same remaining flags that is identical after
erasing the async decoration (await, auto_await, auto_aiter, async for/def, aclose, the
*_async helper names, yield-from vs the closing loop); the twelve filter twins are equal
under erasure or forward every parameter; the entry points (render/generate/make_module/
default module and their async forms) build the context and consume the root generator the
same way; Template subclasses overriding render/generate keep the async dispatch;
async_variant probes the right argument and tags the wrapper; Undefined classes iterate
alike in both modes.  Not decided: event-loop scheduling.
"""

from __future__ import annotations

import ast

from .. import astq
from ..core import Ctx
from ..emitrules import entry_kind
from ..emitrules import get_paths
from ..emitrules import reparse
from ..emit import EmitModel
from ..erase import dump
from ..erase import erase
from ..twins import filter_twin_rules

ASYNC = "self.environment.is_async"


def skeleton_equivalence(ctx: Ctx, rid: str) -> None:
    ctx.rule(rid, "every async skeleton of every visitor equals a sync skeleton with compatible flags after erasure of the async decoration (and vice versa)")
    res = get_paths(ctx)
    model = EmitModel(ctx.repo)
    n = 0
    for entry, items in sorted(res.items()):
        kind = entry_kind(model, entry)
        groups: dict[bool, list] = {True: [], False: []}
        for p, sk in items:
            if p.outcome != "normal" or sk.error:
                continue
            a = p.decisions.get(ASYNC)
            if a is None:
                continue
            tree = reparse(sk, entry, kind)
            if tree is None:
                continue
            flags = {k: v for k, v in p.decisions.items() if k != ASYNC and not k.startswith("raises@")}
            groups[bool(a)].append((flags, dump(erase(tree, inplace=True)), sk, p))
            sk.tree = None
        if not groups[True] and not groups[False]:
            continue
        bad = None
        for side in (True, False):
            others = groups[not side]
            odumps: dict[str, list] = {}
            for fl, d, sk, p in others:
                odumps.setdefault(d, []).append(fl)
            for fl, d, sk, p in groups[side]:
                n += 1
                cands = odumps.get(d, [])
                ok = any(all(o.get(k, v) == v for k, v in fl.items()) for o in cands)
                if not ok:
                    # find the closest compatible counterpart for the report
                    comp = [x for x in others if all(x[0].get(k, v) == v for k, v in fl.items())]
                    bad = (side, sk, p, comp[0][2] if comp else None)
                    break
            if bad:
                break
        if bad:
            side, sk, p, other = bad
            ctx.bad(f"compiler:CodeGenerator.{entry}", "async and sync emission differ beyond the async decoration",
                    f"{entry}: the {'async' if side else 'sync'} skeleton under [{', '.join(f'{k}={v}' for k, v in list(p.decisions.items())[:6])}] has no {'sync' if side else 'async'} counterpart that is equal after erasure:\n{sk.text[:300]}\n--- closest counterpart ---\n{(other.text if other else '<none>')[:300]}",
                    "src/jinja2/compiler.py")
        else:
            ctx.ok(entry, detail={"entry": entry, "async_paths": len(groups[True]), "sync_paths": len(groups[False])} if len(groups[True]) > 10 else None)
    ctx.floor("skeletons compared across modes", n, 2000)


def async_awaits_rule(ctx: Ctx, rid: str) -> None:
    """(skeletons) In async mode everything a template can look up or call may be awaitable (a
    coroutine property of the async loop context, an async data callable): every attribute /
    item lookup, call, filter and test is emitted inside `(await auto_await(...))`.  The sync /
    async skeleton comparison cannot see a *missing* await - erasure removes awaits - so this
    is checked on the async skeletons themselves; a path that never consults is_async emits
    the same code for both modes, i.e. no await."""
    ctx.use("compiler")
    ctx.rule(rid, "(skeletons) in async mode attribute / item lookups, calls, filters and tests are wrapped in `await auto_await(...)` on every path (plain slices excepted)")
    res = get_paths(ctx)
    n = 0
    for entry in ("visit_Getattr", "visit_Getitem", "visit_Call", "visit_Filter", "visit_Test"):
        items = res.get(entry)
        ctx.need(items is not None, f"no emission paths for {entry}")
        bad = None
        for p, sk in items:
            if p.outcome != "normal" or p.decisions.get("optimizer folds this node") is True:
                continue
            if entry == "visit_Getitem" and p.decisions.get("isinstance(node.arg, Slice)") is True:
                continue
            n += 1
            a = p.decisions.get("self.environment.is_async")
            if a is None or (a is True and "await auto_await(" not in sk.text):
                bad = bad or (("never consults is_async" if a is None else "async path without await"), sk.text.strip()[:120], {k: v for k, v in list(p.decisions.items())[:5]})
        ctx.check(bad is None, f"awaited:{entry}", f"compiler:CodeGenerator.{entry}", "async emission without `await auto_await(...)`",
                  f"{entry} {bad[0] if bad else ''} under {bad[2] if bad else ''}: `{bad[1] if bad else ''}` - in an async environment the result may be a coroutine (`loop['length']`, an async data callable): it is rendered as `<coroutine object ...>` / always truthy and never awaited (RuntimeWarning)",
                  "src/jinja2/compiler.py", detail={"entry": entry, "why": bad[0] if bad else None})
    ctx.floor("async-relevant emission paths", n, 100)


def check(ctx: Ctx) -> str:
    ctx.use("compiler", "filters", "async_utils", "environment", "runtime", "nativetypes")
    repo = ctx.repo
    skeleton_equivalence(ctx, "R1")
    filter_twin_rules(ctx, "R2", "R2s", "R2r")
    from .c07 import loop_twins

    loop_twins(ctx, "R6")

    ctx.rule("R3", "entry points: sync and async forms build the context the same way, consume the same root generator and route exceptions through handle_exception")
    tpl = repo.cls("environment:Template")
    for s, a in (("render", "render_async"), ("generate", "generate_async"), ("make_module", "make_module_async")):
        sf, af = tpl.methods[s], tpl.methods[a]
        for fn, nm in ((sf, s), (af, a)):
            src = ast.unparse(fn)
            if nm.startswith(("render", "generate")):
                from ..normalize import norm as _n

                nsrc = ast.unparse(_n(fn))  # locals naming the data / the context are inlined when used once
                # the context is self.new_context(dict(*args, **kwargs)), directly or through a local
                ncs_ = [c for c in astq.calls(fn) if astq.callee(c) == "self.new_context" and len(c.args) == 1]
                argtxt = ""
                if len(ncs_) == 1:
                    a0 = ncs_[0].args[0]
                    if isinstance(a0, ast.Name):
                        d_ = [x for x in ast.walk(fn) if isinstance(x, ast.Assign) and len(x.targets) == 1 and isinstance(x.targets[0], ast.Name) and x.targets[0].id == a0.id]
                        a0 = d_[0].value if len(d_) == 1 else a0
                    argtxt = ast.unparse(a0)
                cvar = ""
                if len(ncs_) == 1 and isinstance(getattr(ncs_[0], "_parent", None), ast.Assign) and isinstance(ncs_[0]._parent.targets[0], ast.Name):  # type: ignore[attr-defined]
                    cvar = ncs_[0]._parent.targets[0].id  # type: ignore[attr-defined]
                src = src.replace(f"self.root_render_func({cvar})", "self.root_render_func(ctx)") if cvar else nsrc.replace("self.root_render_func(self.new_context(dict(*args, **kwargs)))", "self.root_render_func(ctx)")
                ctx.check(argtxt == "dict(*args, **kwargs)", f"{nm}:ctx", f"environment:Template.{nm}", "context construction", f"{nm} must build its context with self.new_context(dict(*args, **kwargs))", f"src/jinja2/environment.py:{fn.lineno}")
                ctx.check("self.root_render_func(ctx)" in src, f"{nm}:root", f"environment:Template.{nm}", "root generator", f"{nm} must consume self.root_render_func(ctx)", f"src/jinja2/environment.py:{fn.lineno}")
                hs = [h for h in ast.walk(fn) if isinstance(h, ast.ExceptHandler)]
                ok = len(hs) == 1 and ast.unparse(hs[0].type) == "Exception" and "self.environment.handle_exception()" in ast.unparse(hs[0])
                ctx.check(ok, f"{nm}:handler", f"environment:Template.{nm}", "exception routing", f"{nm} must route exceptions (and only Exception) through environment.handle_exception()", f"src/jinja2/environment.py:{fn.lineno}")
            else:
                tms_ = [c for c in astq.calls(fn) if astq.callee(c) == "TemplateModule" and len(c.args) >= 2]
                ok_tm = len(tms_) == 1 and ast.unparse(tms_[0].args[0]) == "self"
                if ok_tm:
                    a1 = tms_[0].args[1]
                    if isinstance(a1, ast.Name):
                        d_ = [x for x in ast.walk(fn) if isinstance(x, ast.Assign) and len(x.targets) == 1 and isinstance(x.targets[0], ast.Name) and x.targets[0].id == a1.id]
                        # the body generator (async form) must run over the same context object
                        ok_tm = all(ast.unparse(c.args[0]) == a1.id for c in astq.calls(tms_[0]) if astq.callee(c) == "self.root_render_func" and c.args)
                        a1 = d_[0].value if len(d_) == 1 else a1
                    ok_tm = ok_tm and ast.unparse(a1) == "self.new_context(vars, shared, locals)"
                ctx.check(ok_tm, f"{nm}:ctx", f"environment:Template.{nm}", "module context", f"{nm} must build TemplateModule(self, self.new_context(vars, shared, locals), ...)", f"src/jinja2/environment.py:{fn.lineno}")
        # dispatch: sync form of an async environment runs the async form
        if s in ("render", "generate"):
            src = ast.unparse(sf)
            ctx.check("if self.environment.is_async:" in src and f"self.{a}(*args, **kwargs)" in src and "asyncio.run(" in src, f"{s}:dispatch", f"environment:Template.{s}", "async dispatch", f"{s} must run {a} through asyncio.run when the environment is async", f"src/jinja2/environment.py:{sf.lineno}")
            src = ast.unparse(af)
            ctx.check("if not self.environment.is_async:" in src and "raise RuntimeError" in src, f"{a}:guard", f"environment:Template.{a}", "sync environment guard", f"{a} must refuse a non-async environment", f"src/jinja2/environment.py:{af.lineno}")
    from ..erase import body_same

    # the sync form additionally refuses async environments: compare after dropping that guard
    sf = tpl.methods["_get_default_module"]
    sf2 = ast.parse(ast.unparse(sf)).body[0]
    sf2.body = [s_ for s_ in sf2.body if not (isinstance(s_, ast.If) and ast.unparse(s_.test) == "self.environment.is_async")]
    ok, diff = body_same(sf2, tpl.methods["_get_default_module_async"])
    ctx.check(ok, "_get_default_module~async", "environment:Template._get_default_module_async", "differs from _get_default_module", f"default module construction differs between modes: {diff}", f"src/jinja2/environment.py:{sf.lineno}")
    # run-time objects with a sync and an async call form: the sync form dispatches on
    # environment.is_async first; after that guard both forms are the same code
    for cname, s, a, guard in (("BlockReference", "__call__", "_async_call", "self._context.environment.is_async"), ("Macro", "_invoke", "_async_invoke", "self._environment.is_async")):
        ci = repo.cls(f"runtime:{cname}")
        sf = ci.methods[s]
        from ..normalize import clone as _clone
        from ..normalize import norm as _norm2

        # normal form first: a local naming self._context is inlined, so the dispatch test reads
        # the same however the method is written; the rest is compared with the async form
        sf2 = ast.parse(ast.unparse(_clone(_norm2(sf)))).body[0]
        guards = [s_ for s_ in sf2.body if isinstance(s_, ast.If) and ast.unparse(s_.test) == guard]
        if len(guards) == 1 and guards[0].orelse:
            # (the normal form attaches the statements after a leaving branch as its else)
            rest_ = guards[0].orelse
            guards[0].orelse = []
            sf2.body = sf2.body[: sf2.body.index(guards[0]) + 1] + rest_
        ctx.check(len(guards) == 1 and f"self.{a}(" in ast.unparse(guards[0]), f"{cname}.{s}:dispatch", f"runtime:{cname}.{s}", "async dispatch", f"{cname}.{s} must hand over to {a} when the environment is async", f"src/jinja2/runtime.py:{sf.lineno}")
        sf2.body = [s_ for s_ in sf2.body if s_ not in guards]
        if cname == "Macro":
            # the two forms are written differently (`rv = Markup(rv); return rv` vs
            # `return Markup(rv)`): their equivalence is the capture-site rule C15.R6 / C16.R1
            continue
        ok, diff = body_same(sf2, ci.methods[a])
        ctx.check(ok, f"{cname}.{s}~{a}", f"runtime:{cname}.{a}", f"differs from {s}", f"{cname}.{a} is not {cname}.{s} under erasure of the async decoration: {diff}", f"src/jinja2/runtime.py:{ci.methods[a].lineno}")

    ctx.rule("R4", "overrides keep the async dispatch: a Template subclass overriding render / generate tests environment.is_async and runs the async form (or calls super())")
    n = 0
    for ci in repo.classes():
        if ci.name == "Template" or not any(c.name == "Template" and c.module.name == "environment" for c in repo.mro(ci)[1:]):
            continue
        for meth, asyncform in (("render", "render_async"), ("generate", "generate_async")):
            fn = ci.methods.get(meth)
            if fn is None:
                continue
            n += 1
            src = ast.unparse(fn)
            ok = (f"super().{meth}(" in src) or ("self.environment.is_async" in src and f"self.{asyncform}(" in src)
            ctx.check(ok, f"{ci.name}.{meth}", f"{ci.module.name}:{ci.name}.{meth}", "override drops the async dispatch",
                      f"{ci.name}.{meth} overrides Template.{meth} without the `if self.environment.is_async` dispatch: in an async environment it iterates an async generator synchronously (TypeError) instead of rendering what {asyncform} renders",
                      ci.loc(fn), detail={"class": ci.name, "method": meth})
            # and consumes the root generator through the same concat hook as its async form
            af = ci.methods.get(asyncform)
            if af is not None:
                from ..normalize import norm as _n

                c1 = [astq.callee(c) for c in astq.calls(_n(fn)) if astq.callee(c).endswith(".concat")]
                c2 = [astq.callee(c) for c in astq.calls(_n(af)) if astq.callee(c).endswith(".concat")]
                ctx.check(c1 == c2 and bool(c1), f"{ci.name}.{meth}:concat", f"{ci.module.name}:{ci.name}.{meth}", "concat hook", f"{meth} joins with {c1}, {asyncform} with {c2}", ci.loc(fn))
    ctx.floor("Template subclass overrides", n, 1)

    ctx.rule("R5", "async_variant: the is_async probe reads args[0].is_async for environment filters and args[0].environment.is_async otherwise; eval-context-free twins get pass_eval_context and drop that argument; the wrapper is tagged jinja_async_variant")
    av = repo.func("async_utils:async_variant")
    s = ast.unparse(av.node)
    probes = [n_ for n_ in ast.walk(av.node) if isinstance(n_, ast.FunctionDef) and n_.name == "is_async"]
    ok = len(probes) == 2
    if ok:
        # which probe is defined on which side of `pass_arg is _PassArg.environment` (in either order)
        side = {}
        for pr in probes:
            at = astq.guard_atoms(av.node, pr)
            from ..normalize import norm as _n

            ptxt = ast.unparse(_n(pr))  # a local naming args[0].environment is inlined
            reads_env_attr = "args[0].environment.is_async" in ptxt
            reads_direct = "args[0].is_async" in ptxt and not reads_env_attr
            if ("pass_arg is _PassArg.environment", True) in at:
                side["env"] = reads_direct
            elif ("pass_arg is _PassArg.environment", False) in at:
                side["other"] = reads_env_attr
        ok = side == {"env": True, "other": True}
    ctx.check(ok, "probe", "async_utils:async_variant", "is_async probe", "the async probe must read args[0].is_async exactly for @pass_environment twins and args[0].environment.is_async otherwise", av.loc())
    ctx.check("need_eval_context = pass_arg is None" in s and "wrapper = pass_eval_context(wrapper)" in s and "args = args[1:]" in s, "evalctx", "async_utils:async_variant", "eval context injection", "twins without a pass decorator need an injected eval context that is dropped again before the call", av.loc())
    ctx.check("wrapper.jinja_async_variant = True" in s, "tag", "async_utils:async_variant", "wrapper tag", "the wrapper must carry jinja_async_variant = True (constant folding relies on it)", av.loc())
    wr = [n_ for n_ in ast.walk(av.node) if isinstance(n_, ast.FunctionDef) and n_.name == "wrapper"]
    ok = False
    if len(wr) == 1:
        from ..normalize import norm

        w = norm(wr[0])
        rs_ = [r for r in astq.returns(w)]
        forms = {ast.unparse(r.value): astq.guard_atoms(w, r) for r in rs_ if r.value is not None}
        a_g = forms.get("async_func(*args, **kwargs)")
        n_g = forms.get("normal_func(*args, **kwargs)")
        # both calls forward the same arguments; they sit on opposite sides of one flag, and the
        # flag is the is_async probe (whatever the local holding it is called)
        if a_g and n_g and len(rs_) == 2:
            flag = [t_ for t_, pol in a_g if pol and (t_, False) in n_g]
            if len(flag) == 1:
                src = [x for x in ast.walk(w) if isinstance(x, ast.Assign) and ast.unparse(x.targets[0]) == flag[0]]
                ok = "is_async" in flag[0] or (len(src) == 1 and "is_async(args)" in ast.unparse(src[0].value))
    ctx.check(ok, "dispatch", "async_utils:async_variant", "dispatch", "the wrapper must call async_func in async mode and normal_func otherwise, with the same arguments", av.loc())
    aw = repo.func("async_utils:auto_await")
    s = ast.unparse(aw.node)
    aw_rets = {ast.unparse(r_.value): astq.guard_atoms(aw.node, r_) for r_ in astq.returns(aw.node) if r_.value is not None}
    awaited = [g for v_, g in aw_rets.items() if v_.startswith("await ")]
    plain = aw_rets.get("value")
    # the value is awaited exactly on the path where it is awaitable, and returned untouched where it is not
    # ... decided as a truth table over (is awaitable, is a common primitive), however the two
    # tests are arranged or named: the value is awaited iff it is awaitable and not a primitive;
    # every other path returns the value itself (t.cast(...) is the identity)
    from ..normalize import clone as _cl

    awc = _cl(aw.node)
    plain_ok = True
    for r_ in [x for x in ast.walk(awc) if isinstance(x, ast.Return) and x.value is not None]:
        is_aw = isinstance(r_.value, ast.Await)
        if not is_aw:
            v_ = r_.value
            while isinstance(v_, ast.Call) and astq.callee(v_) in ("t.cast", "typing.cast", "cast") and len(v_.args) == 2:
                v_ = v_.args[1]
            plain_ok = plain_ok and ast.unparse(v_) == "value"
        r_.value = ast.Constant(value=is_aw)
    tb_aw = astq.bool_table(awc, ["inspect.isawaitable(value)", "type(value) in _common_primitives"])
    table_ok = all(v_ == (a_ and not p_) for (a_, p_), v_ in tb_aw.items())
    ctx.check(table_ok and plain_ok or (len(awaited) == 1 and ("inspect.isawaitable(value)", True) in awaited[0] and plain is not None and ("inspect.isawaitable(value)", False) in plain), "auto_await", "async_utils:auto_await", "await only awaitables", "auto_await must await awaitables and return everything else unchanged", aw.loc())
    from .c22 import fresh_list_rule

    fresh_list_rule(ctx, "R7")
    async_awaits_rule(ctx, "R8")
    return __doc__ or ""
