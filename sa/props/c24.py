"""C24 - HTML-producing filters cannot be used to inject markup.

Decided statically: the Markup trust inventory (every Markup(...) construction wraps rendered
output, template text, an explicit safe marking or a value proven escaped / literal by the
trust flow; utils.urlize returns only escaped input, literals and escaped attributes);
htmlsafe_json_dumps replaces exactly < > & ' after serialising and wraps last; xmlattr
validates every key against a pattern that contains whitespace, '/', '>', '=' and escapes key
and value, the check dominating the emission; urlize escapes its input first and quotes
attribute values; filters that combine a safe string with plain-string arguments (replace,
join, indent, format) escape the plain side; xmlattr / urlize return Markup only under
autoescape.  Not decided: well-formedness of urlize's anchors over all inputs.
Also: truth table of do_replace's escape decision over the three __html__ probes.
"""

from __future__ import annotations

import ast
import re

from .. import astq
from ..cfg import guards_of
from ..core import Ctx
from ..lexmodel import LexModel
from ..lexmodel import configs
from ..markup import markup_inventory


def markup_only_under_autoescape(ctx: Ctx, rid: str) -> None:
    ctx.rule(rid, "xmlattr / urlize wrap their result in Markup only under eval_ctx.autoescape")
    for fname in ("do_xmlattr", "do_urlize"):
        fi = ctx.repo.func(f"filters:{fname}")
        mk = [c for c in astq.calls(fi.node) if astq.callee(c) == "Markup"]
        ok = len(mk) == 1 and [(ast.unparse(g), pol) for g, pol in guards_of(mk[0])] == [("eval_ctx.autoescape", True)]
        ctx.check(ok, fname, f"filters:{fname}", "Markup only under autoescape", f"{fname} must return Markup exactly when eval_ctx.autoescape is on", fi.loc())


def replace_escape_table_rule(ctx: Ctx) -> None:
    """do_replace escapes a plain subject whenever the search or the replacement text is markup
    (truth table over the three `hasattr(x, '__html__')` probes); shared with C16: otherwise an
    already escaped fragment is spliced into a plain string and escaped a second time."""
    rp = ctx.repo.func("filters:do_replace")
    ifs = [i_ for i_ in ast.walk(rp.node) if isinstance(i_, ast.If) and any(ast.unparse(a_) == "s = escape(s)" for a_ in i_.body + i_.orelse)]
    ctx.need(len(ifs) == 1, "do_replace: the branch escaping the subject was not found")
    atoms_ = ["hasattr(old, '__html__')", "hasattr(new, '__html__')", "hasattr(s, '__html__')"]
    tab = astq.bool_table(ifs[0].test, atoms_)
    if any(ast.unparse(a_) == "s = escape(s)" for a_ in ifs[0].orelse):
        # (the escaping arm is the else branch: the decision is the negated test)
        tab = {k_: (None if v_ is None else not v_) for k_, v_ in tab.items()}
    bad = [v for v, r_ in tab.items() if (v[0] or v[1]) and not v[2] and r_ is not True]
    ctx.check(not bad, "replace:escape-table", "filters:do_replace", f"plain subject not escaped for (old, new, s) markup = {bad}" if bad else "escapes whenever an argument is markup",
              f"do_replace does not escape the plain subject for (old is markup, new is markup, s is markup) = {bad}: `{{{{ text|replace('NAME', macro_result) }}}}` splices the escaped fragment into a plain string, and the output escapes it again (&amp;lt;)",
              rp.loc(ifs[0]), detail={"table": {str(k): v for k, v in tab.items()}})


def check(ctx: Ctx) -> str:
    ctx.use("filters", "utils", "runtime")
    repo = ctx.repo
    markup_inventory(ctx, "R1")

    ctx.rule("R2", "tojson: htmlsafe_json_dumps serialises first, then replaces exactly the four characters < > & ' with unicode escapes, and marks the result safe last")
    hj = repo.func("utils:htmlsafe_json_dumps")
    rets = astq.returns(hj.nnode)  # normal form: a local naming the serialised text is inlined
    ctx.need(len(rets) >= 1, "htmlsafe_json_dumps shape changed")
    want = {"<": "\\u003c", ">": "\\u003e", "&": "\\u0026", "'": "\\u0027"}
    ok_outer, chain, base = True, [], ""
    for r_ in rets:  # (the normal form may split the function per default-argument branch)
        chain = []
        cur = r_.value
        oo = isinstance(cur, ast.Call) and astq.callee(cur) in ("markupsafe.Markup", "Markup") and len(cur.args) == 1
        cur = cur.args[0] if oo else cur  # type: ignore[union-attr]
        while isinstance(cur, ast.Call) and isinstance(cur.func, ast.Attribute) and cur.func.attr == "replace":
            chain.append((ast.literal_eval(cur.args[0]), ast.literal_eval(cur.args[1])))
            cur = cur.func.value
        base = ast.unparse(cur)
        ok_outer = ok_outer and oo and dict(chain) == want and base.startswith(("dumps(obj", "json.dumps(obj"))
        if not ok_outer:
            break
    ctx.check(ok_outer, "tojson:replacements", "utils:htmlsafe_json_dumps", f"replacements {dict(chain)}",
              f"htmlsafe_json_dumps must be Markup(dumps(obj, ...).replace(...)) with exactly {want}; found replacements {dict(chain)} on `{base[:40]}`", hj.loc(), detail={"replacements": dict(chain)})
    tj = repo.func("filters:do_tojson")
    s = ast.unparse(tj.node)
    deleg = [r_.value for r_ in astq.returns(tj.node) if isinstance(r_.value, ast.Call) and astq.callee(r_.value) == "htmlsafe_json_dumps"]
    deleg_ok = False
    deleg_all = bool(deleg)
    for dg in deleg:
      deleg_ok = False
      if [ast.unparse(a_) for a_ in dg.args] == ["value"]:
        kwd = {k_.arg: k_.value for k_ in dg.keywords}
        dv = kwd.get("dumps")
        if isinstance(dv, ast.Name):
            d_src = [a_ for a_ in ast.walk(tj.node) if isinstance(a_, ast.Assign) and len(a_.targets) == 1 and isinstance(a_.targets[0], ast.Name) and a_.targets[0].id == dv.id]
            # the ** argument is the local holding policies['json.dumps_kwargs'] (whatever its name)
            kwv = kwd.get(None)
            k_src = [a_ for a_ in ast.walk(tj.node) if isinstance(a_, ast.Assign) and len(a_.targets) == 1 and isinstance(a_.targets[0], ast.Name) and isinstance(kwv, ast.Name) and a_.targets[0].id == kwv.id]
            deleg_ok = len(d_src) == 1 and ast.unparse(d_src[0].value) == "policies['json.dumps_function']" and bool(k_src) and any("policies['json.dumps_kwargs']" in ast.unparse(a_.value) for a_ in k_src)
      deleg_all = deleg_all and deleg_ok
    ctx.check(deleg_all and "policies['json.dumps_kwargs']" in s, "tojson:filter", "filters:do_tojson", "delegation", "the tojson filter must serialise through htmlsafe_json_dumps with the policy's dumps function and kwargs", tj.loc())

    ctx.rule("R3", "xmlattr: every emitted key passed the key check, key and value are escaped, the key pattern contains ASCII whitespace, '/', '>' and '='; None / undefined values are skipped")
    xa = repo.func("filters:do_xmlattr")
    app = [c for c in astq.calls(xa.node) if astq.callee(c) == "items.append"]
    ctx.need(len(app) == 1, "do_xmlattr items.append not found")
    txt = ast.unparse(app[0].args[0])
    ctx.check("escape(key)" in txt and "escape(value)" in txt and '="' in txt, "xmlattr:escaped", "filters:do_xmlattr", "key and value escaped and quoted", f"xmlattr must emit escape(key)=\"escape(value)\"; it appends {txt}", xa.loc(app[0]))
    rs = [r for r in astq.raises(xa.node) if astq.raise_type(r) == "ValueError"]
    loop = [n for n in ast.walk(xa.node) if isinstance(n, ast.For)]
    # the key test rejects (raises) exactly when the pattern finds a forbidden character, and
    # the emission lies on the path where that test passed - for every emitted key
    key_ok = "_attr_key_re.search(key) is None"
    ra = astq.guard_atoms(loop[0], rs[0]) if (loop and len(rs) == 1) else []
    aa = astq.guard_atoms(loop[0], app[0]) if loop else []
    ok = len(rs) == 1 and (key_ok, False) in ra
    dominated = (key_ok, True) in aa
    # the only other conditions on the emission are the None / undefined skip
    extra = [a_ for a_ in aa if a_ not in ((key_ok, True), ("value is None", False), ("isinstance(value, Undefined)", False))]
    ctx.check(ok and dominated and not extra if loop else False, "xmlattr:key-check", "filters:do_xmlattr", "key check dominates emission",
              "every key must be rejected with ValueError when _attr_key_re matches, before (and on the same path as) it is appended", xa.loc())
    lm = LexModel(repo, configs()[0])
    m = repo.module("filters")
    kre = m.assigns.get("_attr_key_re")
    ctx.need(isinstance(kre, ast.Call) and kre.args and isinstance(kre.args[0], ast.Constant), "_attr_key_re literal not found")
    flags = re.ASCII if "re.ASCII" in ast.unparse(kre) else 0
    rx = re.compile(kre.args[0].value, flags)  # compiled from the literal to test membership of single characters
    need = [" ", "\t", "\n", "\r", "\x0c", "/", ">", "="]
    missing = [repr(c) for c in need if not rx.fullmatch(c)]
    ctx.check(not missing, "xmlattr:key-pattern", "filters:<module>", "_attr_key_re character set", f"_attr_key_re = {kre.args[0].value!r} does not reject {missing}: such a key ends the attribute name and injects another attribute", "src/jinja2/filters.py", detail={"pattern": kre.args[0].value})
    ctx.check(("value is None", False) in aa and ("isinstance(value, Undefined)", False) in aa, "xmlattr:skip", "filters:do_xmlattr", "None/undefined skipped", "None and undefined values must be skipped", xa.loc())

    ctx.rule("R4", "urlize: the text is escaped before it is split into words; rel / target attributes are escaped and quoted; every anchor template quotes its href")
    ul = repo.func("utils:urlize")
    s = ast.unparse(ul.node)
    ctx.check("re.split('(\\\\s+)', str(markupsafe.escape(text)))" in s, "urlize:escape-first", "utils:urlize", "input escaped first", "urlize must escape the whole input before splitting it into words", ul.loc())
    ctx.check("rel_attr = f' rel=\"{markupsafe.escape(rel)}\"' if rel else ''" in s and "target_attr = f' target=\"{markupsafe.escape(target)}\"' if target else ''" in s, "urlize:attrs", "utils:urlize", "rel/target escaped and quoted", "rel and target must be escaped and double-quoted", ul.loc())
    anchors = [n for n in ast.walk(ul.node) if isinstance(n, ast.JoinedStr) and "<a href=" in ast.unparse(n)]
    ctx.floor("anchor templates in urlize", len(anchors), 4)
    for a in anchors:
        t_ = ast.unparse(a)
        ctx.check(t_.startswith("f'<a href=\"") and "</a>" in t_ and '"' in t_.split("href=")[1][1:], f"urlize:anchor:{a.lineno}", "utils:urlize", "anchor template", f"anchor template {t_[:60]} must quote its href and close the tag", ul.loc(a))
    du = repo.func("filters:do_urlize")
    s = ast.unparse(du.node)
    fa = [r_ for r_ in astq.raises(du.node) if astq.raise_type(r_) == "FilterArgumentError"]
    sch_ok = any(("_uri_scheme_re.fullmatch(scheme) is None", True) in astq.guard_atoms(du.node, r_) or ("_uri_scheme_re.fullmatch(scheme)", False) in astq.guard_atoms(du.node, r_) for r_ in fa)
    ctx.check(sch_ok, "urlize:schemes", "filters:do_urlize", "extra schemes validated", "extra URI schemes must be validated against _uri_scheme_re", du.loc())
    markup_only_under_autoescape(ctx, "R5")

    ctx.rule("R6", "filters combining a safe string with plain arguments escape the plain side: replace, join; escape/forceescape escape the string form")
    rp = repo.func("filters:do_replace")
    s = ast.unparse(rp.node)
    esc = [a for a in ast.walk(rp.node) if isinstance(a, ast.Assign) and ast.unparse(a) == "s = escape(s)"]
    esc_ok = len(esc) == 1 and ("eval_ctx.autoescape", True) in astq.guard_atoms(rp.node, esc[0])
    ctx.check(esc_ok and "s.replace(soft_str(old), soft_str(new), count)" in s, "replace", "filters:do_replace", "replace escapes when arguments are markup", "do_replace must escape the subject when old/new are markup and it is not, and replace via soft_str on both arguments", rp.loc())
    replace_escape_table_rule(ctx)
    jn = repo.func("filters:sync_do_join")
    s = jn.ntext
    desc = [a for a in ast.walk(jn.nnode) if isinstance(a, ast.Assign) and ast.unparse(a) == "d = escape(d)"]
    ctx.check(len(desc) == 1 and ("do_escape", True) in astq.guard_atoms(jn.nnode, desc[0]) and "soft_str(d).join(map(soft_str, value))" in s, "join", "filters:sync_do_join", "join escapes the delimiter", "join must escape a plain delimiter when any item is markup and rely on Markup.join otherwise", jn.loc())
    fe = repo.func("filters:do_forceescape")
    rv_ = astq.returns(fe.node)[-1].value
    ok_fe = isinstance(rv_, ast.Call) and astq.callee(rv_) == "escape" and len(rv_.args) == 1 and isinstance(rv_.args[0], ast.Call) and astq.callee(rv_.args[0]) == "str" and len(rv_.args[0].args) == 1 and isinstance(rv_.args[0].args[0], ast.Name)
    if ok_fe:
        # what is converted is the input itself or its __html__() form: every assignment to that
        # name reads only the parameter and calls only hasattr / t.cast / __html__
        vn_ = rv_.args[0].args[0].id  # type: ignore[attr-defined]
        par_ = fe.node.args.args[0].arg
        for a_ in ast.walk(fe.node):
            if isinstance(a_, ast.Assign) and any(isinstance(t_, ast.Name) and t_.id == vn_ for t_ in a_.targets):
                names_ = {x.id for x in ast.walk(a_.value) if isinstance(x, ast.Name)}
                calls_ = {astq.callee(c).split(".")[-1] for c in astq.calls(a_.value)}
                ok_fe = ok_fe and names_ <= {par_, "t", "hasattr"} and calls_ <= {"hasattr", "cast", "__html__"}
        ok_fe = ok_fe and (vn_ == par_ or any(isinstance(a_, ast.Assign) and any(isinstance(t_, ast.Name) and t_.id == vn_ for t_ in a_.targets) for a_ in ast.walk(fe.node)))
    ctx.check(ok_fe, "forceescape", "filters:do_forceescape", "forceescape", "forceescape must escape the plain string form of its input", fe.loc())
    ft = repo.const_map("filters:FILTERS")
    ctx.check(ft.get("e") == "escape" and ft.get("escape") == "escape" and ft.get("safe") == "do_mark_safe" and ft.get("tojson") == "do_tojson" and ft.get("xmlattr") == "do_xmlattr" and ft.get("urlize") == "do_urlize", "FILTERS", "filters:FILTERS", "registrations", "escape / safe / tojson / xmlattr / urlize registrations changed", "src/jinja2/filters.py")
    # what a filter block / filtered set block hands to the filter is Markup exactly when
    # autoescaping is on at run time (rules owned by C15)
    from . import c15

    ctx.run_imported("C15", {"R3", "R6"}, c15.check)
    return __doc__ or ""
