"""C22 - collection filters satisfy their documented contracts.

Decided statically: the async variants equal their sync twins under erasure or forward every
parameter (engine E2), their signatures agree and FILTERS registers the dispatching wrapper;
no filter (sync, async or helper) mutates an argument (engine E3); attribute lookups of the
collection filters go through make_attrgetter / make_multi_attrgetter with the case
post-processing selected by ``case_sensitive``; the slicing arithmetic of ``slice`` and the
fill rule of ``batch`` as linear forms; empty-input behaviour (min/max/first/last return
undefined; sum starts from ``start``); unique keeps first occurrences (seen-set protocol).
Also: the attribute default is applied at every segment of a dotted path.  
Also: make_multi_attrgetter post-processes every component; prepare_map takes the attribute form only without a filter name.  
Not decided: sortedness / partition properties over all inputs - they quantify over values.
"""

from __future__ import annotations

import ast

from .. import astq
from ..core import Ctx
from ..effects import no_argument_mutation
from ..twins import filter_twin_rules


def check(ctx: Ctx) -> str:
    ctx.use("filters", "async_utils", "tests")
    repo = ctx.repo
    filter_twin_rules(ctx, "R1", "R3", "R4")
    no_argument_mutation(ctx, "R2")

    ctx.rule("R5", "attribute access and case handling: sort/unique/min/max/groupby build their key with make_attrgetter / make_multi_attrgetter and `ignore_case if not case_sensitive else None`; dictsort lowers keys unless case_sensitive")
    for fname, getter in (("do_sort", "make_multi_attrgetter"), ("sync_do_unique", "make_attrgetter"), ("_min_or_max", "make_attrgetter"), ("sync_do_groupby", "make_attrgetter"), ("do_groupby", "make_attrgetter")):
        fi = repo.func(f"filters:{fname}")
        cs = [c for c in astq.calls(fi.nnode) if astq.callee(c) == getter]
        ctx.check(bool(cs), f"{fname}:getter", f"filters:{fname}", f"uses {getter}", f"{fname} must resolve attributes through {getter} (environment.getitem based, sandbox aware)", fi.loc())
        if cs:
            # normal form: negated tests are made positive, single-use locals inlined
            pp = [ast.unparse(k.value) for k in cs[0].keywords if k.arg == "postprocess"]
            ctx.check(pp == ["None if case_sensitive else ignore_case"], f"{fname}:case", f"filters:{fname}", "case post-processing", f"{fname} must compare case-insensitively exactly when case_sensitive is false (postprocess={pp})", fi.loc(cs[0]))
    # a dotted path applies the default at *every* step: an intermediate attribute that is
    # missing yields the default instead of subscripting an Undefined (which raises)
    mg = repo.func("filters:make_attrgetter")
    loops_ = [l_ for l_ in ast.walk(mg.node) if isinstance(l_, ast.For) and isinstance(l_.target, ast.Name) and any(astq.callee(c) == "environment.getitem" for c in astq.calls(l_))]
    ctx.need(len(loops_) == 1, "make_attrgetter: the loop over the path parts was not found")
    subst = [a for a in ast.walk(loops_[0]) if isinstance(a, ast.Assign) and ast.unparse(a.value) == "default" and isinstance(a.targets[0], ast.Name)]
    ok_d = len(subst) == 1
    if ok_d:
        at_ = [a_ for a_ in astq.guard_atoms(mg.node, subst[0]) if a_ not in astq.guard_atoms(mg.node, loops_[0])]  # (named sub-tests such as `has_default = default is not None` are resolved)
        itv = subst[0].targets[0].id  # type: ignore[attr-defined]
        need_ = [("default is None", False), (f"isinstance({itv}, Undefined)", True)]
        ok_d = all(a_ in at_ for a_ in need_) and all(a_ in need_ or a_[0].isidentifier() for a_ in at_)
    ctx.check(ok_d, "make_attrgetter:default-per-part", "filters:make_attrgetter", "default not substituted after each part of the path",
              "make_attrgetter must replace an undefined intermediate value by `default` inside the loop over the dotted path (under exactly `default is not None and isinstance(item, Undefined)`): applied only after the loop, `map(attribute='address.city', default='?')` raises UndefinedError for an item without `address` instead of yielding the default",
              mg.loc(loops_[0]))
    # a multi-attribute key post-processes (lowers) *every* component: the call of postprocess is
    # inside the iteration over the attribute list
    mm = repo.func("filters:make_multi_attrgetter")
    ppc = [c for c in astq.calls(mm.node) if astq.callee(c) == "postprocess"]
    def _in_parts_loop(c: ast.AST) -> bool:
        for l_ in ast.walk(mm.node):
            if isinstance(l_, ast.For) and "parts" in {x.id for x in ast.walk(l_.iter) if isinstance(x, ast.Name)} and any(x is c for b_ in l_.body for x in ast.walk(b_)):
                return True
            if isinstance(l_, (ast.ListComp, ast.GeneratorExp)) and any(x is c for x in ast.walk(l_.elt)):
                return True
        return False
    ctx.check(bool(ppc) and all(_in_parts_loop(c) for c in ppc), "make_multi_attrgetter:postprocess-per-part", "filters:make_multi_attrgetter", "postprocess applied outside the loop over the attributes" if ppc else "postprocess never applied",
              "make_multi_attrgetter must apply `postprocess` (ignore_case) to the value of every attribute, inside the loop over `parts`: applied after the loop only the last component is lowered and `sort(attribute='a,b')` compares the first key case-sensitively although case_sensitive is false",
              mm.loc(ppc[0]) if ppc else mm.loc())
    ic = repo.func("filters:ignore_case")
    s = ic.ntext
    ic_rets = {ast.unparse(r_.value): astq.guard_atoms(ic.nnode, r_) for r_ in astq.returns(ic.nnode) if r_.value is not None}
    low = [g_ for v_, g_ in ic_rets.items() if "value.lower()" in v_]
    ctx.check(len(low) == 1 and ("isinstance(value, str)", True) in low[0] and ("isinstance(value, str)", False) in ic_rets.get("value", []), "ignore_case", "filters:ignore_case", "lower strings only", "ignore_case must lower strings and leave other values alone", ic.loc())
    ds = repo.func("filters:do_dictsort")
    s = ds.ntext  # a local naming value.items() is inlined
    lowered = [a for a in ast.walk(ds.node) if isinstance(a, ast.Assign) and isinstance(a.value, ast.Call) and astq.callee(a.value) == "ignore_case" and len(a.value.args) == 1 and ast.unparse(a.targets[0]) == ast.unparse(a.value.args[0])]
    low_ok = len(lowered) == 1 and astq.guard_atoms(ds.node, lowered[0]) == [("case_sensitive", False)]
    ctx.check(low_ok and "sorted(value.items(), key=sort_func, reverse=reverse)" in s, "dictsort", "filters:do_dictsort", "dictsort key", "dictsort must sort items by key or value, lowering strings unless case_sensitive", ds.loc())
    ctx.check("pos = 0" in s and "pos = 1" in s and "by == 'key'" in s and "by == 'value'" in s and "raise FilterArgumentError" in s, "dictsort:by", "filters:do_dictsort", "by argument", "dictsort's `by` must select key (0) / value (1) and reject anything else", ds.loc())
    so = repo.func("filters:do_sort")
    ctx.check("sorted(value, key=key_func, reverse=reverse)" in ast.unparse(so.node), "sort:stable", "filters:do_sort", "sorted()", "sort must use sorted() (stable) with the attribute key and reverse flag", so.loc())
    gb = repo.func("filters:sync_do_groupby")
    ctx.check("groupby(sorted(value, key=expr), expr)" in gb.ntext, "groupby:sorted", "filters:sync_do_groupby", "sort before grouping with the same key", "groupby must group the input sorted by the same key function", gb.loc())

    ctx.rule("R6", "slice / batch arithmetic as linear forms; fill rules")
    sl = repo.func("filters:sync_do_slice")
    assigns = {ast.unparse(n.targets[0]): n.value for n in ast.walk(sl.node) if isinstance(n, ast.Assign) and isinstance(n.targets[0], ast.Name)}
    ctx.check(ast.unparse(assigns.get("items_per_slice", ast.Constant(0))) == "length // slices" and ast.unparse(assigns.get("slices_with_extra", ast.Constant(0))) == "length % slices", "slice:divmod", "filters:sync_do_slice", "items per slice", "slice must distribute length // slices items per slice and length % slices extra items", sl.loc())
    ctx.check(ast.unparse(assigns.get("start", ast.Constant(0))) == "offset + slice_number * items_per_slice" and ast.unparse(assigns.get("end", ast.Constant(0))) == "offset + (slice_number + 1) * items_per_slice", "slice:bounds", "filters:sync_do_slice", "slice bounds", "slice bounds must be offset + k * items_per_slice .. offset + (k + 1) * items_per_slice", sl.loc())
    s = ast.unparse(sl.node)
    ctx.check("if slice_number < slices_with_extra:\n            offset += 1" in s, "slice:extra", "filters:sync_do_slice", "extra item for the first slices", "the first `length % slices` slices get one extra item", sl.loc())
    fills = [c for c in astq.calls(sl.node) if astq.attr_tail(c) == "append" and c.args and ast.unparse(c.args[0]) == "fill_with"]
    fill_ok = len(fills) == 1 and sorted(astq.guard_atoms(sl.node, fills[0])) == sorted([("fill_with is None", False), ("slice_number >= slices_with_extra", True)])
    ctx.check(fill_ok, "slice:fill", "filters:sync_do_slice", "fill rule", "slices without an extra item are filled when fill_with is given", sl.loc())
    ba = repo.func("filters:do_batch")
    s = ast.unparse(ba.node)
    # the current batch is whatever list the function yields (its name does not matter)
    ys_ = [y for y in ast.walk(ba.node) if isinstance(y, ast.Yield) and isinstance(y.value, ast.Name)]
    bv = ys_[0].value.id if ys_ else "tmp"  # type: ignore[union-attr]
    full = [y for y in ys_ if (f"len({bv}) == linecount", True) in astq.guard_atoms(ba.node, y)]
    ctx.check(len(full) == 1 and f"{bv} = []" in s, "batch:full", "filters:do_batch", "emit full batches", "batch must emit a batch when it holds linecount items", ba.loc())
    aug = [n for n in ast.walk(ba.node) if isinstance(n, ast.AugAssign) and ast.unparse(n.target) == bv]
    ok = len(aug) == 1 and isinstance(aug[0].value, ast.BinOp) and isinstance(aug[0].value.op, ast.Mult) and ast.unparse(aug[0].value.left) == "[fill_with]" and astq.linear(aug[0].value.right) == {"linecount": 1, f"len({bv})": -1}
    ctx.check(ok, "batch:fill", "filters:do_batch", "fill count", f"the last batch must be filled with linecount - len({bv}) items", ba.loc())
    ctx.check(bool(aug) and sorted(a_ for a_ in astq.guard_atoms(ba.node, aug[0]) if a_[0] != bv) == sorted([("fill_with is None", False), (f"len({bv}) < linecount", True)]), "batch:fill-guard", "filters:do_batch", "fill guard", "filling happens only with fill_with given and a short last batch", ba.loc())

    ctx.rule("R7", "empty input: first / last / min / max return environment.undefined; unique keeps first occurrences via a seen set; sum starts from start; map/select/reject do nothing for an empty input")
    for fname, exc in (("sync_do_first", "StopIteration"), ("do_first", "StopAsyncIteration"), ("do_last", "StopIteration"), ("_min_or_max", "StopIteration")):
        fi = repo.func(f"filters:{fname}")
        hs = [h for h in ast.walk(fi.node) if isinstance(h, ast.ExceptHandler)]
        ok = len(hs) == 1 and ast.unparse(hs[0].type) == exc and "environment.undefined(" in ast.unparse(hs[0])
        ctx.check(ok, f"{fname}:empty", f"filters:{fname}", "empty input", f"{fname} must return an undefined value for an empty input (catching exactly {exc})", fi.loc())
    un = repo.func("filters:sync_do_unique")
    s = ast.unparse(un.node)
    # (any names, guard written either way: `if key not in seen:` around, or `if key in seen: continue` before)
    seen_sets = {t_.id for a_ in ast.walk(un.node) if isinstance(a_, ast.Assign) and ast.unparse(a_.value) == "set()" for t_ in a_.targets if isinstance(t_, ast.Name)}
    uq_ok = False
    for y_ in [y for y in ast.walk(un.node) if isinstance(y, ast.Yield)]:
        ats_ = astq.guard_atoms(un.node, y_)
        mem = [a_ for a_ in ats_ if not a_[1] and " in " in a_[0] and a_[0].rsplit(" in ", 1)[1] in seen_sets]
        if len(mem) == 1:
            k_, s_ = mem[0][0].rsplit(" in ", 1)
            adds_ = [c for c in astq.calls(un.node) if ast.unparse(c.func) == f"{s_}.add" and len(c.args) == 1 and ast.unparse(c.args[0]) == k_ and mem[0] in astq.guard_atoms(un.node, c)]
            uq_ok = len(adds_) == 1
    ctx.check(uq_ok, "unique", "filters:sync_do_unique", "first occurrences", "unique must yield an item exactly when its key was not seen before, then record it", un.loc())
    sm = repo.func("filters:sync_do_sum")
    ctx.check("sum(iterable, start)" in ast.unparse(sm.node), "sum", "filters:sync_do_sum", "start value", "sum must start from `start`", sm.loc())
    mm = repo.func("filters:_min_or_max")
    ctx.check("func(chain([first], it), key=key_func)" in ast.unparse(mm.node), "minmax", "filters:_min_or_max", "keeps the first item", "min/max must include the item consumed by the emptiness probe", mm.loc())
    for fname in ("do_min", "do_max"):
        fi = repo.func(f"filters:{fname}")
        want = "min" if fname == "do_min" else "max"
        ctx.check(f"_min_or_max(environment, value, {want}, case_sensitive, attribute)" in ast.unparse(fi.node), f"{fname}", f"filters:{fname}", "aggregate function", f"{fname} must aggregate with builtin {want}", fi.loc())
    rv = repo.func("filters:do_reverse")
    ctx.check("value[::-1]" in ast.unparse(rv.node) and "reversed(value)" in ast.unparse(rv.node), "reverse", "filters:do_reverse", "reverse", "reverse must reverse strings by slicing and iterables with reversed()", rv.loc())
    fresh_list_rule(ctx, "R8")
    ctx.rule("R9", "map: the attribute form is chosen only when no filter name was given - prepare_map's attribute branch is guarded by `not args and 'attribute' in kwargs`")
    pm = repo.func("filters:prepare_map")
    # the attribute branch is where `kwargs.pop('attribute')` happens (if-body or else-body, test written either way)
    ifs = [c for c in astq.calls(pm.node) if ast.unparse(c.func) == "kwargs.pop" and c.args and ast.unparse(c.args[0]) == "'attribute'"]
    ctx.need(len(ifs) == 1, "prepare_map: the attribute branch was not found")
    at_ = set(astq.guard_atoms(pm.node, ifs[0]))
    ctx.check(at_ == {("args", False), ("'attribute' in kwargs", True)}, "map:attribute-branch", "filters:prepare_map", f"attribute branch under {sorted(at_)}",
              f"prepare_map takes the attribute-lookup branch under {sorted(at_)} (required: no positional filter name and an `attribute` keyword): `map('sum', attribute='n')` then never calls the named filter and silently yields the attribute lookup",
              pm.loc(ifs[0]))

    return __doc__ or ""


def fresh_list_rule(ctx: Ctx, rid: str) -> None:
    """The async twins materialise their input with auto_to_list where the sync forms call
    list(...): both must hand out a *new* list - returning the argument makes `x|list`
    an alias of the caller's list in async mode only (a later append shows up in the data,
    and in every concurrent render sharing it)."""
    ctx.use("async_utils", "filters")
    repo = ctx.repo
    ctx.rule(rid, "materialising helpers return a fresh list on every path: auto_to_list's returns are list displays / comprehensions / list(...) calls, never its argument; the sync list filter is list(value)")
    al = repo.func("async_utils:auto_to_list")
    rets = astq.returns(al.nnode)  # normal form: an append loop into a fresh list is the comprehension it spells out
    ctx.floor("returns in auto_to_list", len(rets), 1)
    params = set(al.params())
    for r in rets:
        v = r.value
        fresh = isinstance(v, (ast.ListComp, ast.List)) or (isinstance(v, ast.Call) and astq.callee(v) in ("list", "sorted"))
        alias = v is not None and any(isinstance(n_, ast.Name) and n_.id in params for n_ in [v])
        ctx.check(fresh and not alias, f"auto_to_list:return:{ast.unparse(v)[:30] if v is not None else None}", "async_utils:auto_to_list", f"returns `{ast.unparse(v)[:40] if v is not None else None}`",
                  f"auto_to_list returns `{ast.unparse(v) if v is not None else None}`, which is (or may be) the caller's own object instead of a new list: in async mode `items|list` then aliases `items`, so `{{% set w = items|list %}}{{% set _ = w.append(x) %}}` modifies the render data while the sync filter copies", al.loc(r))
    dl = repo.func("filters:sync_do_list")
    rl = astq.returns(dl.node)
    ctx.check(len(rl) == 1 and ast.unparse(rl[0].value) == "list(value)", "sync_do_list:copy", "filters:sync_do_list", "list filter copies", "the list filter must return list(value)", dl.loc())
