"""C15 - autoescaping never lets unescaped data or string literals into the output.

Decided statically: (skeletons) every printed expression is wrapped by the escaping call
selected by the frame's (volatile, autoescape) state and constants are folded only for
non-volatile frames, escaped at compile time under autoescape; every run-time escaping
selector tests ``context.eval_ctx.autoescape`` and exists exactly for volatile frames; the
Markup trust inventory - every ``Markup(...)`` construction of the package is an explicit
safe API, rendered output, template text, or wraps a value the trust flow proves escaped or
literal (utils.urlize's return value included); capture sites mark content safe exactly
under autoescape; xmlattr / urlize return Markup only when autoescaping.
Also: one EvalContext(environment, name) per template, every Frame built from it.  
Not decided: the semantics of every filter on every value.
"""

from __future__ import annotations

from ..core import Ctx
from ..escrules import capture_site_rules, output_wrapping_rule, runtime_selector_rule
from ..markup import markup_inventory
from .c24 import markup_only_under_autoescape


def check(ctx: Ctx) -> str:
    ctx.use('compiler', 'nodes', 'filters', 'runtime', 'utils', 'ext', 'environment')
    output_wrapping_rule(ctx, "R1")
    runtime_selector_rule(ctx, "R3")
    markup_inventory(ctx, "R4")
    capture_site_rules(ctx, "R6")
    markup_only_under_autoescape(ctx, "R5")
    from .c37 import derived_context_rule

    derived_context_rule(ctx, "R7")
    from ..escrules import template_eval_ctx_rule

    template_eval_ctx_rule(ctx, "R8")
    # an overlay with other options (autoescape, sandbox interception) must compile its own
    # templates: it starts with an empty cache (rule owned by C25)
    from . import c25

    ctx.run_imported("C25", {"R4"}, c25.check)
    return __doc__ or ""
