"""C31 - precompiled templates render exactly like templates compiled from source.

Decided statically: (skeletons of visit_Template) with ``defer_init`` no emitted function binds
``environment`` as a default argument at definition time and without it every root / block
function does - that is the only difference between the two module forms; compile_templates
compiles with raw=True, defer_init=True in the right positional slots and names each module
with the same key function ModuleLoader uses to find it; loading a module installs the
environment into the module namespace before any template function can run and builds the
template from the same namespace keys the generator emits (name, blocks, root, debug_info).
Also: the fake package name is derived from id(self).  
Also: get_template_key hashes the name as given; list_templates' extension filter splits at the last dot.  
Not decided: output equality for all template sets.
"""

from __future__ import annotations

import ast

from .. import astq
from ..core import Ctx
from ..emitrules import get_paths
from ..emitrules import reparse


def check(ctx: Ctx) -> str:
    ctx.use("environment", "loaders", "compiler")
    repo = ctx.repo
    ctx.rule("R1", "(skeletons) defer_init: emitted root/block functions take `environment=environment` as a default exactly when defer_init is off; nothing else differs")
    res = get_paths(ctx, ["visit_Template"])
    n = 0
    by_flags: dict[tuple, dict[bool, str]] = {}
    for p, sk in res["visit_Template"]:
        if p.outcome != "normal" or sk.error:
            continue
        tree = reparse(sk, "visit_Template", "stmt")
        if tree is None:
            continue
        n += 1
        di = bool(p.decisions.get("self.defer_init"))
        defs = [d for d in ast.walk(tree) if isinstance(d, (ast.FunctionDef, ast.AsyncFunctionDef)) and (d.name == "root" or d.name.startswith("block_"))]
        for d in defs:
            names = [a.arg for a in d.args.args]
            has = "environment" in names
            ctx.check(has != di and names[0] == "context" and "missing" in names, f"def:{n}:{d.name}", "compiler:CodeGenerator.visit_Template", f"defer_init={di}: {d.name}({', '.join(names)})",
                      f"with defer_init={di} the function {d.name} has parameters {names}: a precompiled module must not capture `environment` at import time (it is installed later by the loader), a normally compiled one binds it as a default", "src/jinja2/compiler.py")
        key = tuple(sorted((k, v) for k, v in p.decisions.items() if k != "self.defer_init"))
        by_flags.setdefault(key, {})[di] = sk.text.replace(", environment=environment", "")
    for key, d in by_flags.items():
        if True in d and False in d:
            ctx.check(d[True] == d[False], f"same:{hash(key) % 10000}", "compiler:CodeGenerator.visit_Template", "defer_init changes more than the environment default", "the module generated with defer_init must equal the normal module except for the environment default argument", "src/jinja2/compiler.py")
    ctx.floor("visit_Template skeletons", n, 100)
    # no other emitting method may look at defer_init: the bodies of a precompiled module and
    # of a source-compiled one are the same code (in particular `environment` is never rebound
    # from the render context - a parent given as a Template object of another environment
    # must keep running with its own filters, tests and loader)
    allres = get_paths(ctx)
    nall = 0
    for entry, items in sorted(allres.items()):
        nall += 1
        dep = sorted({k for p, _ in items for k in p.decisions if "defer_init" in k})
        if entry == "visit_Template":
            continue
        ctx.check(not dep, f"defer-free:{entry}", f"compiler:CodeGenerator.{entry}", f"emission depends on {dep}",
                  f"{entry} emits different code when defer_init is set ({dep}): precompiled templates then run code that source-compiled templates do not", "src/jinja2/compiler.py")
        rebinding = [ln.strip() for _, sk in items if not sk.error for ln in sk.text.splitlines() if ln.strip().startswith("environment = ")]
        ctx.check(not rebinding, f"env-rebound:{entry}", f"compiler:CodeGenerator.{entry}", f"emits `{rebinding[0] if rebinding else ''}`",
                  f"{entry} emits `{rebinding[0] if rebinding else ''}`: generated code must use the environment its module was created for (definition-time default or module global), not one taken from the render context", "src/jinja2/compiler.py")
    ctx.floor("emitting methods scanned for defer_init", nall, 60)

    ctx.rule("R2", "compile_templates compiles each source with raw=True, defer_init=True and stores it under ModuleLoader.get_module_filename(name); ModuleLoader.load looks the module up with get_template_key(name)")
    ct = repo.func("environment:Environment.compile_templates")
    comp = repo.func("environment:Environment.compile")
    cs = [c for c in astq.calls(ct.node) if astq.callee(c) == "self.compile"]
    ctx.need(len(cs) == 1, "compile_templates no longer calls self.compile")
    params = comp.params()[1:]
    bound = dict(zip(params, [ast.unparse(a) for a in cs[0].args]))
    bound.update({k.arg: ast.unparse(k.value) for k in cs[0].keywords})
    ctx.check(bound.get("raw") == "True" and bound.get("defer_init") == "True" and bound.get("source") == "source" and bound.get("name") == "name" and bound.get("filename") == "filename", "compile:args", "environment:Environment.compile_templates", f"compile arguments {bound}",
              f"compile_templates must call compile(source, name, filename, raw=True, defer_init=True); bound as {bound}", ct.loc(cs[0]), detail=bound)
    s = ast.unparse(ct.node)
    ctx.check("filename = ModuleLoader.get_module_filename(name)" in s and "write_file(filename, code)" in s, "compile:filename", "environment:Environment.compile_templates", "module file name", "modules must be stored under ModuleLoader.get_module_filename(name)", ct.loc())
    # the module text is Python source without a coding cookie, so the importer reads it as
    # UTF-8: it has to be written as UTF-8 whatever the process locale is
    opens = [c for c in astq.calls(ct.node) if astq.callee(c) == "open"]
    ctx.floor("open() calls in compile_templates", len(opens), 1)
    for c in opens:
        mode = ast.unparse(c.args[1]) if len(c.args) > 1 else next((ast.unparse(k.value) for k in c.keywords if k.arg == "mode"), "'r'")
        enc = next((ast.unparse(k.value).strip("'\"").lower().replace("-", "") for k in c.keywords if k.arg == "encoding"), None)
        binary = "b" in mode
        ok = binary or enc == "utf8"
        if binary:
            wr = [w for w in astq.calls(ct.node) if astq.attr_tail(w) == "write" and w.args]
            ok = any(isinstance(w.args[0], ast.Call) and astq.attr_tail(w.args[0]) == "encode" and w.args[0].args and ast.unparse(w.args[0].args[0]).strip("'\"").lower().replace("-", "") == "utf8" for w in wr)
        ctx.check(ok, f"compile:encoding:{mode}", "environment:Environment.compile_templates", f"module file written with mode {mode}, encoding {enc}",
                  f"compile_templates writes the generated module with open(..., {mode}{'' if enc is None else ', encoding=' + enc}): Python imports the file as UTF-8, so it must be written as UTF-8 bytes (or text with encoding='utf-8'); with the locale's encoding a template containing non-ASCII text fails to compile or load under a non-UTF-8 locale, while the same template loads from source", ct.loc(c))
    gen = repo.func("environment:Environment._generate")
    ctx.check("defer_init=defer_init" in gen.ntext and "optimized=self.optimized" in gen.ntext, "generate:passes", "environment:Environment._generate", "options passed on", "_generate must pass defer_init and optimized to the code generator", gen.loc())
    gf = repo.func("loaders:ModuleLoader.get_module_filename")
    gk = repo.func("loaders:ModuleLoader.get_template_key")
    _parts = astq.text_parts

    ctx.check(_parts(astq.returns(gf.nnode)[0].value) == ["ModuleLoader.get_template_key(name)", "'.py'"], "key:filename", "loaders:ModuleLoader.get_module_filename", "file name from the key", "the module file name must be get_template_key(name) + '.py'", gf.loc())
    ctx.check(_parts(astq.returns(gk.nnode)[0].value) == ["'tmpl_'", "sha1(name.encode('utf-8')).hexdigest()"], "key:hash", "loaders:ModuleLoader.get_template_key", "key function", "the template key must be tmpl_<sha1 of the name>", gk.loc())
    # ... of the name exactly as given: templates are distinct whenever their names are (a
    # DictLoader / FunctionLoader template "./a" is not "a"), so neither function rewrites `name`
    for f_ in (gf, gk):
        rb = [x for x in ast.walk(f_.node) if isinstance(x, ast.Name) and x.id == "name" and isinstance(x.ctx, ast.Store)]
        ctx.check(not rb, f"key:name-unmodified:{f_.node.name}", f"loaders:ModuleLoader.{f_.node.name}", "the template name is rewritten before hashing" if rb else "name hashed as given",
                  f"ModuleLoader.{f_.node.name} rebinds `name` before computing the key: two distinct template names of the source loader ('./a.html' and 'a.html' are different entries of a DictLoader) collapse into one module file, so after precompilation one of them renders the other's content",
                  f_.loc(rb[0]) if rb else f_.loc())
    ld = repo.func("loaders:ModuleLoader.load")
    s = ast.unparse(ld.node)
    imps = [c for c in astq.calls(ld.node) if astq.callee(c) == "__import__" and c.args]
    imported = _parts(_resolve_local(ld.node, imps[0].args[0], deep=True)) if len(imps) == 1 else []
    ctx.check(imported == ["self.package_name", "'.'", "self.get_template_key(name)"] and "from_module_dict(environment, mod.__dict__, globals)" in s, "load:key", "loaders:ModuleLoader.load", "lookup by the same key", "ModuleLoader.load must import <package>.<get_template_key(name)> and build the template from the module dict", ld.loc())
    hs = [h for h in ast.walk(ld.node) if isinstance(h, ast.ExceptHandler)]
    ctx.check(len(hs) == 1 and ast.unparse(hs[0].type) == "ImportError" and "TemplateNotFound(name)" in ast.unparse(hs[0]), "load:missing", "loaders:ModuleLoader.load", "missing module", "a missing module must raise TemplateNotFound", ld.loc())

    ctx.rule("R3", "Template._from_namespace installs the environment into the module namespace and reads exactly the keys the generator emits")
    fn = repo.func("environment:Template._from_namespace")
    s = ast.unparse(fn.node)
    made = [a for a in ast.walk(fn.node) if isinstance(a, (ast.Assign, ast.AnnAssign)) and a.value is not None and ast.unparse(a.value) == "object.__new__(cls)"]
    tv = ast.unparse(made[0].targets[0] if isinstance(made[0], ast.Assign) else made[0].target) if len(made) == 1 else "t"
    ctx.check("namespace['environment'] = environment" in s and f"namespace['__jinja_template__'] = {tv}" in s, "namespace:environment", "environment:Template._from_namespace", "environment installed", "the loading environment must be stored in the module namespace (deferred-init modules read it from there)", fn.loc())
    read = sorted({n_.slice.value for n_ in ast.walk(fn.node) if isinstance(n_, ast.Subscript) and ast.unparse(n_.value) == "namespace" and isinstance(n_.ctx, ast.Load) and isinstance(n_.slice, ast.Constant)})
    vt = ast.unparse(repo.func("compiler:CodeGenerator.visit_Template").node)
    emitted = {"name": "name = {self.name!r}" in vt, "blocks": "blocks = {{" in vt, "root": "self.func('root')" in vt, "debug_info": "debug_info = {" in vt, "__file__": True}
    ctx.check(all(emitted.get(k, False) for k in read), "namespace:keys", "environment:Template._from_namespace", f"reads {read}", f"_from_namespace reads {read}; the generated module defines {sorted(k for k, v in emitted.items() if v)}", fn.loc(), detail={"read": read})
    fc = repo.func("environment:Template.from_code")
    s = fc.ntext  # (normal form: a local naming code.co_filename is inlined)
    ctx.check("namespace = {'environment': environment, '__file__': code.co_filename}" in s and "exec(code, namespace)" in s, "from_code:namespace", "environment:Template.from_code", "execution namespace", "normally compiled code must be executed with environment and __file__ in its namespace", fc.loc())
    fm = repo.func("environment:Template.from_module_dict")
    ctx.check("cls._from_namespace(environment, module_dict, globals)" in ast.unparse(fm.node), "from_module_dict", "environment:Template.from_module_dict", "same constructor", "precompiled modules must go through the same _from_namespace", fm.loc())

    ctx.rule("R4", "namespace ownership: _from_namespace writes the loading environment into the namespace it is given, so every namespace handed to it is fresh per load - a dict literal (from_code) or the dict of a module imported for this load and removed from sys.modules; a lookup of an already loaded module under the name the import system binds it to would share one namespace between environments")
    _namespace_freshness(ctx, repo, ld)
    # a precompiled template has no uptodate callable and counts as current: it is loaded once,
    # like its source twin (rule owned by C25)
    from . import c25

    ctx.run_imported("C25", {"R3"}, c25.check)
    ctx.rule("R5", "compile_templates selects by the extension after the *last* dot: list_templates' extension filter derives it with rsplit / rpartition / splitext")
    lt = repo.func("environment:Environment.list_templates")
    tests_ = [c for c in ast.walk(lt.node) if isinstance(c, ast.Compare) and any(isinstance(o, ast.In) for o in c.ops) and ast.unparse(c.comparators[-1]) == "extensions"]
    ctx.need(bool(tests_), "list_templates: the extension membership test was not found")
    for c in tests_:
        how = {astq.attr_tail(x) for x in astq.calls(c.left)} | {astq.attr_tail(x) for a in ast.walk(lt.node) if isinstance(a, ast.Assign) and isinstance(c.left, ast.Name) and any(isinstance(t_, ast.Name) and t_.id == c.left.id for t_ in a.targets) for x in astq.calls(a.value)}
        ok = bool(how & {"rsplit", "rpartition", "splitext"}) and not (how & {"split", "partition"})
        ctx.check(ok, "extension:last-dot", "environment:Environment.list_templates", f"extension derived with {sorted(how)}",
                  f"list_templates derives the extension with {sorted(how)}: split from the *first* dot, `mail.en.html` has the extension `en.html`, is left out of `compile_templates(extensions=['html'])`, and the precompiled set raises TemplateNotFound where source loading works",
                  lt.loc(c))

    return __doc__ or ""


def _resolve_local(fn: ast.AST, e: ast.AST, deep: bool = False) -> ast.AST:
    """Follow plain local temporaries (assigned once) to their value; with ``deep`` also inside
    f-strings, so that the name of a temporary does not matter."""
    from ..normalize import clone

    def single(name: str) -> ast.AST | None:
        src = [a for a in ast.walk(fn) if isinstance(a, ast.Assign) and len(a.targets) == 1 and isinstance(a.targets[0], ast.Name) and a.targets[0].id == name]
        if len(src) != 1 or any(isinstance(x, ast.Name) and x.id == name for x in ast.walk(src[0].value)):
            return None  # (a rebinding in terms of itself, `path = [path]`, is not a plain temporary)
        return src[0].value

    for _ in range(6):
        if isinstance(e, ast.Name):
            v = single(e.id)
            if v is None:
                break
            e = v
        else:
            break
    if deep and not isinstance(e, ast.Name):
        e = clone(e)

        class _R(ast.NodeTransformer):
            def visit_Name(self, n: ast.Name) -> ast.AST:
                if isinstance(n.ctx, ast.Load) and single(n.id) is not None:
                    return _resolve_local(fn, n, deep=True)
                return n

        e = _R().visit(e)
    return e


def _namespace_freshness(ctx: Ctx, repo, ld) -> None:
    """The module namespace is per Template object: source loading executes the code in a
    new dict for every load, so module loading must not hand the same module dict to
    templates of two environments (the ``environment`` slot is overwritten on every load)."""
    fn = ld.node
    # the value that reaches from_module_dict
    calls = [c for c in astq.calls(fn) if astq.callee(c).endswith("from_module_dict")]
    ctx.need(len(calls) == 1 and len(calls[0].args) >= 2, "from_module_dict call not found in ModuleLoader.load")
    ns = calls[0].args[1]
    ctx.need(isinstance(ns, ast.Attribute) and ns.attr == "__dict__" and isinstance(ns.value, ast.Name), f"namespace argument is {ast.unparse(ns)}, expected <module>.__dict__")
    var = ns.value.id
    defs = [a for a in ast.walk(fn) if isinstance(a, ast.Assign) and any(isinstance(t_, ast.Name) and t_.id == var for t_ in a.targets)]
    ctx.floor("definitions of the loaded module variable", len(defs), 1)

    def resolve(e: ast.AST) -> ast.AST:
        seen = 0
        while isinstance(e, ast.Name) and seen < 5:
            src = [a for a in ast.walk(fn) if isinstance(a, ast.Assign) and len(a.targets) == 1 and isinstance(a.targets[0], ast.Name) and a.targets[0].id == e.id]
            if len(src) != 1:
                break
            e = src[0].value
            seen += 1
        return e

    # the attribute name under which the import system binds the submodule on the package:
    # the last dotted component of the imported name
    imports = [c for c in astq.calls(fn) if astq.callee(c) in ("__import__", "importlib.import_module", "import_module")]
    child: str | None = None
    for c in imports:
        nm = resolve(c.args[0])
        if isinstance(nm, ast.JoinedStr) and nm.values:
            last = nm.values[-1]
            if isinstance(last, ast.FormattedValue):
                child = ast.unparse(resolve(last.value))
            elif isinstance(last, ast.Constant) and isinstance(last.value, str):
                child = repr(last.value.rsplit(".", 1)[-1])
    # nobody else stores attributes on the package module
    writers = []
    for f2 in astq.all_funcdefs(repo.module("loaders").tree):
        for n_ in ast.walk(f2):
            if isinstance(n_, ast.Call) and astq.callee(n_) == "setattr" and n_.args and ast.unparse(n_.args[0]) == "self.module":
                writers.append(astq.qualname(f2))
    ctx.check(not writers, "ns:no-setattr", "loaders:ModuleLoader", f"setattr(self.module, ...) in {writers}", "storing loaded modules on the package module creates a namespace shared between loads", ld.loc())
    for a in defs:
        v = a.value
        what = ast.unparse(v)
        if isinstance(v, ast.Call) and astq.callee(v) in ("__import__", "importlib.import_module", "import_module"):
            # fresh only if the sys.modules entry is dropped again (otherwise the next load
            # gets the cached module object)
            imported = ast.unparse(v.args[0])
            pops = [c for c in astq.calls(fn) if astq.callee(c) in ("sys.modules.pop",) and c.args and ast.unparse(c.args[0]) == imported]
            dels = [d for d in ast.walk(fn) if isinstance(d, ast.Delete) and any(ast.unparse(t_) == f"sys.modules[{imported}]" for t_ in d.targets)]
            ctx.check(bool(pops or dels), "ns:import-fresh", "loaders:ModuleLoader.load", f"{what} without removing sys.modules[{imported}]",
                      f"the module imported by {what} stays in sys.modules: the next load (possibly for another environment) receives the same module object, and Template._from_namespace overwrites its `environment` - templates of the first environment then render with the second environment's filters, tests and undefined type, unlike source loading", ld.loc(v))
        elif isinstance(v, ast.Call) and astq.callee(v) == "getattr" and len(v.args) >= 2 and ast.unparse(v.args[0]) == "self.module":
            looked = ast.unparse(resolve(v.args[1]))
            shared = child is not None and looked == child
            ctx.check(not shared, "ns:lookup", "loaders:ModuleLoader.load", f"{what} finds the module bound by a previous import",
                      f"{what} looks the module up under {looked}, the attribute name the import system binds a loaded submodule to: a second load (from another environment sharing this loader) reuses the same module namespace, and Template._from_namespace overwrites its `environment` slot - the first environment's template now renders with the other environment's filters, tests and undefined type, which loading from source never does", ld.loc(v),
                      detail={"lookup": looked, "import_binds": child})
        elif isinstance(v, ast.Constant) and v.value is None:
            ctx.ok("ns:none", trivial=True)
        else:
            ctx.check(False, "ns:other", "loaders:ModuleLoader.load", f"module namespace from {what}", f"the module whose dict becomes the template namespace comes from {what}: not recognised as fresh per load", ld.loc(v))
    # the fake package a loader registers in sys.modules is its own: the name is derived from
    # the loader object (id(self)), never from something two loaders can share (the path) -
    # otherwise the later loader replaces the earlier one's entry, and its weakref callback
    # removes the entry the surviving loader still imports through
    mi = repo.func("loaders:ModuleLoader.__init__")
    pk = [a for a in ast.walk(mi.node) if isinstance(a, ast.Assign) and len(a.targets) == 1 and isinstance(a.targets[0], ast.Name) and any(isinstance(s_, ast.Subscript) and ast.unparse(s_.value) == "sys.modules" and ast.unparse(s_.slice) == a.targets[0].id for s_ in ast.walk(mi.node))]
    ctx.need(len(pk) == 1, "ModuleLoader.__init__: the package name registered in sys.modules was not found")
    src_txt = ast.unparse(_resolve_local(mi.node, pk[0].value, deep=True))
    ctx.check("id(self)" in src_txt, "ns:package-per-loader", "loaders:ModuleLoader.__init__", f"package name `{src_txt[:60]}` is not derived from the loader object",
              f"ModuleLoader registers its fake package under `{src_txt}`: the name must contain id(self); a name computed from the search path is shared by two loaders on the same directory - the second registration replaces the first, and when the second loader is collected its weakref callback pops the entry, after which the first loader raises TemplateNotFound for every template it has not imported yet",
              mi.loc(pk[0]))
    fc = repo.func("environment:Template.from_code")
    nsdefs = [a for a in ast.walk(fc.node) if isinstance(a, ast.Assign) and any(isinstance(t_, ast.Name) and t_.id == "namespace" for t_ in a.targets)]
    ctx.check(len(nsdefs) == 1 and isinstance(nsdefs[0].value, ast.Dict), "ns:from_code", "environment:Template.from_code", "namespace is a new dict literal", "from_code must execute the code in a new dict per load", fc.loc())
