"""C26 - the LRU cache behaves like a least-recently-used map under any use.

Decided statically: lock discipline (in every method that mutates the mapping or the queue,
*all* accesses to them - reads included - happen inside ``with self._wlock``, with the
``_postinit`` aliases resolved), the shape of the three locked operations (lookup + touch,
evict-before-insert with the capacity test, delete from both structures), orientation
consistency (append right, evict left, iterate reversed), pickle/copy state coverage, and
that the unlocked convenience methods go through the locked primitives.  Also: one lock per cache object - _postinit only from __init__ / __setstate__, no rebinding of the containers on a live cache.  
Not decided:
equivalence with a reference LRU over all histories, linearizability.
"""

from __future__ import annotations

import ast

from .. import astq
from ..core import Ctx

MUTATORS = {"append", "appendleft", "pop", "popleft", "remove", "clear", "extend", "extendleft", "insert", "rotate", "update", "setdefault", "popitem", "reverse", "sort"}


def check(ctx: Ctx) -> str:
    ctx.use("utils")
    repo = ctx.repo
    ci = repo.cls("utils:LRUCache")
    post = repo.func("utils:LRUCache._postinit")
    # aliases: self._x = self._queue.<method>
    aliases: dict[str, tuple[str, str]] = {}
    lock_name = None
    for n in ast.walk(post.nnode):  # normal form: a local naming self._queue is inlined
        if isinstance(n, ast.Assign) and isinstance(n.targets[0], ast.Attribute) and ast.unparse(n.targets[0].value) == "self":
            v = n.value
            if isinstance(v, ast.Attribute) and isinstance(v.value, ast.Attribute) and ast.unparse(v.value.value) == "self":
                aliases[n.targets[0].attr] = (v.value.attr, v.attr)
            elif isinstance(v, ast.Call) and astq.callee(v) in ("Lock", "threading.Lock", "RLock", "threading.RLock"):
                lock_name = n.targets[0].attr
    ctx.rule("R1", "in every method that mutates _mapping/_queue, all accesses to them (reads too) lie inside `with self.<lock>`; aliases from _postinit resolved")
    ctx.need(lock_name, "_postinit no longer creates the write lock")
    ctx.need(len(aliases) >= 4, "queue method aliases not found in _postinit")
    init = repo.func("utils:LRUCache.__init__")
    state_attrs = set()
    for n in ast.walk(init.node):
        if isinstance(n, ast.Assign) and isinstance(n.targets[0], ast.Attribute) and ast.unparse(n.targets[0].value) == "self":
            state_attrs.add(n.targets[0].attr)
        elif isinstance(n, ast.AnnAssign) and isinstance(n.target, ast.Attribute) and ast.unparse(n.target.value) == "self":
            state_attrs.add(n.target.attr)
    shared = {"_mapping", "_queue"}
    ctx.need(shared <= state_attrs, "LRUCache.__init__ no longer creates _mapping/_queue")

    def accesses(fn: ast.AST) -> list[tuple[ast.AST, str, bool]]:
        """(node, structure, is_mutation) for each access to shared state in fn."""
        out = []
        # locals that only name one of the shared containers (`mapping = self._mapping`)
        local_alias = {a_.targets[0].id: a_.value.attr for a_ in ast.walk(fn) if isinstance(a_, ast.Assign) and len(a_.targets) == 1 and isinstance(a_.targets[0], ast.Name)
                       and isinstance(a_.value, ast.Attribute) and ast.unparse(a_.value.value) == "self" and a_.value.attr in shared}
        for a_ in ast.walk(fn):  # ... also bound pairwise: `mapping, queue = self._mapping, self._queue`
            if isinstance(a_, ast.Assign) and len(a_.targets) == 1 and isinstance(a_.targets[0], ast.Tuple) and isinstance(a_.value, ast.Tuple) and len(a_.targets[0].elts) == len(a_.value.elts):
                for t_, v_ in zip(a_.targets[0].elts, a_.value.elts):
                    if isinstance(t_, ast.Name) and isinstance(v_, ast.Attribute) and ast.unparse(v_.value) == "self" and v_.attr in shared:
                        local_alias[t_.id] = v_.attr
        for n in ast.walk(fn):
            if isinstance(n, ast.Name) and n.id in local_alias and isinstance(n.ctx, ast.Load):
                par = getattr(n, "_parent", None)
                mut = (isinstance(par, ast.Attribute) and isinstance(getattr(par, "_parent", None), ast.Call) and par.attr in MUTATORS) or (isinstance(par, ast.Subscript) and isinstance(par.ctx, (ast.Store, ast.Del)))
                out.append((n, local_alias[n.id], mut))
                continue
            if isinstance(n, ast.Attribute) and ast.unparse(n.value) == "self":
                if n.attr in shared:
                    par = getattr(n, "_parent", None)
                    mut = isinstance(n.ctx, (ast.Store, ast.Del))  # rebinding the container
                    if isinstance(par, ast.Attribute) and isinstance(getattr(par, "_parent", None), ast.Call) and par.attr in MUTATORS:
                        mut = True
                    if isinstance(par, ast.Subscript) and isinstance(par.ctx, (ast.Store, ast.Del)):
                        mut = True
                    out.append((n, n.attr, mut))
                elif n.attr in aliases:
                    st, meth = aliases[n.attr]
                    out.append((n, st, meth in MUTATORS))
        return out

    def under_lock(n: ast.AST) -> bool:
        cur = getattr(n, "_parent", None)
        while cur is not None:
            if isinstance(cur, (ast.With, ast.AsyncWith)):
                for it in cur.items:
                    if ast.unparse(it.context_expr) == f"self.{lock_name}":
                        return True
            cur = getattr(cur, "_parent", None)
        return False

    locked_methods = 0
    for name, fn in ci.methods.items():
        if name in ("__init__", "_postinit", "__getstate__", "__setstate__", "__getnewargs__", "copy"):
            continue
        acc = accesses(fn)
        if not any(m for _, _, m in acc):
            continue
        locked_methods += 1
        for n, st, mut in acc:
            ctx.check(under_lock(n), f"{name}:{st}:{n.lineno}:{n.col_offset}", f"utils:LRUCache.{name}", f"{'write' if mut else 'read'} of {st} outside the lock",
                      f"LRUCache.{name} {'mutates' if mut else 'reads'} self.{st} outside `with self.{lock_name}` although the method updates shared state: lookup/touch/evict are not atomic",
                      f"src/jinja2/utils.py:{n.lineno}", detail={"method": name, "access": ast.unparse(getattr(n, '_parent', n))[:50]})
    ctx.floor("locked LRUCache methods", locked_methods, 4)
    # one lock per cache object: the lock and the containers it protects are created when the
    # object is (re)built - __init__ / __setstate__ through _postinit - and never replaced on a
    # live cache: a thread blocked on the old lock would enter its critical section next to a
    # thread holding the new one
    builders = {"__init__", "__setstate__", "_postinit"}
    for name, fn in ci.methods.items():
        if name in builders:
            continue
        for c in astq.calls(fn):
            if astq.callee(c) == "self._postinit":
                ctx.bad(f"utils:LRUCache.{name}", "re-runs _postinit on a live cache", f"LRUCache.{name} calls self._postinit(), which creates a new `{lock_name}`: callers blocked on the old lock and callers taking the new one then mutate the cache concurrently (capacity exceeded, recency order lost)", f"src/jinja2/utils.py:{c.lineno}")
        for n in ast.walk(fn):
            if isinstance(n, ast.Attribute) and ast.unparse(n.value) == "self" and n.attr in (shared | {lock_name}) and isinstance(n.ctx, (ast.Store, ast.Del)):
                ctx.bad(f"utils:LRUCache.{name}", f"rebinds self.{n.attr} on a live cache", f"LRUCache.{name} replaces self.{n.attr}: the queue-method aliases bound in _postinit (and other threads) keep using the old object", f"src/jinja2/utils.py:{n.lineno}")
    ctx.ok("lock-identity", trivial=True)
    # the three primitives exist and are the locked ones
    for prim in ("__getitem__", "__setitem__", "__delitem__", "clear"):
        ctx.need(prim in ci.methods, f"LRUCache.{prim} vanished")

    ctx.rule("R2", "shape of the locked primitives: get = lookup then move-to-end; set = remove-or-evict(capacity reached, popleft) then append + store; del = remove from both")
    from ..normalize import norm as _norm

    # (normal forms: locals that only name self._mapping / self._queue / a popped key are inlined)
    gi = _norm(ci.methods["__getitem__"])
    src = ast.unparse(gi)
    rd = [n for n in ast.walk(gi) if isinstance(n, ast.Subscript) and ast.unparse(n.value) == "self._mapping" and isinstance(n.ctx, ast.Load)]
    ctx.check(bool(rd), "get:lookup", "utils:LRUCache.__getitem__", "lookup", "__getitem__ no longer reads self._mapping[key] (KeyError for a miss)", f"src/jinja2/utils.py:{gi.lineno}")
    ap = [c for c in astq.calls(gi) if isinstance(c.func, ast.Attribute) and (c.func.attr == "_append" or (c.func.attr == "append" and "_queue" in src))]
    rm = [c for c in astq.calls(gi) if isinstance(c.func, ast.Attribute) and c.func.attr in ("_remove", "remove")]
    ctx.check(bool(ap) and bool(rm) and all(ast.unparse(c.args[0]) == "key" for c in ap + rm if c.args), "get:touch", "utils:LRUCache.__getitem__", "move to end",
              "__getitem__ no longer moves the key to the most-recent end (remove + append of the same key)", f"src/jinja2/utils.py:{gi.lineno}")
    # the append must not be skipped when the key is already last only
    if ap:
        gts = astq.guard_texts(gi, ap[0])
        okg = all(("self._queue[-1] != key" in g and pol) or ("self._queue[-1] == key" in g and not pol) for g, pol in gts if "_queue" in g)
        ctx.check(okg, "get:touch-guard", "utils:LRUCache.__getitem__", "touch guard", f"the move-to-end is guarded by {gts}, expected only `self._queue[-1] != key`", f"src/jinja2/utils.py:{gi.lineno}")
    si = _norm(ci.methods["__setitem__"])
    tests = [n for n in ast.walk(si) if isinstance(n, ast.Compare) and "capacity" in ast.unparse(n)]
    ok = False
    for tcmp in tests:
        txt = ast.unparse(tcmp)
        if txt in ("len(self._mapping) == self.capacity", "len(self._mapping) >= self.capacity", "self.capacity == len(self._mapping)", "self.capacity <= len(self._mapping)"):
            ok = True
    ctx.check(ok, "set:capacity-test", "utils:LRUCache.__setitem__", "capacity test", f"eviction is triggered by {[ast.unparse(t) for t in tests]}, expected len(self._mapping) == / >= self.capacity (cache may exceed its capacity or evict early)", f"src/jinja2/utils.py:{si.lineno}",
              detail={"tests": [ast.unparse(t) for t in tests]})
    ev = [n for n in ast.walk(si) if isinstance(n, ast.Delete) and "self._mapping[" in ast.unparse(n)]  # a local naming the evicted key is inlined
    evok = bool(ev) and any(("_popleft" in ast.unparse(e) or "popleft()" in ast.unparse(e)) for e in ev)
    ctx.check(evok, "set:evict-oldest", "utils:LRUCache.__setitem__", "evict from the left", "eviction no longer deletes the mapping entry of the key popped from the left (oldest) end of the queue", f"src/jinja2/utils.py:{si.lineno}")
    if ev and tests:
        gts = astq.guard_texts(si, ev[0])
        # evict only when the key is new
        new_only = any("key in self._mapping" in g and not pol for g, pol in gts)
        ctx.check(new_only, "set:evict-only-new", "utils:LRUCache.__setitem__", "evict only for new keys", "an existing key being overwritten must not trigger an eviction", f"src/jinja2/utils.py:{si.lineno}")
    st_ = [n for n in ast.walk(si) if isinstance(n, ast.Subscript) and ast.unparse(n.value) == "self._mapping" and isinstance(n.ctx, ast.Store)]
    ap2 = [c for c in astq.calls(si) if isinstance(c.func, ast.Attribute) and c.func.attr in ("_append", "append")]
    ctx.check(bool(st_) and bool(ap2) and not astq.guard_texts(si, st_[0]) and not astq.guard_texts(si, ap2[0]), "set:store", "utils:LRUCache.__setitem__", "unconditional append + store",
              "__setitem__ must append the key and store the value on every path", f"src/jinja2/utils.py:{si.lineno}")
    rm2 = [c for c in astq.calls(si) if isinstance(c.func, ast.Attribute) and c.func.attr in ("_remove", "remove")]
    gts2 = astq.guard_texts(si, rm2[0]) if rm2 else []
    # queue invariant: each key once.  The append is unconditional, so the removal of the old
    # position must happen whenever the key is present - under no further condition
    ctx.check(bool(rm2) and [g for g, pol in gts2 if pol] == ["key in self._mapping"] and not [g for g, pol in gts2 if not pol], "set:dedupe", "utils:LRUCache.__setitem__", f"old position removed under {gts2}",
              f"overwriting a key must remove its old queue position whenever the key is present (guards found: {gts2}); since the append is unconditional any extra condition leaves a duplicate in the recency queue, and a later eviction removes a recently used entry or pops a key that is already gone", f"src/jinja2/utils.py:{si.lineno}", detail={"guards": [f"{'' if p else 'not '}{g}" for g, p in gts2]})
    di = _norm(ci.methods["__delitem__"])
    dm = [n for n in ast.walk(di) if isinstance(n, ast.Delete) and "self._mapping[key]" in ast.unparse(n)]
    dq = [c for c in astq.calls(di) if isinstance(c.func, ast.Attribute) and c.func.attr in ("_remove", "remove")]
    ctx.check(bool(dm) and bool(dq), "del:both", "utils:LRUCache.__delitem__", "delete from both structures", "__delitem__ must delete the key from the mapping and from the queue", f"src/jinja2/utils.py:{di.lineno}")
    cl = _norm(ci.methods["clear"])
    cls_ = ast.unparse(cl)
    ctx.check("self._mapping.clear()" in cls_ and "self._queue.clear()" in cls_, "clear:both", "utils:LRUCache.clear", "clear both structures", "clear() must empty both the mapping and the queue", f"src/jinja2/utils.py:{cl.lineno}")

    ctx.rule("R3", "orientation: append on the right, evict from the left, iteration/items from most to least recent (reversed queue)")
    ctx.check(aliases.get("_append") == ("_queue", "append") and aliases.get("_popleft") == ("_queue", "popleft") and aliases.get("_remove") == ("_queue", "remove") and aliases.get("_pop") == ("_queue", "pop"),
              "aliases", "utils:LRUCache._postinit", "queue aliases", f"queue aliases are {aliases}: _append/_popleft/_remove/_pop must be bound to the same-named deque methods", post.loc(), detail=aliases)
    it = ci.methods.get("__iter__")
    ctx.need(it is not None, "LRUCache.__iter__ vanished")
    ctx.check("reversed(" in ast.unparse(it), "iter:reversed", "utils:LRUCache.__iter__", "iteration order", "__iter__ must yield keys most-recent first (reversed queue)", f"src/jinja2/utils.py:{it.lineno}")
    rv = ci.methods.get("__reversed__")
    ctx.check(rv is not None and "reversed(" not in ast.unparse(rv) and "_queue" in ast.unparse(rv), "reversed:plain", "utils:LRUCache.__reversed__", "reverse iteration order", "__reversed__ must iterate the queue oldest first", "src/jinja2/utils.py")
    items = ci.methods.get("items")
    ctx.check(items is not None and ".reverse()" in ast.unparse(items) or (items is not None and "reversed(" in ast.unparse(items)), "items:reversed", "utils:LRUCache.items", "items order", "items() must list most-recent first", "src/jinja2/utils.py")
    # snapshots: unlocked readers iterate over a copy of the queue
    for name in ("items", "__iter__", "__reversed__"):
        fn = ci.methods.get(name)
        if fn is None:
            continue
        s = ast.unparse(fn)
        ctx.check("list(self._queue)" in s or "tuple(self._queue)" in s, f"{name}:snapshot", f"utils:LRUCache.{name}", "snapshot of the queue", f"{name} iterates the live deque (RuntimeError: deque mutated during iteration under concurrent use)", f"src/jinja2/utils.py:{fn.lineno}")

    ctx.rule("R4", "pickle / copy keep capacity, contents and order; derived state is rebuilt by _postinit; get/setdefault go through the locked primitives")
    gs = repo.func("utils:LRUCache.__getstate__")
    keys: set[str] = set()
    for n in ast.walk(gs.node):
        if isinstance(n, ast.Dict):
            keys = {k.value for k in n.keys if isinstance(k, ast.Constant)}
    ctx.check(state_attrs <= keys, "getstate:covers", "utils:LRUCache.__getstate__", "pickled state", f"attributes set in __init__ {sorted(state_attrs)} are not all pickled ({sorted(keys)})", gs.loc(), detail={"init": sorted(state_attrs), "pickled": sorted(keys)})
    derived = set(aliases) | {lock_name}
    ctx.check(not (derived & keys), "getstate:no-derived", "utils:LRUCache.__getstate__", "derived state pickled", f"derived attributes {sorted(derived & keys)} (bound methods / lock) must not be pickled", gs.loc())
    for k in keys:
        # value must be the attribute of the same name
        pass
    for n in ast.walk(gs.node):
        if isinstance(n, ast.Dict):
            for k, v in zip(n.keys, n.values):
                if isinstance(k, ast.Constant):
                    ctx.check(ast.unparse(v) == f"self.{k.value}", f"getstate:{k.value}", "utils:LRUCache.__getstate__", f"state key {k.value}", f"state key {k.value!r} is filled from {ast.unparse(v)}", gs.loc())
    ss = repo.func("utils:LRUCache.__setstate__")
    s = ast.unparse(ss.node)
    ctx.check("self.__dict__.update(d)" in s and "self._postinit()" in s and s.index("update(d)") < s.index("_postinit()"), "setstate", "utils:LRUCache.__setstate__", "restore then rebind",
              "__setstate__ must restore the state and then call _postinit() (aliases bound to the restored queue)", ss.loc())
    ini = ast.unparse(init.node)
    ctx.check("self._postinit()" in ini and ini.index("self._queue") < ini.index("self._postinit()"), "init:postinit", "utils:LRUCache.__init__", "postinit after queue", "__init__ must call _postinit() after creating the queue", init.loc())
    cp = repo.func("utils:LRUCache.copy")
    s = ast.unparse(cp.node)
    ctx.check("self.__class__(self.capacity)" in s and "_mapping.update(self._mapping)" in s and "_queue.extend(self._queue)" in s, "copy", "utils:LRUCache.copy", "copy contents and order",
              "copy() must create a cache of the same capacity and copy mapping and queue (order)", cp.loc())
    for name in ("get", "setdefault"):
        fn = ci.methods.get(name)
        ctx.need(fn is not None, f"LRUCache.{name} vanished")
        acc = accesses(fn)
        ctx.check(not acc and "self[key]" in ast.unparse(fn), f"{name}:via-primitives", f"utils:LRUCache.{name}", "goes through __getitem__/__setitem__",
                  f"{name}() touches the shared structures directly instead of going through the locked primitives", f"src/jinja2/utils.py:{fn.lineno}")
        hs = [h for h in ast.walk(fn) if isinstance(h, ast.ExceptHandler)]
        ctx.check(len(hs) == 1 and ast.unparse(hs[0].type) == "KeyError" if hs and hs[0].type is not None else False, f"{name}:keyerror", f"utils:LRUCache.{name}", "miss handling",
                  f"{name}() must treat exactly KeyError as a miss", f"src/jinja2/utils.py:{fn.lineno}")
    return __doc__ or ""
