"""C37 - concurrent async renders do not interfere.

Decided statically (a sufficient structural condition, not the interleavings themselves):
the shared-state write inventory of the render path - apart from per-render objects
(Context, eval context, loop contexts, macros' local frames) the only state written while
rendering is the idempotent Template._module memo and the locked caches; every render builds
its own Context with fresh vars / exported_vars / block stacks and its own EvalContext; the
generated code keeps its state in function locals and the per-render context; the one
check-then-set across an ``await`` (_get_default_module_async) stores a value that does not
depend on the render's data (make_module_async() without variables).
Not decided: interleavings at user-supplied await points touching shared *data* objects.
"""

from __future__ import annotations

import ast

from .. import astq
from ..core import Ctx
from ..emitrules import get_paths
from .c29 import shared_state_rule


def _blocks_copied(fn: ast.AST) -> bool:
    """context.blocks.update(<k: list(v) for k, v in self.blocks.items()>) - as a generator of
    pairs or a dict comprehension, with any variable names."""
    for c in astq.calls(fn):
        if astq.callee(c) != "context.blocks.update" or len(c.args) != 1:
            continue
        a = c.args[0]
        if isinstance(a, (ast.GeneratorExp, ast.ListComp)) and isinstance(a.elt, ast.Tuple) and len(a.elt.elts) == 2:
            k, v = a.elt.elts
        elif isinstance(a, ast.DictComp):
            k, v = a.key, a.value
        else:
            continue
        g = a.generators[0]
        if len(a.generators) == 1 and not g.ifs and ast.unparse(g.iter) == "self.blocks.items()" and isinstance(g.target, ast.Tuple) and len(g.target.elts) == 2:
            kv, vv = (ast.unparse(e_) for e_ in g.target.elts)
            if ast.unparse(k) == kv and ast.unparse(v) == f"list({vv})":
                return True
    return False


def derived_context_rule(ctx: Ctx, rid: str) -> None:
    """Context.call hands a *derived* context to pass_context callables (new-style gettext,
    context filters) and scoped blocks: it must carry the render's live eval context - a fresh
    one falls back to the environment's default autoescape inside `{% autoescape %}`."""
    ctx.use("runtime")
    ctx.rule(rid, "a derived context shares the live eval context of its parent (Context.derived assigns context.eval_ctx = self.eval_ctx) and gets copies of the block stacks")
    dv = ctx.repo.func("runtime:Context.derived")
    asg = [a for a in ast.walk(dv.node) if isinstance(a, ast.Assign) and ast.unparse(a.targets[0]) == "context.eval_ctx"]
    ok = len(asg) == 1 and ast.unparse(asg[0].value) == "self.eval_ctx" and not astq.guard_texts(dv.node, asg[0])
    ctx.check(ok, "derived:eval_ctx", "runtime:Context.derived", "derived context does not share self.eval_ctx",
              "Context.derived must assign `context.eval_ctx = self.eval_ctx` unconditionally: otherwise a pass_context callable reached through Context.call (new-style gettext inside a loop / block with a `set`) or a scoped block sees the environment's default autoescape instead of the one in force, and marks markup safe / escapes values wrongly", dv.loc())
    ctx.check(_blocks_copied(dv.node), "derived:blocks", "runtime:Context.derived", "block stacks copied", "a derived context must copy the block stacks", dv.loc())


def check(ctx: Ctx) -> str:
    ctx.use("environment", "runtime", "compiler", "filters", "async_utils", "sandbox")
    repo = ctx.repo
    shared_state_rule(ctx, "R1")

    ctx.rule("R2", "check-then-set across an await: the only such pattern on the render path memoises a data-independent value")
    n = 0
    for mod in ("environment", "runtime", "filters", "async_utils", "nativetypes"):
        m = repo.module(mod)
        for fn in astq.all_funcdefs(m.tree):
            if not isinstance(fn, ast.AsyncFunctionDef):
                continue
            if mod == "runtime" and astq.qualname(fn).split(".")[0] in ("Context", "LoopContext", "AsyncLoopContext", "BlockReference", "Macro"):
                continue  # per-render objects: one task owns them
            for node in ast.walk(fn):
                if isinstance(node, ast.Assign) and isinstance(node.targets[0], ast.Attribute) and ast.unparse(node.targets[0].value) == "self" and any(isinstance(x, ast.Await) for x in ast.walk(node.value)):
                    n += 1
                    q = astq.qualname(fn)
                    tgt = ast.unparse(node.targets[0])
                    ok = (mod, q, tgt) == ("environment", "Template._get_default_module_async", "self._module") and ast.unparse(node.value) == "await self.make_module_async()"
                    guarded = any(g == "self._module is None" and pol for g, pol in astq.guard_texts(fn, node))
                    ctx.check(ok and guarded, f"{mod}:{q}:{tgt}", f"{mod}:{q}", f"{tgt} set from an awaited value",
                              f"{mod}.{q} stores `{ast.unparse(node.value)}` into {tgt} after an await: two concurrent renders can both pass the check; this is only harmless when the stored value does not depend on the render (make_module_async() without arguments, under `if self._module is None`)",
                              f"{m.rel}:{node.lineno}", detail={"site": f"{mod}:{q}", "value": ast.unparse(node.value)})
    ctx.floor("awaited stores into self.*", n, 1)
    gd = repo.func("environment:Template._get_default_module_async")
    s = ast.unparse(gd.node)
    # `return await self.make_module_async({k: ctx.parent[k] for k in <extra keys>})` - returned,
    # never stored - where <extra keys> = ctx.globals_keys - self.globals.keys() (any local names)
    spec_ok = False
    for r_ in astq.returns(gd.node):
        v_ = r_.value.value if isinstance(r_.value, ast.Await) else r_.value
        if isinstance(v_, ast.Call) and astq.callee(v_) == "self.make_module_async" and len(v_.args) == 1 and isinstance(v_.args[0], ast.DictComp):
            dc = v_.args[0]
            g_ = dc.generators[0]
            kv = ast.unparse(g_.target)
            keys_src = g_.iter
            if isinstance(keys_src, ast.Name):
                d_ = [a for a in ast.walk(gd.node) if isinstance(a, ast.Assign) and len(a.targets) == 1 and isinstance(a.targets[0], ast.Name) and a.targets[0].id == keys_src.id]
                keys_src = d_[0].value if len(d_) == 1 else keys_src
            spec_ok = ast.unparse(dc.key) == kv and ast.unparse(dc.value) == f"ctx.parent[{kv}]" and ast.unparse(keys_src) == "ctx.globals_keys - self.globals.keys()"
    ctx.check(spec_ok, "default-module:ctx-specific", "environment:Template._get_default_module_async", "context specific modules are not memoised", "a module that depends on the importing context's extra globals must be built fresh and not stored", gd.loc())

    ctx.rule("R3", "per-render state: each render creates its own Context (fresh vars, exported_vars, block stacks, EvalContext); generated code stores only into locals and the per-render context")
    ci = repo.func("runtime:Context.__init__")
    s = ast.unparse(ci.node)
    ctx.check("self.eval_ctx = EvalContext(self.environment, name)" in s and "self.vars: dict[str, t.Any] = {}" in s, "Context:fresh", "runtime:Context.__init__", "fresh per-render state", "every Context must own a new EvalContext and vars dict", ci.loc())
    dv = repo.func("runtime:Context.derived")
    s = ast.unparse(dv.node)
    ctx.check(_blocks_copied(dv.node) and "context.eval_ctx = self.eval_ctx" in s, "derived:copies", "runtime:Context.derived", "derived context copies block stacks", "a derived context must copy the block stacks (lists) and share only the render's own eval context", dv.loc())
    res = get_paths(ctx)
    n = 0
    bad: dict[str, str] = {}
    for entry, items in res.items():
        for p, sk in items:
            if sk.error:
                continue
            n += 1
            for line in sk.text.splitlines():
                t_ = line.strip()
                for frag in ("environment.", "template.", "parent_template."):
                    if t_.startswith(frag) and " = " in t_.split("(")[0]:
                        bad[entry] = t_
                if t_.startswith("global ") or t_.startswith("nonlocal "):
                    bad[entry] = t_
    ctx.check(not bad, "generated:stores", "compiler:CodeGenerator", f"generated code writes shared objects: {bad}", f"generated code stores into environment / template objects or module globals: {bad}", "src/jinja2/compiler.py")
    ctx.floor("skeletons scanned for shared stores", n, 3000)

    ctx.rule("R4", "contexts that outlive a render: the module of an imported template is memoised on the Template object (with the Context its macros close over), so code emitted for statements that may occur in a macro body must not store into `context` / `context.eval_ctx`")
    memo = []
    for meth in ("_get_default_module", "_get_default_module_async"):
        fi = repo.func(f"environment:Template.{meth}")
        memo += [a for a in ast.walk(fi.node) if isinstance(a, ast.Assign) and ast.unparse(a.targets[0]) == "self._module" and "make_module" in ast.unparse(a.value)]
    ctx.floor("module memo sites", len(memo), 2)
    writers: dict[str, str] = {}
    scanned = 0
    for entry, items in res.items():
        if not entry.startswith("visit_"):
            continue
        for p, sk in items:
            if sk.error:
                continue
            # top-level-only stores (context.vars / exported_vars) cannot occur in a macro body
            if p.decisions.get("frame.toplevel") is True:
                continue
            scanned += 1
            for line in sk.text.splitlines():
                t_ = line.strip()
                head = t_.split("(")[0]
                if (t_.startswith("context.") and " = " in head) or t_.startswith("context.eval_ctx.revert(") or t_.startswith("context.vars[") and " = " in t_ or t_.startswith("context.exported_vars."):
                    writers.setdefault(entry, t_)
    ctx.floor("non-toplevel statement skeletons", scanned, 1000)
    for entry in sorted(res):
        if not entry.startswith("visit_"):
            continue
        w = writers.get(entry)
        ctx.check(w is None, f"module-context:{entry}", f"compiler:CodeGenerator.{entry}", "stores into the context of a memoised template module",
                  f"{entry} emits `{w}`; inside a macro of an imported template `context` is the memoised module's Context (Template._module), shared by every render that imports the template: a render suspended between the store and its revert changes the eval context that concurrent renders of the same macros see", "src/jinja2/compiler.py", detail={"emitted": w})
    # values shared between renders (exports of a memoised module, environment globals) stay
    # private to a render only if "copying" filters really copy in async mode
    from .c22 import fresh_list_rule

    fresh_list_rule(ctx, "R5")
    # sync and async forms decide alike when the memoised default module may be shared (rule
    # owned by C09)
    from . import c09

    ctx.run_imported("C09", {"R3"}, c09.check)
    # a namespace seeded from a shared dict owns a copy: concurrent renders do not add up each
    # other's `{% set ns.x %}` (rule owned by C03)
    from . import c03

    ctx.run_imported("C03", {"R8"}, c03.check)
    # filters do not write into objects shared between renders (environment policies, their
    # arguments): concurrent renders would observe each other's settings (rule owned by C29)
    from . import c29

    ctx.run_imported("C29", {"R1", "R4"}, c29.check)
    return __doc__ or ""
