"""C12 - whitespace control follows the documented trimming rules.

Decided statically: the comment / block / raw end rules are one template up to the delimiter
(+END | -END\\s* | END + trim suffix), the variable end rule has no trim suffix, the suffix is
``\\n?`` exactly with trim_blocks; every start-tag alternative carries the (-|+|) sign group;
in tokeniter '-' removes text only by rstrip(), automatic lstrip needs sign != '+',
lstrip_blocks and a non-variable tag, the truncation is dominated by
whitespace_re.fullmatch and by "tag starts its line", and the line-start flag is refreshed
after every matched rule; the lexer cache key covers every option the lexer reads.
Not decided: the trimmed text over all templates.
"""

from __future__ import annotations

from ..core import Ctx
from ..lexrules import end_rule_siblings, lstrip_rules, sign_group_rule, whitespace_notion_rule
from .c13 import lexer_key_rule


def check(ctx: Ctx) -> str:
    ctx.use('lexer', 'environment')
    end_rule_siblings(ctx, "R1")
    sign_group_rule(ctx, "R2")
    lstrip_rules(ctx, "R3")
    lexer_key_rule(ctx, "R4")
    whitespace_notion_rule(ctx, "R5")
    # trim_blocks / lstrip_blocks of an overlay take effect only if the overlay neither keeps
    # the parent's lexer nor serves the parent's cached templates
    from . import c13
    from . import c25

    ctx.run_imported("C13", {"R6", "R1"}, c13.check)
    ctx.run_imported("C25", {"R4"}, c25.check)
    return __doc__ or ""
