"""C25 - the template cache always serves the current template source.

Decided statically: the path condition under which Environment._load_template returns the
cached object is, as a truth table over its atoms, exactly ``template is not None and (not
auto_reload or template.is_up_to_date)``; the cache key is (weak reference to the loader,
name); a freshly loaded template is stored under the same key; Template.is_up_to_date
delegates to the loader's uptodate callable; every loader whose source can change returns
an uptodate callable that re-reads current state and fails closed; create_cache /
copy_cache map sizes 0, <0, >0 to no cache, dict, LRUCache(size).
Also: every from_code in BaseLoader.load receives the uptodate callable.  
Also: only methods offered by both dict and LRUCache are called on the template cache.  
Not decided: histories of loads and source changes, LRU eviction order (see C26).
"""

from __future__ import annotations

import ast
import itertools

from .. import astq
from ..cfg import guards_of
from ..core import Ctx


def bool_eval(e: ast.expr, val: dict[str, bool]) -> bool | None:
    if isinstance(e, ast.BoolOp):
        vals = [bool_eval(v, val) for v in e.values]
        if any(v is None for v in vals):
            return None
        return all(vals) if isinstance(e.op, ast.And) else any(vals)
    if isinstance(e, ast.UnaryOp) and isinstance(e.op, ast.Not):
        v = bool_eval(e.operand, val)
        return None if v is None else not v
    txt = ast.unparse(e)
    if txt in val:
        return val[txt]
    # "x is None" as the negation of "x is not None"
    r = astq.is_none_test(e)
    if r is not None:
        name, is_none = r
        k = f"{name} is not None"
        if k in val:
            return (not val[k]) if is_none else val[k]
    return None


def atoms(e: ast.expr) -> list[str]:
    if isinstance(e, ast.BoolOp):
        out: list[str] = []
        for v in e.values:
            out += atoms(v)
        return out
    if isinstance(e, ast.UnaryOp) and isinstance(e.op, ast.Not):
        return atoms(e.operand)
    return [ast.unparse(e)]


def check(ctx: Ctx) -> str:
    ctx.use("environment", "loaders")
    repo = ctx.repo
    lt = repo.func("environment:Environment._load_template")
    ctx.rule("R1", "cached object is returned iff it exists and (auto_reload is off or it is up to date) - truth table over the atoms of the guarding tests")
    rets = [r for r in astq.returns(lt.node) if r.value is not None and ast.unparse(r.value) == "template"]
    ctx.need(len(rets) == 2, f"expected a cached and a fresh `return template` in _load_template, found {len(rets)}")
    cached = rets[0]
    gs = astq.all_guards(lt.node, cached)
    # conjunction of all guards with polarity
    conj: list[ast.expr] = []
    # a named sub-test (`outdated = self.auto_reload and not template.is_up_to_date`, bound
    # once) stands for its value
    import copy as _copy

    named = {}
    for a_ in ast.walk(lt.node):
        if isinstance(a_, ast.Assign) and len(a_.targets) == 1 and isinstance(a_.targets[0], ast.Name) and isinstance(a_.value, (ast.BoolOp, ast.Compare, ast.UnaryOp)):
            nm = a_.targets[0].id
            if sum(1 for x in ast.walk(lt.node) if isinstance(x, ast.Name) and x.id == nm and isinstance(x.ctx, ast.Store)) == 1:
                named[nm] = a_.value

    class _Exp(ast.NodeTransformer):
        def visit_Name(self, n: ast.Name) -> ast.AST:  # noqa: N802
            return self.visit(_copy.deepcopy(named[n.id])) if isinstance(n.ctx, ast.Load) and n.id in named else n

    for g, pol in gs:
        g = _Exp().visit(_copy.deepcopy(g))
        conj.append(g if pol else ast.UnaryOp(op=ast.Not(), operand=g))
    at = []
    for g in conj:
        for a in atoms(g):
            if a not in at:
                at.append(a)
    norm = {"self.cache is not None": "C", "self.cache is None": "C", "template is not None": "T", "template is None": "T", "self.auto_reload": "R", "template.is_up_to_date": "U", "self.loader is None": "L", "self.loader is not None": "L"}
    unknown = [a for a in at if a not in norm]
    ctx.need(not unknown, f"unrecognised atoms in the cache-hit condition: {unknown}")
    keys = {"C": "self.cache is not None", "T": "template is not None", "R": "self.auto_reload", "U": "template.is_up_to_date", "L": "self.loader is not None"}
    ok = True
    bad_row = None
    for c, t_, r, u in itertools.product([True, False], repeat=4):
        val = {keys["C"]: c, keys["T"]: t_, keys["R"]: r, keys["U"]: u, keys["L"]: True}
        got = all(bool_eval(g, val) for g in conj)
        if any(bool_eval(g, val) is None for g in conj):
            ctx.need(False, "cache-hit condition not evaluable")
        want = c and t_ and ((not r) or u)
        if got != want:
            ok = False
            bad_row = {"cache": c, "template_found": t_, "auto_reload": r, "up_to_date": u, "returns_cached": got, "must_return_cached": want}
            break
    ctx.check(ok, "hit-condition", "environment:Environment._load_template", "cache hit condition",
              f"the cached template is returned under the wrong condition, e.g. {bad_row}: with auto_reload an outdated template is served, or without auto_reload a cached one is reloaded",
              lt.loc(cached), detail={"atoms": at, "guards": [(ast.unparse(g), p) for g, p in gs]})
    # the cached object comes from self.cache.get(cache_key)
    s = ast.unparse(lt.node)
    ctx.check("template = self.cache.get(cache_key)" in s, "hit-source", "environment:Environment._load_template", "lookup", "the cached template must be looked up with self.cache.get(cache_key)", lt.loc())

    ctx.rule("R2", "cache key = (weakref to the loader, name); a freshly loaded template is stored under that key whenever a cache exists")
    ck = [n for n in ast.walk(lt.node) if isinstance(n, ast.Assign) and ast.unparse(n.targets[0]) == "cache_key"]
    ctx.check(len(ck) == 1 and ast.unparse(ck[0].value) == "(weakref.ref(self.loader), name)", "key", "environment:Environment._load_template", "cache key", f"cache key is {ast.unparse(ck[0].value) if ck else None}, expected (weakref.ref(self.loader), name)", lt.loc())
    st = [n for n in ast.walk(lt.node) if isinstance(n, ast.Assign) and ast.unparse(n.targets[0]) == "self.cache[cache_key]"]
    ok = len(st) == 1 and ast.unparse(st[0].value) == "template" and [(ast.unparse(g), p) for g, p in guards_of(st[0])] == [("self.cache is not None", True)]
    ctx.check(ok, "store", "environment:Environment._load_template", "store after load", "a freshly loaded template must be stored under cache_key whenever self.cache is not None (and only then)", lt.loc())
    ld = [c for c in astq.calls(lt.node) if astq.callee(c) == "self.loader.load"]
    ctx.check(len(ld) == 1 and not guards_of(ld[0]), "load", "environment:Environment._load_template", "load on miss", "on a miss the template must be loaded unconditionally through self.loader.load", lt.loc())

    ctx.rule("R3", "up-to-date checks: Template.is_up_to_date delegates to the loader's callable; loaders whose source can change return a callable that re-reads current state and fails closed")
    up = repo.func("environment:Template.is_up_to_date")
    s = up.ntext
    ctx.check("self._uptodate is None" in s and "return self._uptodate()" in s, "Template.is_up_to_date", "environment:Template.is_up_to_date", "delegation", "is_up_to_date must return self._uptodate() when a callable was supplied", up.loc())
    fc = repo.func("environment:Template.from_code")
    ctx.check(any(isinstance(a, ast.Assign) and isinstance(a.targets[0], ast.Attribute) and a.targets[0].attr == "_uptodate" and ast.unparse(a.value) == "uptodate" for a in ast.walk(fc.node)), "from_code:uptodate", "environment:Template.from_code", "uptodate stored", "from_code must keep the loader's uptodate callable", fc.loc())
    bl = repo.func("loaders:BaseLoader.load")
    s = ast.unparse(bl.node)
    ctx.check("source, filename, uptodate = self.get_source(environment, name)" in s and "from_code(environment, code, globals, uptodate)" in s, "BaseLoader.load:uptodate", "loaders:BaseLoader.load", "uptodate passed on", "BaseLoader.load must hand the loader's uptodate callable to from_code", bl.loc())
    # ... on every path that builds a template (a shortcut for a bytecode-cache hit included)
    fcs = [c for c in astq.calls(bl.node) if astq.callee(c).endswith(".from_code")]
    upv = [t_.elts[2].id for a in ast.walk(bl.node) if isinstance(a, ast.Assign) and isinstance(a.value, ast.Call) and astq.callee(a.value) == "self.get_source" for t_ in a.targets if isinstance(t_, ast.Tuple) and len(t_.elts) == 3 and isinstance(t_.elts[2], ast.Name)]
    ctx.check(bool(fcs) and len(upv) == 1 and all((len(c.args) >= 4 and ast.unparse(c.args[3]) == upv[0]) or any(k.arg == "uptodate" and ast.unparse(k.value) == upv[0] for k in c.keywords) for c in fcs), "BaseLoader.load:uptodate-all-paths", "loaders:BaseLoader.load", "a template is built without the loader's uptodate callable",
              f"BaseLoader.load builds a template with {[ast.unparse(c)[:70] for c in fcs]}: every from_code call must receive the uptodate callable get_source returned, otherwise that template counts as current forever (auto_reload never reloads it, a deleted source is still served)", bl.loc())
    fs = repo.func("loaders:FileSystemLoader.get_source")
    updefs = [n for n in ast.walk(fs.node) if isinstance(n, ast.FunctionDef) and n is not fs.node]
    ctx.need(len(updefs) == 1, "FileSystemLoader.get_source uptodate closure not found")
    u = updefs[0]
    cmp_ = [n for n in ast.walk(u) if isinstance(n, ast.Compare)]
    def _res(e: ast.expr) -> str:
        # a local naming the current mtime is read through
        if isinstance(e, ast.Name):
            d_ = [a.value for a in ast.walk(u) if isinstance(a, ast.Assign) and len(a.targets) == 1 and isinstance(a.targets[0], ast.Name) and a.targets[0].id == e.id]
            if len(d_) == 1:
                return ast.unparse(d_[0])
        return ast.unparse(e)

    ok = len(cmp_) == 1 and isinstance(cmp_[0].ops[0], ast.Eq) and {_res(cmp_[0].left), _res(cmp_[0].comparators[0])} == {"os.path.getmtime(filename)", "mtime"}
    ctx.check(ok, "fs:uptodate-compare", "loaders:FileSystemLoader.get_source", "mtime comparison", "uptodate must compare the file's current mtime with the recorded one for equality", fs.loc(u), detail={"compare": ast.unparse(cmp_[0]) if cmp_ else None})
    hs = [h for h in ast.walk(u) if isinstance(h, ast.ExceptHandler)]
    ok = len(hs) == 1 and ast.unparse(hs[0].type) == "OSError" and len(hs[0].body) == 1 and ast.unparse(hs[0].body[0]) == "return False"
    ctx.check(ok, "fs:uptodate-failclosed", "loaders:FileSystemLoader.get_source", "deleted file", "a deleted / unreadable file must make uptodate() return False", fs.loc(u))
    # mtime is read from the same file name that was opened
    s = ast.unparse(fs.node)
    ctx.check("mtime = os.path.getmtime(filename)" in s, "fs:mtime-source", "loaders:FileSystemLoader.get_source", "recorded mtime", "the recorded mtime must be that of the file that was read", fs.loc())
    rets = astq.returns(fs.node)
    ctx.check(any(isinstance(r.value, ast.Tuple) and ast.unparse(r.value.elts[-1]) == "uptodate" for r in rets), "fs:returns-uptodate", "loaders:FileSystemLoader.get_source", "returns the closure", "get_source must return the uptodate closure", fs.loc())
    dl = repo.func("loaders:DictLoader.get_source")
    lam = [n for n in ast.walk(dl.node) if isinstance(n, ast.Lambda)]
    ok = len(lam) == 1 and isinstance(lam[0].body, ast.Compare) and isinstance(lam[0].body.ops[0], ast.Eq) and {ast.unparse(lam[0].body.left), ast.unparse(lam[0].body.comparators[0])} == {"source", "self.mapping.get(template)"}
    ctx.check(ok, "dict:uptodate", "loaders:DictLoader.get_source", "uptodate lambda", "DictLoader's uptodate must compare the captured source with the mapping's current entry (missing -> not equal)", dl.loc())
    pk = repo.func("loaders:PackageLoader.get_source")
    pdefs = [n for n in ast.walk(pk.node) if isinstance(n, ast.FunctionDef) and n is not pk.node]
    ok = False
    if len(pdefs) == 1:
        # truth table of the closure over (file exists, mtime equal): true only when both hold
        isf = [c for c in astq.calls(pdefs[0]) if astq.callee(c) == "os.path.isfile" and len(c.args) == 1]
        cps = [c for c in ast.walk(pdefs[0]) if isinstance(c, ast.Compare) and isinstance(c.ops[0], ast.Eq) and len(c.ops) == 1]
        if len(isf) == 1 and len(cps) == 1:
            pth = ast.unparse(isf[0].args[0])
            if {ast.unparse(cps[0].left), ast.unparse(cps[0].comparators[0])} == {f"os.path.getmtime({pth})", "mtime"}:
                tb_ = astq.bool_table(pdefs[0], [ast.unparse(isf[0]), ast.unparse(cps[0])])
                ok = all(v == (e_ and q_) for (e_, q_), v in tb_.items())
    ctx.check(ok, "package:uptodate", "loaders:PackageLoader.get_source", "uptodate closure", "PackageLoader's uptodate must check existence and mtime equality", pk.loc())

    ctx.rule("R4", "create_cache: 0 -> no cache, negative -> plain dict, positive -> LRUCache(size); copy_cache mirrors it; overlays and new environments get their own cache")
    cc = repo.func("environment:create_cache")
    rows = _cache_rows(cc.node)
    ctx.check(rows == {"zero": "None", "negative": "{}", "positive": "LRUCache(size)"}, "create_cache", "environment:create_cache", "size mapping", f"create_cache maps sizes as {rows}", cc.loc(), detail=rows)
    cp = repo.func("environment:copy_cache")
    s = ast.unparse(cp.node)
    rows_c = {ast.unparse(r.value): astq.guard_atoms(cp.nnode, r) for r in astq.returns(cp.nnode) if r.value is not None}  # normal form: conditional expressions expanded, a named test inlined
    ok_cp = set(rows_c) == {"None", "{}", "LRUCache(cache.capacity)"} and ("cache is None", True) in rows_c["None"] and ("type(cache) is dict", True) in rows_c["{}"] and ("cache is None", False) in rows_c["{}"] \
        and ("type(cache) is dict", False) in rows_c["LRUCache(cache.capacity)"] and ("cache is None", False) in rows_c["LRUCache(cache.capacity)"]
    ctx.check(ok_cp, "copy_cache", "environment:copy_cache", "mirror", "copy_cache must return None / {} / LRUCache(cache.capacity)", cp.loc())
    init = repo.func("environment:Environment.__init__")
    ctx.check("self.cache = create_cache(cache_size)" in ast.unparse(init.node), "init:cache", "environment:Environment.__init__", "cache creation", "Environment.__init__ must build its cache with create_cache(cache_size)", init.loc())
    # a bounded template cache evicts the least recently used template: that clause is the
    # LRUCache primitives' (shape, orientation, locking), owned by C26
    from . import c26

    ctx.run_imported("C26", {"R1", "R2", "R3"}, c26.check)
    ctx.rule("R5", "the template cache is used only through what both of its implementations offer: every method called on `<env>.cache` exists on dict and is defined by utils.LRUCache (which is registered as, not derived from, MutableMapping)")
    ctx.use("utils")
    lru = repo.cls("utils:LRUCache")
    lru_api = set(lru.methods) | set(lru.assigns)
    n_c = 0
    for mod in ("environment", "loaders", "ext", "sandbox", "nativetypes", "runtime"):
        m_ = repo.module(mod)
        for c in astq.calls(m_.tree):
            if isinstance(c.func, ast.Attribute) and isinstance(c.func.value, ast.Attribute) and c.func.value.attr == "cache" and ast.unparse(c.func.value.value) in ("self", "environment", "self.environment", "rv", "env"):
                n_c += 1
                meth = c.func.attr
                ok = meth in lru_api and hasattr(dict, meth)
                ctx.check(ok, f"cache-api:{mod}:{astq.enclosing_qual(c)}:{meth}", f"{mod}:{astq.enclosing_qual(c)}", f"`{ast.unparse(c)[:50]}`",
                          f"{mod}.{astq.enclosing_qual(c)} calls `{ast.unparse(c.func)}`; the cache is a plain dict (cache_size=-1) or a utils.LRUCache (default), and `{meth}` is {'not defined by LRUCache' if meth not in lru_api else 'not a dict method'}: the call raises AttributeError for one of the two - with the default cache a reload of a vanished template raises AttributeError instead of TemplateNotFound",
                          f"{m_.rel}:{c.lineno}")
    ctx.floor("method calls on the template cache", n_c, 1)

    return __doc__ or ""


def _cache_rows(fn: ast.AST) -> dict[str, str]:
    """Abstractly run create_cache for size = 0, -1, 5."""
    from ..normalize import norm

    def truth(test: ast.expr, size: int) -> bool | None:
        if isinstance(test, ast.UnaryOp) and isinstance(test.op, ast.Not):
            v = truth(test.operand, size)
            return None if v is None else not v
        if ast.unparse(test) == "size":
            return size != 0
        lc = astq.linear_cmp(test)
        if lc is not None and set(lc[0]) <= {"size", ""}:
            lhs = lc[0].get("size", 0) * size + lc[0].get("", 0)
            return {"<": lhs < 0, "<=": lhs <= 0, ">": lhs > 0, ">=": lhs >= 0, "==": lhs == 0, "!=": lhs != 0}[lc[1]]
        return None

    def run(body: list[ast.stmt], size: int) -> str | None:
        for s in body:
            if isinstance(s, ast.Expr) and isinstance(s.value, ast.Constant):
                continue
            if isinstance(s, ast.Return):
                return ast.unparse(s.value) if s.value is not None else "None"
            if isinstance(s, ast.If):
                v = truth(s.test, size)
                if v is None:
                    return f"error: {ast.unparse(s.test)}"
                r = run(s.body if v else s.orelse, size)
                if r is not None:
                    return r
                continue
            if isinstance(s, ast.Pass):
                continue
            return f"error: {ast.unparse(s)[:40]}"
        return None

    body = norm(fn).body  # type: ignore[attr-defined]  # if/elif/else, early returns and conditional expressions alike
    return {label: run(body, size) or "?" for label, size in (("zero", 0), ("negative", -1), ("positive", 5))}
