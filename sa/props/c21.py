"""C21 - undefined values behave as documented for every undefined type.

Decided statically: for Undefined, ChainableUndefined, DebugUndefined, StrictUndefined and the
class built by make_logging_undefined, what every protocol method resolves to through
class-body alias assignments and the MRO, classified FAILS / OK(own body) / MISSING and
compared with the documented operation table; both ``__op__`` and ``__rop__`` fail for
every binary operator of the template language (slots filled from nodes._binop_to_func);
``__iter__`` and ``__aiter__`` agree in every class (the async compiler iterates through
``__aiter__``); every branch of ``_undefined_message`` names the variable / attribute;
defined/undefined tests and the default filter use isinstance(..., Undefined).
Also: object_type_repr / _undefined_message compare the hinted object by identity only (no __eq__ of user objects).  
Not decided: the text of messages, pickle/copy round trips.
"""

from __future__ import annotations

import ast

from .. import astq
from ..core import Ctx

FAIL = "_fail_with_undefined_error"
BINOP_DUNDER = {"+": "add", "-": "sub", "*": "mul", "/": "truediv", "//": "floordiv", "%": "mod", "**": "pow"}
# documented behaviour: operation -> {class: expected} ; 'fail' or 'ok'
ALWAYS_FAIL = ["__call__", "__getitem__", "__lt__", "__le__", "__gt__", "__ge__", "__int__", "__float__", "__complex__", "__pos__", "__neg__"]
SOFT = ["__str__", "__len__", "__iter__", "__aiter__", "__bool__", "__eq__", "__ne__", "__hash__"]
EXPECT_SOFT = {
    "Undefined": {k: "ok" for k in SOFT},
    "DebugUndefined": {k: "ok" for k in SOFT},
    "ChainableUndefined": {k: "ok" for k in SOFT},
    "StrictUndefined": {k: "fail" for k in SOFT},
}


def resolve(ctx: Ctx, cname: str, attr: str) -> tuple[str, str]:
    """('fail'|'ok'|'missing', where)."""
    repo = ctx.repo
    ci = repo.cls(f"runtime:{cname}")
    r = repo.resolve_attr(ci, attr)
    if r is None:
        return "missing", ""
    owner, node = r
    if isinstance(node, (ast.FunctionDef, ast.AsyncFunctionDef)):
        if node.name == FAIL:
            return "fail", owner.name
        # a body that only calls the failing helper counts as failing
        body = [s for s in node.body if not (isinstance(s, ast.Expr) and isinstance(s.value, ast.Constant))]
        if len(body) == 1 and isinstance(body[0], (ast.Return, ast.Expr)) and body[0].value is not None and FAIL in ast.unparse(body[0].value) and not astq.guard_texts(node, body[0]):
            return "fail", owner.name
        return "ok", owner.name
    txt = ast.unparse(node)
    if txt.split(".")[-1] == FAIL:
        return "fail", owner.name
    # alias to another attribute of the class
    if isinstance(node, ast.Name):
        return resolve(ctx, cname, node.id)
    return "ok", owner.name


def check(ctx: Ctx) -> str:
    ctx.use("runtime", "tests", "filters", "nodes")
    repo = ctx.repo
    classes = ["Undefined", "ChainableUndefined", "DebugUndefined", "StrictUndefined"]
    binops = sorted(repo.const_map("nodes:_binop_to_func"))
    ctx.rule("R1", "operation table: every protocol method of each Undefined class resolves (aliases + MRO) to the documented behaviour; both operand orders of every template binary operator fail")
    fail_fn = repo.func(f"runtime:Undefined.{FAIL}")
    ctx.check(any(isinstance(n, ast.Raise) and "self._undefined_exception(self._undefined_message)" in ast.unparse(n) for n in fail_fn.nnode.body), "fail helper raises", f"runtime:Undefined.{FAIL}", "raise",
              "_fail_with_undefined_error no longer raises self._undefined_exception(self._undefined_message)", fail_fn.loc())
    n = 0
    for cname in classes:
        for op in binops:
            d = BINOP_DUNDER.get(op)
            ctx.need(d is not None, f"template operator {op!r} has no dunder mapping in the checker")
            for slot in (f"__{d}__", f"__r{d}__"):
                got, where = resolve(ctx, cname, slot)
                n += 1
                ctx.check(got == "fail", f"{cname}.{slot}", f"runtime:{cname}", f"{slot}",
                          f"{cname}.{slot} is {got} (defined in {where or 'nowhere'}): `x {op} undefined` / `undefined {op} x` does not raise UndefinedError", "src/jinja2/runtime.py",
                          detail={"class": cname, "slot": slot, "resolves_to": got, "via": where})
        for slot in ALWAYS_FAIL:
            got, where = resolve(ctx, cname, slot)
            want = "fail"
            if cname == "ChainableUndefined" and slot == "__getitem__":
                want = "ok"
            n += 1
            ctx.check(got == want, f"{cname}.{slot}", f"runtime:{cname}", f"{slot}", f"{cname}.{slot} is {got}, documented: {want}", "src/jinja2/runtime.py")
        for slot, want in EXPECT_SOFT[cname].items():
            got, where = resolve(ctx, cname, slot)
            n += 1
            ctx.check(got == want, f"{cname}.{slot}", f"runtime:{cname}", f"{slot}",
                      f"{cname}.{slot} is {got} (from {where or 'nowhere'}), documented: {want}" + (" - the async compiler iterates with __aiter__, so `{% for x in missing %}` renders instead of raising" if slot == "__aiter__" else ""),
                      "src/jinja2/runtime.py", detail={"class": cname, "slot": slot, "resolves_to": got, "via": where})
        # iteration protocols agree
        it, _ = resolve(ctx, cname, "__iter__")
        ait, _ = resolve(ctx, cname, "__aiter__")
        ctx.check(it == ait, f"{cname}:iter==aiter", f"runtime:{cname}", "__iter__ vs __aiter__", f"{cname}.__iter__ is {it} but __aiter__ is {ait}: sync and async loops over an undefined value differ", "src/jinja2/runtime.py")
        # contains: strict fails, others inherit iteration-based containment (ok)
        got, _ = resolve(ctx, cname, "__contains__")
        want = "fail" if cname == "StrictUndefined" else "missing"
        ctx.check(got == want, f"{cname}.__contains__", f"runtime:{cname}", "__contains__", f"{cname}.__contains__ is {got}, expected {want}", "src/jinja2/runtime.py")
    ctx.floor("operation table cells", n, 4 * (14 + 11 + 8))
    # __getattr__: dunder names raise AttributeError first; Undefined fails, Chainable returns self
    for cname, tail in (("Undefined", "fail"), ("ChainableUndefined", "self")):
        fi = repo.func(f"runtime:{cname}.__getattr__")
        rs = astq.raises(fi.node)
        ok = any(astq.raise_type(r) == "AttributeError" and any("name[:2] == '__'" in g and pol for g, pol in astq.guard_texts(fi.nnode, r)) for r in astq.raises(fi.nnode))
        ctx.check(ok, f"{cname}.__getattr__:dunder", f"runtime:{cname}.__getattr__", "dunder probe", f"{cname}.__getattr__ no longer raises AttributeError for dunder names (copy/pickle/protocol probing break)", fi.loc())
        last = astq.returns(fi.node)[-1]
        want = "self._fail_with_undefined_error()" if tail == "fail" else "self"
        ctx.check(ast.unparse(last.value) == want, f"{cname}.__getattr__:tail", f"runtime:{cname}.__getattr__", "non-dunder access", f"{cname}.__getattr__ returns {ast.unparse(last.value)}, documented: {want}", fi.loc())
    # default Undefined constants
    for slot, want in (("__str__", "''"), ("__len__", "0"), ("__bool__", "False")):
        fi = repo.func(f"runtime:Undefined.{slot}")
        r = astq.returns(fi.node)
        ctx.check(len(r) == 1 and ast.unparse(r[0].value) == want, f"Undefined.{slot}:value", f"runtime:Undefined.{slot}", "documented constant", f"Undefined.{slot} returns {ast.unparse(r[0].value) if r else None}, documented {want}", fi.loc())
    eq = repo.func("runtime:Undefined.__eq__")
    ctx.check(ast.unparse(astq.returns(eq.node)[0].value) == "type(self) is type(other)", "Undefined.__eq__", "runtime:Undefined.__eq__", "equality", "Undefined.__eq__ no longer compares types", eq.loc())
    ne = repo.func("runtime:Undefined.__ne__")
    ctx.check(ast.unparse(astq.returns(ne.node)[0].value) == "not self.__eq__(other)", "Undefined.__ne__", "runtime:Undefined.__ne__", "inequality", "Undefined.__ne__ is not the negation of __eq__", ne.loc())
    # logging undefined: wraps, never swallows
    mk = repo.func("runtime:make_logging_undefined")
    lu = [n_ for n_ in ast.walk(mk.node) if isinstance(n_, ast.ClassDef)]
    ctx.need(len(lu) == 1, "LoggingUndefined class not found")
    for meth in lu[0].body:
        if isinstance(meth, ast.FunctionDef):
            s = ast.unparse(meth)
            if meth.name == FAIL:
                ok = "super()._fail_with_undefined_error(" in s and any(isinstance(x, ast.Raise) for x in ast.walk(meth))
                ctx.check(ok, "Logging.fail", "runtime:make_logging_undefined", "logging fail re-raises", "LoggingUndefined._fail_with_undefined_error no longer re-raises after logging", mk.loc(meth))
            else:
                ok = f"return super().{meth.name}()" in s and "_log_message(self)" in s
                ctx.check(ok, f"Logging.{meth.name}", "runtime:make_logging_undefined", f"logging {meth.name} delegates", f"LoggingUndefined.{meth.name} must log and return super().{meth.name}()", mk.loc(meth))

    ctx.rule("R2", "every branch of Undefined._undefined_message mentions the hint or the missing name")
    um = repo.func("runtime:Undefined._undefined_message")
    rets = astq.returns(um.node)
    ctx.floor("_undefined_message returns", len(rets), 3)
    for i, r in enumerate(rets):
        s = ast.unparse(r.value)
        ctx.check("_undefined_hint" in s or "_undefined_name" in s, f"message[{i}]", "runtime:Undefined._undefined_message", f"return {i}", f"message branch `{s[:60]}` names neither the hint nor the missing name", um.loc(r))

    ctx.rule("R3", "defined/undefined tests and the default filter classify with isinstance(value, Undefined)")
    for spec, want in (("tests:test_defined", "not isinstance(value, Undefined)"), ("tests:test_undefined", "isinstance(value, Undefined)")):
        fi = repo.func(spec)
        r = astq.returns(fi.node)
        ctx.check(len(r) == 1 and ast.unparse(r[0].value) == want, spec, spec, "classification", f"{spec} returns `{ast.unparse(r[0].value) if r else ''}`, documented `{want}`", fi.loc())
    dd = repo.func("filters:do_default")
    ifs = [n_ for n_ in ast.walk(dd.nnode) if isinstance(n_, ast.If)]
    ok = len(ifs) == 1 and ast.unparse(ifs[0].test) in ("isinstance(value, Undefined) or (boolean and (not value))", "isinstance(value, Undefined) or boolean and (not value)")
    ctx.check(ok, "filters:do_default", "filters:do_default", "default condition", f"do_default tests `{ast.unparse(ifs[0].test) if ifs else ''}`", dd.loc(), detail={"test": ast.unparse(ifs[0].test) if ifs else ""})
    tab = repo.const_map("tests:TESTS")
    ctx.check(tab.get("defined") == "test_defined" and tab.get("undefined") == "test_undefined", "TESTS registration", "tests:TESTS", "defined/undefined entries", "TESTS maps defined/undefined to the wrong functions", "src/jinja2/tests.py")
    ft = repo.const_map("filters:FILTERS")
    ctx.check(ft.get("default") == "do_default" and ft.get("d") == "do_default", "FILTERS registration", "filters:FILTERS", "default entries", "FILTERS maps default/d to the wrong function", "src/jinja2/filters.py")

    ctx.rule("R4", "the error raised for an operation on an undefined value cannot be caught by the library's own data-access handlers: UndefinedError's builtin ancestors are Exception / BaseException only (getitem / getattr and the filters catch TypeError, LookupError, AttributeError, ValueError around data access)")
    from ..cfg import EXC_PARENTS as BUILTIN_PARENTS

    def ancestors(cname: str, seen: set[str]) -> set[str]:
        out: set[str] = set()
        ci = next((c for c in repo.classes("exceptions") if c.name == cname), None)
        if ci is None:
            out.add(cname)
            p = BUILTIN_PARENTS.get(cname)
            while p:
                out.add(p)
                p = BUILTIN_PARENTS.get(p)
            return out
        for b in ci.node.bases:
            bn = ast.unparse(b).split(".")[-1]
            if bn not in seen:
                seen.add(bn)
                out |= ancestors(bn, seen)
        return out

    for exc in ("UndefinedError", "SecurityError", "TemplateRuntimeError"):
        anc = ancestors(exc, set())
        catchable = sorted(anc & {"LookupError", "KeyError", "IndexError", "TypeError", "AttributeError", "ValueError", "ArithmeticError", "StopIteration", "RuntimeError", "OSError"})
        ctx.check(not catchable, f"hierarchy:{exc}", f"exceptions:{exc}", f"{exc} is also a {catchable}",
                  f"{exc} inherits from {catchable}: Environment.getitem / getattr (and the sandbox overrides, filters such as attr / map) catch these around data access, so `{{{{ missing[0] }}}}` - Undefined.__getitem__ raising {exc} - is swallowed and yields a fresh undefined instead of failing", "src/jinja2/exceptions.py", detail={"builtin_ancestors": sorted(anc)})
    # the lookup helpers swallow only the reviewed lookup signals - an UndefinedError raised by
    # an undefined operand must pass through them (rule owned by C38)
    from . import c38

    ctx.run_imported("C38", {"R1"}, c38.check)
    # the internal `missing` sentinel never stands in for an undefined value (rule owned by C03)
    from . import c03

    ctx.run_imported("C03", {"R6"}, c03.check)
    ctx.rule("R5", "building an undefined message never runs user code on the object: object_type_repr and _undefined_message compare the hinted object only by identity (`is`), never with == / in")
    ctx.use("utils")
    for spec, var in (("utils:object_type_repr", "obj"), ("runtime:Undefined._undefined_message", "self._undefined_obj")):
        fo = repo.func(spec)
        bad = []
        for cmp_ in ast.walk(fo.node):
            if isinstance(cmp_, ast.Compare):
                sides = [cmp_.left] + list(cmp_.comparators)
                if any(ast.unparse(s_) == var for s_ in sides) and not all(isinstance(o, (ast.Is, ast.IsNot)) for o in cmp_.ops):
                    bad.append(cmp_)
        ctx.check(not bad, f"identity:{spec}", spec, f"`{ast.unparse(bad[0])}`" if bad else "identity comparisons only",
                  f"{spec.split(':')[1]} compares the object an attribute was missing on with `{ast.unparse(bad[0]) if bad else ''}`: == / in call its __eq__, which for array-like or expression objects raises or returns a non-bool - every operation on the undefined (arithmetic, str() of a DebugUndefined) then raises that error instead of UndefinedError / printing the hint",
                  fo.loc(bad[0]) if bad else fo.loc())

    return __doc__ or ""
