"""C32 - static template introspection over-approximates runtime behaviour.

Decided statically: the only emission that reads the render context by name is the
``resolve`` arm of enter_frame (skeleton inventory: no other visitor emits a call of
resolve / context.resolve / context[...]), and TrackingCodeGenerator.enter_frame reports
exactly the loads carrying that instruction (same constant) after running the base
implementation; every analysed frame is entered (C03.R2), so every such load is seen;
``_ref_types`` equals the node classes whose visitors load a template at run time; in
find_referenced_templates every branch for a non-constant template expression yields
(a name or None).  Also: the compiler never writes the symbol tables.  
Also: Node.find_all iterates every child field.  
Not decided: data-dependent lookups through getattr on the context object.
"""

from __future__ import annotations

import ast
import re

from .. import astq
from ..core import Ctx
from ..emitrules import get_paths


def check(ctx: Ctx) -> str:
    ctx.use("meta", "compiler", "idtracking")
    repo = ctx.repo
    ctx.rule("R1", "(skeletons) context lookups by name are emitted only by enter_frame's resolve arm; no other visitor emits resolve( / context.resolve( / context[")
    res = get_paths(ctx)
    n = 0
    for entry, items in sorted(res.items()):
        bad = None
        for p, sk in items:
            n += 1
            t_ = sk.text
            hit = [frag for frag in (" = resolve(", ".resolve(", "context[", "context.get(", "context.parent", "context.vars[__") if frag in t_]
            if hit and entry not in ("enter_frame", "write_commons"):
                bad = (hit, sk.text)
        ctx.check(bad is None, entry, f"compiler:CodeGenerator.{entry}", f"reads the context by name: {bad[0] if bad else ''}", f"{entry} emits a context lookup {bad[0] if bad else ''} outside enter_frame: find_undeclared_variables cannot see it\n{(bad[1] if bad else '')[:200]}", "src/jinja2/compiler.py")
    ctx.floor("skeletons scanned", n, 3000)
    arms = {}
    for p, sk in res["enter_frame"]:
        if p.outcome != "normal":
            continue
        for k, v in p.decisions.items():
            if v is True and ".loads.items()" in k and "==" in k:
                arms[k.split("== ")[1]] = sk.text
    ctx.check(any("resolve" in k and "resolve(" in v for k, v in arms.items()) and not any("resolve(" in v for k, v in arms.items() if "resolve" not in k), "enter_frame:arms", "compiler:CodeGenerator.enter_frame", "resolve arm", "only the VAR_LOAD_RESOLVE arm of enter_frame may emit resolve(...)", "src/jinja2/compiler.py", detail={"arms": {k: v.strip()[:60] for k, v in arms.items()}})

    ctx.rule("R2", "TrackingCodeGenerator.enter_frame runs the base enter_frame and records every load whose instruction is the resolve constant (unless it is an environment global)")
    ef = repo.func("meta:TrackingCodeGenerator.enter_frame")
    s = ast.unparse(ef.node)
    const = repo.const("idtracking:VAR_LOAD_RESOLVE")
    ld_loops = [l for l in ast.walk(ef.node) if isinstance(l, ast.For) and ast.unparse(l.iter) in ("frame.symbols.loads.items()", "frame.symbols.loads.values()")]
    pair = None
    if len(ld_loops) == 1:
        tg = ld_loops[0].target
        if ast.unparse(ld_loops[0].iter).endswith(".items()") and isinstance(tg, ast.Tuple) and len(tg.elts) == 2:
            tg = tg.elts[1]
        if isinstance(tg, ast.Tuple) and len(tg.elts) == 2 and all(isinstance(e_, ast.Name) for e_ in tg.elts):
            pair = (tg.elts[0].id, tg.elts[1].id)  # type: ignore[attr-defined]
    # the rule texts below speak of (action, param): map the loop's own names onto them
    if pair is not None and pair != ("action", "param"):
        import re as _re

        s = _re.sub(rf"\b{pair[0]}\b", "action", _re.sub(rf"\b{pair[1]}\b", "param", s))
    ctx.check("super().enter_frame(frame)" in s and pair is not None and not any(isinstance(x, (ast.Break, ast.Return)) for x in ast.walk(ld_loops[0])), "tracking:loop", "meta:TrackingCodeGenerator.enter_frame", "iterates the frame's loads", "the tracking generator must call the base enter_frame and iterate frame.symbols.loads", ef.loc())
    cmp_ = [n_ for n_ in ast.walk(ef.node) if isinstance(n_, ast.Compare) and ast.unparse(n_.left) == "action"]
    ok = len(cmp_) == 1 and isinstance(cmp_[0].comparators[0], ast.Constant) and cmp_[0].comparators[0].value == const
    ok = ok or (len(cmp_) == 1 and ast.unparse(cmp_[0].comparators[0]) == "VAR_LOAD_RESOLVE")
    ctx.check(ok, "tracking:constant", "meta:TrackingCodeGenerator.enter_frame", "resolve instruction constant", f"the tracking generator must test action == {const!r} (idtracking.VAR_LOAD_RESOLVE)", ef.loc())
    adds = [c for c in astq.calls(ef.node) if astq.callee(c) == "self.undeclared_identifiers.add"]
    ctx.need(len(adds) == 1, "undeclared_identifiers.add(...) not found exactly once")
    # the path condition as signed atoms (a `continue` guard, a nested if and an `and` are the same)
    conds = []
    pair_ = pair or ("action", "param")
    for txt_, pol_ in astq.guard_atoms(ef.node, adds[0]):
        t2 = re.sub(rf"\b{pair_[0]}\b", "action", re.sub(rf"\b{pair_[1]}\b", "param", txt_))
        conds.append(("" if pol_ else "not ") + t2)
    allowed = {"action == 'resolve'", "action == VAR_LOAD_RESOLVE", "not param in self.environment.globals", "param not in self.environment.globals"}
    extra = [c for c in conds if c not in allowed]
    ctx.check(not extra and any("action ==" in c for c in conds), "tracking:guards-exact", "meta:TrackingCodeGenerator.enter_frame", f"extra conditions {extra} before recording a name",
              f"a context lookup is recorded only under {conds}; every condition beyond `action == resolve` and `not an environment global` ({extra}) hides names that the generated code still resolves from the render context at run time", ef.loc(adds[0]), detail={"conditions": conds})
    ctx.check(not [n_ for n_ in ast.walk(ef.node) if isinstance(n_, ast.Continue)] or not extra, "tracking:no-skip", "meta:TrackingCodeGenerator.enter_frame", "loads skipped with continue", "no load may be skipped", ef.loc())
    ctx.check("param not in self.environment.globals" in s and "self.undeclared_identifiers.add(param)" in s, "tracking:record", "meta:TrackingCodeGenerator.enter_frame", "records the name", "every resolved name that is not an environment global must be recorded", ef.loc())
    # the tracking generator reads frame.symbols.loads *after* the base enter_frame ran: the
    # code generator must leave the symbol tables as the analysis built them (who-may-write:
    # only idtracking stores into Symbols.loads / refs / stores)
    n_w = 0
    for mod in ("compiler", "meta", "nativetypes"):
        m_ = repo.module(mod)
        for n_ in ast.walk(m_.tree):
            tgt = None
            if isinstance(n_, ast.Subscript) and isinstance(n_.ctx, (ast.Store, ast.Del)) and isinstance(n_.value, ast.Attribute) and n_.value.attr in ("loads", "refs") and "symbols" in ast.unparse(n_.value):
                tgt = n_
            elif isinstance(n_, ast.Call) and isinstance(n_.func, ast.Attribute) and n_.func.attr in ("pop", "update", "clear", "setdefault", "popitem", "add", "discard", "remove") and isinstance(n_.func.value, ast.Attribute) and n_.func.value.attr in ("loads", "refs", "stores") and "symbols" in ast.unparse(n_.func.value):
                tgt = n_
            elif isinstance(n_, ast.Attribute) and isinstance(n_.ctx, (ast.Store, ast.Del)) and n_.attr in ("loads", "refs", "stores") and "symbols" in ast.unparse(n_.value):
                tgt = n_
            if tgt is not None:
                n_w += 1
                ctx.bad(f"{mod}:{astq.enclosing_qual(tgt)}", f"modifies the symbol table: {ast.unparse(tgt)[:50]}",
                        f"{mod}.{astq.enclosing_qual(tgt)} modifies `{ast.unparse(tgt)[:60]}`: the symbol tables are read again after code generation started (TrackingCodeGenerator.enter_frame reports the resolve loads after the base implementation ran; nested frames copy them) - a load re-labelled here is looked up from the context at run time but no longer reported by find_undeclared_variables",
                        f"{m_.rel}:{tgt.lineno}")
    if not n_w:
        ctx.ok("symbols:read-only-in-compiler", detail={"modules": ["compiler", "meta", "nativetypes"], "writes": 0})
    wr = repo.func("meta:TrackingCodeGenerator.write")
    body = [x for x in wr.node.body if not (isinstance(x, ast.Expr) and isinstance(x.value, ast.Constant))]  # type: ignore[attr-defined]
    ctx.check(not body or all(isinstance(x, ast.Pass) for x in body), "tracking:write", "meta:TrackingCodeGenerator.write", "write is a no-op", "the tracking generator must not write", wr.loc())
    fu = repo.func("meta:find_undeclared_variables")
    made_ = [a for a in ast.walk(fu.node) if isinstance(a, ast.Assign) and isinstance(a.value, ast.Call) and astq.callee(a.value) == "TrackingCodeGenerator" and isinstance(a.targets[0], ast.Name)]
    gv_ = made_[0].targets[0].id if len(made_) == 1 else "codegen"  # type: ignore[attr-defined]
    ctx.check(f"{gv_}.visit(ast)" in ast.unparse(fu.node) and f"return {gv_}.undeclared_identifiers" in ast.unparse(fu.node), "find_undeclared_variables", "meta:find_undeclared_variables", "runs the generator", "find_undeclared_variables must run the tracking generator over the whole template", fu.loc())
    # loads with the resolve instruction are created only by Symbols.load / branch_update
    sym = repo.cls("idtracking:Symbols")
    producers = sorted({name for name, fn in sym.methods.items() if "VAR_LOAD_RESOLVE" in ast.unparse(fn)})
    ctx.check(producers == ["branch_update", "load"], "resolve:producers", "idtracking:Symbols", f"resolve instruction producers {producers}", "VAR_LOAD_RESOLVE loads must be created by Symbols.load and branch_update only", sym.loc())

    ctx.rule("R3", "_ref_types = node classes whose compiler visitor loads a template (emits environment.get_template / select_template / get_or_select_template)")
    m = repo.module("meta")
    rt = m.assigns.get("_ref_types")
    ctx.need(isinstance(rt, ast.Tuple), "_ref_types not found")
    ref = {ast.unparse(e).split(".")[-1] for e in rt.elts}
    loaders = set()
    for entry, items in res.items():
        if not entry.startswith("visit_"):
            continue
        if any(("environment.get_template(" in sk.text or "environment.select_template(" in sk.text or "environment.get_or_select_template(" in sk.text) for _, sk in items):
            loaders.add(entry[6:])
    ctx.check(ref == loaders, "ref_types", "meta:<module>", f"_ref_types {sorted(ref)} vs loading visitors {sorted(loaders)}", f"find_referenced_templates looks at {sorted(ref)} but templates are loaded by the visitors of {sorted(loaders)}: {sorted(ref ^ loaders)} is missed or spurious", "src/jinja2/meta.py", detail={"ref_types": sorted(ref), "loading_visitors": sorted(loaders)})

    ctx.rule("R4", "find_referenced_templates: every path for a non-constant template expression yields a value (None for unknown); string constants yield themselves")
    fr = repo.func("meta:find_referenced_templates")
    s = ast.unparse(fr.node)
    ctx.check("for node in ast.find_all(_ref_types):" in s and "template: nodes.Expr = node.template" in s, "frt:iterates", "meta:find_referenced_templates", "iterates all reference nodes", "all reference nodes must be visited", fr.loc())
    # the non-Const branch: every leaf of the if-tree ends in a yield
    top = [n_ for n_ in ast.walk(fr.node) if isinstance(n_, ast.If) and ast.unparse(n_.test) == "not isinstance(template, nodes.Const)"]
    ctx.need(len(top) == 1, "non-constant branch not found")

    def leaves_yield(body: list[ast.stmt]) -> bool:
        ok = False
        for st in body:
            if isinstance(st, ast.Expr) and isinstance(st.value, ast.Yield):
                ok = True
            elif isinstance(st, ast.If):
                a = leaves_yield(st.body)
                b = leaves_yield(st.orelse) if st.orelse else False
                # an if without else that only refines string constants is fine inside a for over items
                ok = ok or (a and b)
            elif isinstance(st, ast.For):
                ok = ok or True
        return ok

    inner = [x for x in top[0].body if isinstance(x, ast.If)]
    ok = len(inner) == 1 and bool(inner[0].orelse) and leaves_yield(inner[0].orelse) and any(isinstance(x, ast.For) for x in inner[0].body)
    ctx.check(ok, "frt:nonconst", "meta:find_referenced_templates", "non-constant expression yields", "a non-constant template expression must yield None (or, for tuple/list literals, each constant item and None for the others)", fr.loc(top[0]))
    loops = [x for x in ast.walk(top[0]) if isinstance(x, ast.For)]
    ok = len(loops) == 1 and any(isinstance(y, ast.Expr) and isinstance(y.value, ast.Yield) and ast.unparse(y.value.value) == "None" for y in ast.walk(loops[0]))
    ctx.check(ok, "frt:list-items", "meta:find_referenced_templates", "dynamic list item yields None", "a non-constant item of a template list must yield None", fr.loc())
    last_else = [n_ for n_ in ast.walk(fr.node) if isinstance(n_, ast.If) and ast.unparse(n_.test) == "isinstance(template.value, str)"]
    ok = len(last_else) == 1 and bool(last_else[0].orelse)
    ctx.check(ok and "yield None" in ast.unparse(ast.Module(body=last_else[0].orelse, type_ignores=[])), "frt:const-other", "meta:find_referenced_templates", "other constants yield None", "a constant that is neither a string nor an include list must yield None", fr.loc())
    ctx.rule("R5", "Node.find_all searches every child field (iter_child_nodes without only / exclude), so a reference nested in any field - elif branches, call arguments - is found")
    ctx.use("nodes")
    fa = repo.func("nodes:Node.find_all")
    ic = [c for c in astq.calls(fa.node) if astq.attr_tail(c) == "iter_child_nodes"]
    ctx.need(bool(ic), "Node.find_all no longer iterates child nodes")
    restricted = [c for c in ic if c.args or c.keywords]
    ctx.check(not restricted, "find_all:all-fields", "nodes:Node.find_all", f"`{ast.unparse(restricted[0])}`" if restricted else "all fields",
              f"Node.find_all restricts the traversal (`{ast.unparse(restricted[0]) if restricted else ''}`): nodes in the skipped fields (`If.elif_`, expression fields) are never found, so meta.find_referenced_templates misses an include / import / extends there although rendering loads it",
              fa.loc(restricted[0]) if restricted else fa.loc())

    return __doc__ or ""
