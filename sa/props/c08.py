"""C08 - compile-time constant folding never changes what a template renders.

Decided statically: every ``as_const`` that *computes* (applies an operator, filter, test or
accessor to folded operands) turns any exception into Impossible, so failures are deferred to
run time; nodes whose run-time emission depends on the eval context (autoescape / volatile)
consult it in ``as_const`` too and refuse unconditionally under ``volatile``; folding goes
through the same callee the emitted code calls (environment.getattr/getitem, the filter/test
maps, the operator tables of C02); every fold site of the compiler is disabled or
escape-neutral for volatile frames; only values whose ``repr`` the generated module can
evaluate are folded (has_safe_repr recursion covers every component of every container).
Also: every nested as_const receives the eval context; ints without a text form are not folded.  
Also: Getattr / Getitem folding agrees with the emitted lookup.  
Not decided: equality of values between folded and unfolded evaluation.
"""

from __future__ import annotations

import ast

from .. import astq
from ..cfg import catches
from ..cfg import enclosing_try
from ..cfg import guards_of
from ..cfg import handler_types
from ..core import Ctx


def as_const_classes(ctx: Ctx) -> dict[str, ast.AST]:
    out = {}
    for ci in ctx.repo.classes("nodes"):
        if "as_const" in ci.methods:
            out[ci.name] = ci.methods["as_const"]
    return out


COMPUTING_CALLS = ("f(", "func(", "_cmpop_to_func[", "environment.getitem(", "environment.getattr(")


FOLD_BOOKKEEPING = {
    "Impossible", "get_eval_context", "tuple", "list", "slice", "Markup", "const", "super", "super().as_const", "env_map.get", "_PassArg.from_obj",
    "args_as_const", "args.insert", "inspect.iscoroutinefunction", "getattr",
}


def r0_fold_failures(ctx: Ctx, rid: str = "R0", size_rule: bool = False) -> None:
    """Shared with C02: folding must never turn a run-time error into a compile-time one."""
    ctx.use("nodes", "optimizer")
    repo = ctx.repo
    acs = as_const_classes(ctx)
    ctx.rule(rid, "fold failures are deferred: every as_const that applies an operator / filter / test / accessor does so inside `try: ... except Exception: raise Impossible()`")
    ctx.floor("classes defining as_const", len(acs), 22)
    n = 0
    for cname, fn in sorted(acs.items()):
        for c in astq.calls(fn):
            txt = ast.unparse(c)
            f = astq.callee(c)
            # anything applied to folded operands computes - except collecting them (tuple /
            # list / slice of constants cannot fail), the bookkeeping of the common filter
            # fold, and Markup() of text; dict() hashes its keys, the join helpers convert
            # every operand to text
            computing = not (f in FOLD_BOOKKEEPING or f.endswith(".as_const"))
            if not computing:
                continue
            n += 1
            ok = False
            for tr, part in enclosing_try(c):
                if part == "body":
                    for h in tr.handlers:
                        if catches(handler_types(h), "Exception"):
                            ok = any(astq.raise_type(r).endswith("Impossible") for r in astq.raises(h))
            ctx.check(ok, f"{cname}:{f}", f"nodes:{cname}.as_const", f"{f}(...) not guarded by except Exception -> Impossible",
                      f"{cname}.as_const evaluates `{txt[:60]}` without turning *every* exception into Impossible: an error in an untaken branch or dead code surfaces at compile time instead of being evaluated (or not) at run time",
                      f"src/jinja2/nodes.py:{c.lineno}", detail={"class": cname, "call": txt[:80]})
    ctx.floor("computing calls in as_const", n, 6)
    # a fold is evaluated under the eval context of the place it is folded for: every nested
    # as_const call hands the context on (without it the operand is folded under a fresh
    # default context - the environment's nameless autoescape default, never volatile)
    n_sub = 0
    for cname, fn in sorted(acs.items()):
        pnames = [a.arg for a in fn.args.args]  # type: ignore[attr-defined]
        ev = pnames[1] if len(pnames) > 1 else "eval_ctx"
        for c in astq.calls(fn):
            f = astq.callee(c)
            if not f.endswith(".as_const") and f != "as_const":
                continue
            n_sub += 1
            passed = [ast.unparse(a) for a in c.args] + [ast.unparse(k.value) for k in c.keywords if k.arg in (ev, "eval_ctx")]
            ctx.check(passed == [ev], f"{cname}:ctx:{ast.unparse(c)[:40]}", f"nodes:{cname}.as_const", f"`{ast.unparse(c)[:50]}` does not pass the eval context on",
                      f"{cname}.as_const folds an operand with `{ast.unparse(c)}`: every nested fold must receive `{ev}`; without it the operand is evaluated under EvalContext(environment) - autoescape as the environment decides for a nameless template, volatile false - and a value folded inside `{{% autoescape true %}}` is escaped differently from the same value at run time",
                      f"src/jinja2/nodes.py:{c.lineno}")
    ctx.floor("nested as_const calls", n_sub, 20)
    # folding evaluates at load time what the template would evaluate at run time; for the
    # size-amplifying operators the cost is not bounded by the size of the source
    # (`9**(9**9)`, `'a' * 10**10`): the fold needs a bound on operand magnitude (as CPython's
    # own constant folder has), otherwise loading a 15-character template does not terminate
    be = acs.get("BinExpr")
    if be is not None and size_rule:  # (C01 only: the property with the "never hangs" clause)
        binops = ast.unparse(repo.module("nodes").assigns.get("_binop_to_func") or ast.Constant(value=None))
        bounded = any(isinstance(x, ast.Compare) and any(k in ast.unparse(x) for k in ("bit_length", "len(", "MAX_", "_LIMIT", "_limit")) for x in ast.walk(be)) or "safe_" in binops
        ctx.check(bounded, "BinExpr:fold-size", "nodes:BinExpr.as_const", "pow / mul folded without a bound on the result size",
                  "BinExpr.as_const applies `**` and `*` to constant operands of any magnitude: `{{ 9**(9**9) }}` (also inside `{% if false %}`) keeps the loader busy for hours and `{{ 'a' * 10**10 }}` builds a 10 GB literal - the template never finishes loading",
                  f"src/jinja2/nodes.py:{be.lineno}")
    aac = repo.func("nodes:args_as_const")
    for c in astq.calls(aac.node):
        if astq.callee(c) in ("args.extend", "kwargs.update"):
            ok = any(part == "body" and any(catches(handler_types(h), "Exception") for h in tr.handlers) for tr, part in enclosing_try(c))
            ctx.check(ok, f"args_as_const:{astq.callee(c)}", "nodes:args_as_const", f"{astq.callee(c)} unguarded", "dynamic args folding must map any exception to Impossible", aac.loc(c))
    og = repo.func("optimizer:Optimizer.generic_visit")
    s = ast.unparse(og.node)
    ctx.check("nodes.Const.from_untrusted(" in s and "except nodes.Impossible" in s and "isinstance(node, nodes.Expr)" in s, "optimizer", "optimizer:Optimizer.generic_visit", "fold only expressions, only safe reprs",
              "the optimizer must fold only Expr nodes, through Const.from_untrusted, and keep the node on Impossible", og.loc())
    fu = repo.func("nodes:Const.from_untrusted")
    ctx.check("has_safe_repr(value)" in ast.unparse(fu.node) and any(astq.raise_type(r).endswith("Impossible") for r in astq.raises(fu.node)), "from_untrusted", "nodes:Const.from_untrusted", "safe repr gate", "Const.from_untrusted must refuse values without a safe repr", fu.loc())


def check(ctx: Ctx) -> str:
    ctx.use("nodes", "compiler", "optimizer")
    repo = ctx.repo
    acs = as_const_classes(ctx)
    r0_fold_failures(ctx)

    ctx.rule("R1", "eval-context dependent nodes refuse to fold under volatile, unconditionally, and branch on autoescape exactly as their emission does")
    # nodes whose emitted code consults context.eval_ctx at run time
    dependent = {"TemplateData": True, "MarkSafeIfAutoescape": True, "_FilterTestCommon": False, "Concat": True}
    for cname, uses_autoescape in dependent.items():
        fn = acs.get(cname)
        ctx.need(fn is not None, f"nodes.{cname}.as_const vanished")
        rs = [r for r in astq.raises(fn) if astq.raise_type(r).endswith("Impossible")]
        ok = False
        for r in rs:
            gs = [(ast.unparse(g), pol) for g, pol in guards_of(r)]
            if gs == [("eval_ctx.volatile", True)]:
                ok = True
        ctx.check(ok, f"{cname}:volatile", f"nodes:{cname}.as_const", "no unconditional volatile refusal",
                  f"{cname}.as_const does not `raise Impossible()` under exactly `if eval_ctx.volatile:`; with autoescape decided at run time the folded value is escaped (or not) according to the compile-time default",
                  f"src/jinja2/nodes.py:{fn.lineno}", detail={"class": cname, "impossible_guards": [[(ast.unparse(g), p) for g, p in guards_of(r)] for r in rs]})
        if uses_autoescape:
            ctx.check("eval_ctx.autoescape" in ast.unparse(fn), f"{cname}:autoescape", f"nodes:{cname}.as_const", "autoescape not consulted",
                      f"the emitted code for {cname} depends on autoescape (Markup / markup_join) but {cname}.as_const ignores eval_ctx.autoescape", f"src/jinja2/nodes.py:{fn.lineno}")
    ft = acs["_FilterTestCommon"]
    s = ast.unparse(ft)
    for frag, what in (("pass_arg is _PassArg.context", "context filters are never folded"), ("eval_ctx.environment.is_async", "async variants are not folded in async mode"), ("jinja_async_variant", "async variants are recognised")):
        ctx.check(frag in s, f"filter-fold:{what}", "nodes:_FilterTestCommon.as_const", what, f"_FilterTestCommon.as_const lost the rule: {what}", f"src/jinja2/nodes.py:{ft.lineno}")
    async_fold_rule(ctx, ft)
    ins = [c for c in astq.calls(ft) if astq.callee(c) == "args.insert"]
    want = {"eval_ctx": "pass_arg is _PassArg.eval_context", "eval_ctx.environment": "pass_arg is _PassArg.environment"}
    for c in ins:
        a = ast.unparse(c.args[1]) if len(c.args) > 1 else ""
        if a in want:
            ok = any(g == want[a] and pol for g, pol in astq.guard_texts(ft, c))
            ctx.check(ok, f"filter-fold:pass:{a}", "nodes:_FilterTestCommon.as_const", f"pass-arg {a}", f"the fold passes {a} under the wrong decorator kind", f"src/jinja2/nodes.py:{c.lineno}")
    sub = {c.name for c in repo.classes("nodes") if "_FilterTestCommon" in [x.name for x in repo.mro(c)][1:]}
    for cname in sorted(sub):
        fn = acs.get(cname)
        if fn is not None:
            ctx.check("super().as_const(" in ast.unparse(fn), f"{cname}:super", f"nodes:{cname}.as_const", "delegates to the common fold", f"{cname}.as_const overrides the common fold without delegating to it (volatile / async / context rules bypassed)", f"src/jinja2/nodes.py:{fn.lineno}")

    ctx.rule("R2", "compiler fold sites are disabled (or escape-neutral) for volatile frames")
    oc = repo.func("compiler:optimizeconst")
    inner = [n_ for n_ in ast.walk(oc.node) if isinstance(n_, ast.FunctionDef) and n_ is not oc.node]
    ctx.need(len(inner) == 1, "optimizeconst wrapper not found")
    vis = [c for c in astq.calls(inner[0]) if astq.callee(c) == "self.optimizer.visit"]
    ok = len(vis) == 1 and ("frame.eval_ctx.volatile", False) in astq.guard_atoms(inner[0], vis[0])
    ctx.check(ok, "optimizeconst", "compiler:optimizeconst", "volatile guard", "optimizeconst must not run the optimizer for volatile frames", oc.loc())
    deco = [name for name, fn in repo.cls("compiler:CodeGenerator").methods.items() if any(ast.unparse(d) == "optimizeconst" for d in fn.decorator_list)]
    ctx.floor("@optimizeconst visitors", len(deco), 8)
    octc = repo.func("compiler:CodeGenerator._output_child_to_const")
    esc = [c for c in astq.calls(octc.node) if astq.callee(c) == "escape"]
    ok = bool(esc) and any(g == "frame.eval_ctx.autoescape" and pol for g, pol in astq.guard_texts(octc.node, esc[0]))
    ctx.check(ok, "output-const:escape", "compiler:CodeGenerator._output_child_to_const", "compile-time escape", "constants folded into output must be escaped when the frame autoescapes", octc.loc())
    vol = any(astq.raise_type(r).endswith("Impossible") and any("eval_ctx.volatile" in g and pol for g, pol in astq.guard_texts(octc.node, r)) for r in astq.raises(octc.node))
    vo = repo.func("compiler:CodeGenerator.visit_Output")
    vol2 = any(astq.raise_type(r).endswith("Impossible") and any("eval_ctx.volatile" in g and pol for g, pol in astq.guard_texts(vo.node, r)) for r in astq.raises(vo.node))
    ctx.check(vol or vol2, "output-const:volatile", "compiler:CodeGenerator._output_child_to_const", "folds under volatile",
              "visit_Output folds constant children and escapes them with the *compile-time* autoescape flag even when the frame is volatile: `{% autoescape flag %}{{ \"<b>\" }}{% endautoescape %}` emits the literal unescaped (or double escaped)",
              octc.loc(), detail={"escape_guard": "frame.eval_ctx.autoescape (compile time)", "volatile_guard": None})
    nat = repo.func("nativetypes:NativeCodeGenerator._output_child_to_const")
    ctx.check("has_safe_repr(const)" in ast.unparse(nat.node), "native:safe-repr", "nativetypes:NativeCodeGenerator._output_child_to_const", "safe repr gate", "native constant output must refuse values without a safe repr", nat.loc())
    r3_safe_repr(ctx)
    visitor_forwarding_rule(ctx, "R4")
    lookup_fold_agreement_rule(ctx, "R6")
    # the fold tables are the run-time operators (rule owned by C02): a folded comparison /
    # arithmetic must apply the operands in the order the emitted code does
    from . import c02

    ctx.run_imported("C02", {"R2"}, c02.check)
    return __doc__ or ""


def lookup_fold_agreement_rule(ctx: Ctx, rid: str) -> None:
    """A folded `x.name` / `x[key]` uses the lookup the emitted code uses (shared with C02: the
    attribute form prefers attributes, the subscript form items - also for constants)."""
    import re as _re

    ctx.rule(rid, "folding agrees with the emitted lookup: Getattr.as_const / visit_Getattr both go through environment.getattr, Getitem.as_const / visit_Getitem through environment.getitem")
    for cname, want in (("Getattr", "getattr"), ("Getitem", "getitem")):
        fold = ctx.repo.func(f"nodes:{cname}.as_const")
        vis = ctx.repo.func(f"compiler:CodeGenerator.visit_{cname}")
        used = set()
        for c in astq.calls(fold.node):
            f_ = astq.callee(c)
            if f_.endswith((".getattr", ".getitem")) and "environment" in f_:
                used.add(f_.rsplit(".", 1)[1])
            elif f_ in ("getattr", "operator.getitem"):
                used.add("builtin " + f_)
        used |= {"subscript"} if any(isinstance(x, ast.Subscript) and isinstance(x.ctx, ast.Load) and not isinstance(getattr(x, "_parent", None), ast.AnnAssign) and "as_const" in ast.unparse(x.value) for x in ast.walk(fold.node)) else set()
        emitted = set()
        for c in astq.calls(vis.node):
            if astq.attr_tail(c) in ("write", "writeline") and c.args:
                for k in ast.walk(c.args[0]):
                    if isinstance(k, ast.Constant) and isinstance(k.value, str):
                        emitted |= set(_re.findall(r"environment\.(\w+)\(", k.value))
        ok = used == {want} and emitted == {want}
        ctx.check(ok, f"{cname}:lookup", f"nodes:{cname}.as_const", f"fold uses {sorted(used)}, emitted code uses {sorted(emitted)}",
                  f"{cname}.as_const looks the constant up through {sorted(used)} while visit_{cname} emits environment.{sorted(emitted)}(...) (expected environment.{want} in both): a constant receiver (`{{{{ {{'items': 1}}.items }}}}`, `{{{{ ''.__class__ }}}}` in the sandbox) is resolved differently when the optimizer folds it than when the same expression runs - attribute-first vs item-first, or without the sandbox check",
                  fold.loc(), detail={"fold": sorted(used), "emitted": sorted(emitted)})


def async_fold_rule(ctx: Ctx, ft: ast.AST | None = None) -> None:
    """In async mode a filter *or test* that is a coroutine function (or an async_variant
    wrapper) must not be called by the optimizer: the call only creates a coroutine, which is
    then written into the template as a constant and never awaited."""
    if ft is None:
        ft = as_const_classes(ctx)["_FilterTestCommon"]
    rs = [r for r in astq.raises(ft) if astq.raise_type(r).endswith("Impossible")]
    # truth table of the refusal over (is_async, async variant, coroutine function): nested
    # ifs, one conjunction and named sub-tests are the same function
    import copy as _copy
    import itertools as _it

    named = {}
    for a_ in ast.walk(ft):
        if isinstance(a_, ast.Assign) and len(a_.targets) == 1 and isinstance(a_.targets[0], ast.Name) and isinstance(a_.value, (ast.BoolOp, ast.Compare, ast.UnaryOp, ast.Call)):
            nm = a_.targets[0].id
            if sum(1 for x in ast.walk(ft) if isinstance(x, ast.Name) and x.id == nm and isinstance(x.ctx, ast.Store)) == 1 and any(k in ast.unparse(a_.value) for k in ("is_async", "jinja_async_variant", "iscoroutinefunction")):
                named[nm] = a_.value

    def _leaf(txt: str) -> str | None:
        return "I" if "is_async" in txt and "jinja_async_variant" not in txt else "V" if "jinja_async_variant" in txt else "C" if "iscoroutinefunction" in txt else None

    def _ev(e: ast.AST, val: dict[str, bool]) -> bool | None:
        if isinstance(e, ast.Name) and e.id in named:
            return _ev(named[e.id], val)
        if isinstance(e, ast.UnaryOp) and isinstance(e.op, ast.Not):
            v = _ev(e.operand, val)
            return None if v is None else not v
        if isinstance(e, ast.BoolOp):
            vs = [_ev(v_, val) for v_ in e.values]
            if any(v is None for v in vs):
                return None
            return all(vs) if isinstance(e.op, ast.And) else any(vs)
        k = _leaf(ast.unparse(e))
        return None if k is None else val[k]

    hits = []
    ok = False
    for r in rs:
        gs_ = guards_of(r)
        if not any("is_async" in ast.unparse(g) or (isinstance(g, ast.Name) and g.id in named) for g, pol in gs_):
            continue
        hits.append([(ast.unparse(g), pol) for g, pol in gs_])
        good = True
        for i_, v_, c_ in _it.product([True, False], repeat=3):
            val = {"I": i_, "V": v_, "C": c_}
            rv = [(_ev(g, val), pol) for g, pol in gs_]
            if any(x is None for x, _ in rv):
                good = False
                break
            got = all((x if pol else not x) for x, pol in rv)
            if got != (i_ and (v_ or c_)):
                good = False
                break
        ok = good if len(hits) == 1 else False
    ctx.check(ok, "filter-fold:async-refusal", "nodes:_FilterTestCommon.as_const", f"async refusal guarded by {hits}",
              f"_FilterTestCommon.as_const must `raise Impossible()` under exactly `eval_ctx.environment.is_async and (jinja_async_variant or iscoroutinefunction(func))` - for filters and tests alike; found {hits}: a coroutine test / filter on constant operands is called at compile time, its coroutine is never awaited (RuntimeWarning) and its repr is folded into the template",
              f"src/jinja2/nodes.py:{ft.lineno}")  # type: ignore[attr-defined]


# reviewed calls that deliberately do not forward: (module, class, method, call text) -> reason
NO_FORWARD = {
    ("idtracking", "FrameSymbolVisitor", "visit_With", "self.visit(target)"): "the values of a with statement are plain loads: store_as_param / for_branch options must not apply to them",
}


def visitor_forwarding_rule(ctx: Ctx, rid: str) -> None:
    """The optimizer receives the frame's eval context as the extra visitor argument; the
    generic visitor machinery must hand it to every child (scalar and list fields alike),
    otherwise sub-expressions are folded under a default EvalContext."""
    ctx.use("visitor", "optimizer", "idtracking")
    repo = ctx.repo
    ctx.rule(rid, "visitor arguments are forwarded: in visitor / optimizer / idtracking every recursive visit / visit_list / generic_visit / resolved-visitor call inside a method taking *args / **kwargs passes them on")
    n = 0
    for mod in ("visitor", "optimizer", "idtracking"):
        m = repo.module(mod)
        for cls in [c for c in ast.walk(m.tree) if isinstance(c, ast.ClassDef)]:
            for fn in [f for f in cls.body if isinstance(f, ast.FunctionDef)]:
                va = fn.args.vararg.arg if fn.args.vararg else None
                kw = fn.args.kwarg.arg if fn.args.kwarg else None
                if not (va or kw):
                    continue
                for c in astq.calls(fn):
                    f = astq.callee(c)
                    if not (f in ("f", "super().generic_visit") or f.startswith("self.visit") or f == "self.generic_visit"):
                        continue
                    n += 1
                    fa = va is None or any(isinstance(a, ast.Starred) and ast.unparse(a.value) == va for a in c.args)
                    fk = kw is None or any(k.arg is None and ast.unparse(k.value) == kw for k in c.keywords)
                    txt = ast.unparse(c)
                    ok = (fa and fk) or (mod, cls.name, fn.name, txt) in NO_FORWARD
                    ctx.check(ok, f"{mod}:{cls.name}.{fn.name}:{txt}", f"{mod}:{cls.name}.{fn.name}", f"`{txt}` drops {'*' + va if not fa and va else ''}{' ' if not fa and not fk else ''}{'**' + kw if not fk and kw else ''}",
                              f"{cls.name}.{fn.name} visits a child with `{txt}` without forwarding its extra arguments: the optimizer then folds that child under a default EvalContext (wrong autoescape / volatile), symbol analysis loses its options", f"{m.rel}:{c.lineno}")
    ctx.floor("forwarding sites", n, 15)


def _canon_comp(e: ast.AST) -> str:
    """Text of an expression with the target names of its comprehensions renamed to _c0, _c1 ...
    in order of binding (the names are bound variables)."""
    import copy

    e = copy.deepcopy(e)
    ren: dict[str, str] = {}
    for comp in ast.walk(e):
        if isinstance(comp, ast.comprehension):
            for t_ in ast.walk(comp.target):
                if isinstance(t_, ast.Name) and t_.id not in ren:
                    ren[t_.id] = f"_c{len(ren)}"
    for n_ in ast.walk(e):
        if isinstance(n_, ast.Name) and n_.id in ren:
            n_.id = ren[n_.id]
    return ast.unparse(e)


def r3_safe_repr(ctx: Ctx, rid: str = "R3") -> None:
    """Shared with C01: a value is written into the generated module with repr() only when
    that repr is a Python literal, otherwise compile() fails with a host-language error."""
    ctx.use("compiler")
    repo = ctx.repo
    ctx.rule(rid, "has_safe_repr: only literal-evaluable types; container branches recurse over every component (dict: keys and values)")
    hs = repo.func("compiler:has_safe_repr")
    # normal form: a local naming type(value) is inlined, the chain of early returns is an if / else chain
    branches = [n_ for n_ in ast.walk(hs.nnode) if isinstance(n_, ast.If)]
    safe_atoms = {"bool", "int", "float", "complex", "range", "str", "Markup"}
    # a local naming type(value) that is read several times stays a local in the normal form
    type_alias = {t_.id for a_ in ast.walk(hs.nnode) if isinstance(a_, ast.Assign) and ast.unparse(a_.value) == "type(value)" for t_ in a_.targets if isinstance(t_, ast.Name)}
    type_alias = {n_ for n_ in type_alias if sum(1 for a_ in ast.walk(hs.nnode) if isinstance(a_, ast.Name) and a_.id == n_ and isinstance(a_.ctx, ast.Store)) == 1}
    seq_types = {"tuple", "list", "set", "frozenset"}
    nb = 0
    for b in branches:
        t_ = b.test
        types: set[str] = set()
        if isinstance(t_, ast.Compare) and (ast.unparse(t_.left) == "type(value)" or ast.unparse(t_.left) in type_alias):
            comp = t_.comparators[0]
            if isinstance(comp, (ast.Set, ast.Tuple, ast.List)):
                types = {ast.unparse(e) for e in comp.elts}
            else:
                types = {ast.unparse(comp)}
        if isinstance(t_, ast.Call) and ast.unparse(t_.func) == "isinstance" and t_.args and ast.unparse(t_.args[0]) == "value":
            nb += 1
            ctx.check(False, f"exact-type:{ast.unparse(t_)[:40]}", "compiler:has_safe_repr", f"`{ast.unparse(t_)}` accepts subclasses",
                      f"has_safe_repr tests `{ast.unparse(t_)}`: a subclass (a namedtuple such as groupby's result, an OrderedDict, a str/int subclass with its own repr) passes although evaluating its repr() does not rebuild the same object - the folded constant changes type and attribute access on it fails at run time; the test must compare type(value) exactly", hs.loc(b))
            continue
        if not types:
            continue
        nb += 1
        ret = [r for r in b.body if isinstance(r, ast.Return)]
        rtxt = _canon_comp(ret[0].value) if ret else ""
        if "int" in types:
            # repr() of an int is a literal only when the conversion to text is allowed at all
            # (sys.set_int_max_str_digits): the int arm has to try it (or bound the magnitude)
            probes = [c for c in astq.calls(b) if astq.callee(c) in ("repr", "str") or astq.callee(c).endswith(".bit_length")]
            ctx.check(bool(probes) and any(isinstance(x, ast.Return) and ast.unparse(x.value) == "False" for x in ast.walk(b)), "atoms:int-convertible", "compiler:has_safe_repr", "int accepted without checking that it converts to text",
                      "has_safe_repr accepts every int: a folded value such as 10**5000 has no repr (ValueError: Exceeds the limit for integer string conversion), so `{{ 10**5000 }}` / `{% set x = 10**5000 %}` fail with ValueError while the template is loaded", hs.loc(b))
        if rtxt == "True":
            ctx.check(types <= safe_atoms, f"atoms:{sorted(types)}", "compiler:has_safe_repr", f"atomic types {sorted(types - safe_atoms)}", f"types {sorted(types - safe_atoms)} are declared safe but their repr is not a literal", hs.loc(b))
        else:
            if "dict" in types:
                ok = rtxt == "all((has_safe_repr(_c0) and has_safe_repr(_c1) for _c0, _c1 in value.items()))" and types == {"dict"}
                ctx.check(ok, "containers:dict", "compiler:has_safe_repr", "dict components", "the dict branch must check keys AND values (iterating a dict yields keys only): an unsafe value is written into the generated source with repr()", hs.loc(b), detail={"types": sorted(types), "returns": rtxt})
            else:
                ok = types <= seq_types and rtxt == "all((has_safe_repr(_c0) for _c0 in value))"
                ctx.check(ok, f"containers:{sorted(types)}", "compiler:has_safe_repr", f"sequence components {sorted(types)}", "sequence branches must require every element to be safe", hs.loc(b))
    ctx.floor("type branches in has_safe_repr", nb, 3)
    last = sorted(astq.returns(hs.nnode), key=lambda r_: (r_.lineno, r_.col_offset))[-1]
    ctx.check(isinstance(last, ast.Return) and ast.unparse(last.value) == "False" and not any(pol for g, pol in astq.guard_atoms(hs.nnode, last)), "default:False", "compiler:has_safe_repr", "default", "has_safe_repr must default to False", hs.loc(last))
    vc = repo.func("compiler:CodeGenerator.visit_Const")
    bad = False
    for c in astq.calls(vc.node):
        if astq.callee(c) == "self.write" and c.args and ast.unparse(c.args[0]) in ("str(val)", "repr(val)"):
            gts = astq.guard_atoms(vc.node, c)  # signed atoms only: a raw `not isinstance(...)` text must not be read as the positive test
            is_float_path = any("isinstance(val, float)" in g and pol for g, pol in gts) or not any("isinstance(val, float)" in g for g, pol in gts)
            finite_guard = any(("inf" in g or "isfinite" in g or "isnan" in g or "val != val" in g) for g, pol in gts)
            if is_float_path and not finite_guard and any("isinstance(val, float)" in g and pol for g, pol in gts):
                bad = True
    # a folded constant lands in operand position (`Pow(Const(-2), x)` after Neg was folded):
    # the text written for it must be an atom, so a bare repr()/str() may only be written once
    # a leading sign has been ruled out
    for c in astq.calls(vc.node):
        if astq.callee(c) == "self.write" and c.args and ast.unparse(c.args[0]) in ("str(val)", "repr(val)"):
            gts = astq.guard_atoms(vc.node, c)  # signed atoms only: a raw `not isinstance(...)` text must not be read as the positive test
            float_path = any("isinstance(val, float)" in g and pol for g, pol in gts)
            # for a float only the *text* tells the sign: -0.0 < 0 is false but str(-0.0) is "-0.0"
            signed_out = any(((("< 0" in g) and not float_path) or ("'-'" in g) or ('"-"' in g) or ("copysign" in g)) and not pol for g, pol in gts)
            ctx.check(signed_out, f"visit_Const:atom:{ast.unparse(c.args[0])}", "compiler:CodeGenerator.visit_Const", f"bare {ast.unparse(c.args[0])} written without excluding a leading sign",
                      f"visit_Const writes {ast.unparse(c.args[0])} on a path where the value may be negative (guards: {gts}): the optimizer folds `-2` to the constant -2, whose bare text `-2` as the left operand of `**` means -(2 ** x) - `{{{{ (-2) ** x }}}}` gives -4 with the optimizer and 4 without", vc.loc(c))
    ctx.check(not bad, "visit_Const:float", "compiler:CodeGenerator.visit_Const", "float re-emission", "floats are re-emitted with str(): inf / nan (a folded 1e999) become the undefined names `inf` / `nan` in the generated module", vc.loc())
