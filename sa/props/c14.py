"""C14 - template literals denote the same values as Python literals.

Decided statically: (regex automata, engine E5) every spelling integer_re / float_re accept
is a Python integer / float literal of the language reference (so int(text, 0) and
literal_eval(text) read it as Python does), Python's own repr of non-negative ints and
finite floats is accepted, and float_re is tried before integer_re; the conversions applied
are exactly int(text.replace("_", ""), 0) and literal_eval(text.replace("_", "")); string
literals are converted by the fixed pipeline quotes-stripped -> newline normalisation ->
ascii/backslashreplace -> unicode-escape with no other rewrite of the text; adjacent string
tokens are concatenated by the parser; constants are re-emitted with repr() (finite floats
with str()).  Also: every spelling visit_Const writes goes through str() / repr() only.  
Also: TemplateExpression.__call__ substitutes None only for an Undefined result (never by truthiness).  
Not decided: equality of the decoded string value with Python's for every
escape sequence (depends on the codec's behaviour).
"""

from __future__ import annotations

import ast

from .. import astq
from ..core import Ctx
from ..lexmodel import LexModel
from ..lexmodel import configs
from ..lexrules import string_pipeline_rule
from ..rx import DFA
from ..rx import counterexample_not_subset

# Python language reference, lexical analysis 2.4.5 / 2.4.6 (case-insensitive prefixes / exponent)
PY_INT = r"""(?ai)
    (?: [1-9](?:_?[0-9])* | 0+(?:_?0)* | 0b(?:_?[01])+ | 0o(?:_?[0-7])+ | 0x(?:_?[0-9a-f])+ )
"""
_DIGITPART = r"[0-9](?:_?[0-9])*"
PY_FLOAT = rf"""(?ai)
    (?: (?:{_DIGITPART})?\.{_DIGITPART} | {_DIGITPART}\. )(?:e[+\-]?{_DIGITPART})?
  | {_DIGITPART}e[+\-]?{_DIGITPART}
"""
REPR_INT = r"(?a)(?:0|[1-9][0-9]*)"
REPR_FLOAT = r"(?a)(?:[0-9]+\.[0-9]+(?:e[+\-][0-9]+)?|[0-9]+e[+\-][0-9]+)"


def check(ctx: Ctx) -> str:
    import re

    ctx.use("lexer", "parser", "compiler")
    repo = ctx.repo
    lm = LexModel(repo, configs()[0])
    ire = lm.module_regex("integer_re")
    fre = lm.module_regex("float_re")
    ctx.rule("R1", "language inclusion: L(integer_re) subset-of Python integer literals, L(float_re) subset-of Python float literals, repr(int >= 0) subset-of L(integer_re), repr(finite float) subset-of L(float_re)")
    d_int, d_float = DFA(ire.pattern, ire.flags), DFA(fre.pattern, fre.flags)
    p_int, p_float = DFA(PY_INT, re.X), DFA(PY_FLOAT, re.X)
    for name, a, b, what in (
        ("integer_re<=PyInt", d_int, p_int, "integer_re accepts a spelling that is not a Python integer literal"),
        ("float_re<=PyFloat", d_float, p_float, "float_re accepts a spelling that is not a Python float literal"),
        ("repr(int)<=integer_re", DFA(REPR_INT, 0), d_int, "Python's repr of a non-negative int is not accepted by integer_re"),
        ("repr(float)<=float_re", DFA(REPR_FLOAT, 0), d_float, "Python's repr of a finite float is not accepted by float_re"),
    ):
        cex = counterexample_not_subset(a, b)
        ctx.check(cex is None, name, "lexer:<module>", name, f"{what}: e.g. {cex!r} - the lexer reads it as one number although Python assigns it no (or another) value; int()/literal_eval() raise or disagree", "src/jinja2/lexer.py",
                  detail={"inclusion": name, "states": [len(a.states), len(b.states)], "counterexample": cex})
    # the float rule must come first, else "1.5" lexes as integer 1 + ...
    order = [r.pat.origin for r in lm.rules["block_begin"]]
    ctx.check("float_re" in order and "integer_re" in order and order.index("float_re") < order.index("integer_re"), "rule-order", "lexer:Lexer.__init__", "float before integer", f"tag rules are tried in the order {order}: float_re must precede integer_re", "src/jinja2/lexer.py")
    for st in ("block_begin", "variable_begin", "linestatement_begin"):
        o2 = [r.pat.origin for r in lm.rules[st][1:]]
        ctx.check(o2 == order[1:], f"rule-order:{st}", "lexer:Lexer.__init__", f"{st} uses the shared tag rules", f"state {st} has its own literal rules {o2}", "src/jinja2/lexer.py")

    ctx.rule("R2", "conversions: integers with int(text.replace('_', ''), 0), floats with literal_eval(text.replace('_', ''))")
    wrap = repo.func("lexer:Lexer.wrap")
    for tok, want in (("TOKEN_INTEGER", "int(value_str.replace('_', ''), 0)"), ("TOKEN_FLOAT", "literal_eval(value_str.replace('_', ''))")):
        hit = [n for n in ast.walk(wrap.nnode) if isinstance(n, ast.If) and ast.unparse(n.test) == f"token == {tok}"]  # normal form: a local naming the cleaned text is inlined
        ok = len(hit) == 1 and any(isinstance(n, ast.Assign) and ast.unparse(n.targets[0]) == "value" and ast.unparse(n.value) == want for n in ast.walk(ast.Module(body=hit[0].body, type_ignores=[])))
        ctx.check(ok, f"convert:{tok}", "lexer:Lexer.wrap", f"{tok} conversion", f"{tok} must be converted with `{want}` (base 0 gives Python's prefix rules; underscores are removed first)", wrap.loc())
    string_pipeline_rule(ctx, "R3")

    ctx.rule("R4", "adjacent string literals are concatenated; number and string tokens become Const nodes carrying the converted value; constants are re-emitted with repr()")
    pp = repo.func("parser:Parser.parse_primary")
    s = ast.unparse(pp.node)
    wl_ = [w for w in ast.walk(pp.node) if isinstance(w, ast.While) and ast.unparse(w.test) in ("self.stream.current.type == 'string'", "'string' == self.stream.current.type")]
    ok_adj = len(wl_) == 1
    if ok_adj:
        app_ = [c for c in astq.calls(wl_[0]) if isinstance(c.func, ast.Attribute) and c.func.attr == "append" and isinstance(c.func.value, ast.Name) and [ast.unparse(a) for a in c.args] == ["self.stream.current.value"]]
        ok_adj = len(app_) == 1 and any(astq.callee(c) == "next" for c in astq.calls(wl_[0]))
        if ok_adj:
            ln_ = app_[0].func.value.id  # type: ignore[attr-defined]
            ok_adj = f"{ln_} = [token.value]" in s and f"nodes.Const(''.join({ln_}), lineno=" in s
    ctx.check(ok_adj, "adjacent-strings", "parser:Parser.parse_primary", "string concatenation", "adjacent string tokens must be joined into one Const", pp.loc())
    ctx.check("token.type in ('integer', 'float')" in s and "nodes.Const(token.value, lineno=token.lineno)" in s, "number-const", "parser:Parser.parse_primary", "number constants", "integer / float tokens must become Const(token.value)", pp.loc())
    vc = repo.func("compiler:CodeGenerator.visit_Const")
    s = ast.unparse(vc.node)
    ctx.check("self.write(repr(val))" in s, "visit_Const:repr", "compiler:CodeGenerator.visit_Const", "constants re-emitted with repr", "constants must be written into the module with repr()", vc.loc())
    # every spelling visit_Const writes is an exact one: the value reaches the text only through
    # str() / repr() (round-trip exact for float and int) - never through a format spec, rounding
    # or arithmetic (`f"{val:.1f}"` turns 1e-06 into 0.0)
    vname = "val"
    src_ = [a for a in ast.walk(vc.node) if isinstance(a, ast.Assign) and isinstance(a.value, ast.Call) and astq.callee(a.value).endswith(".as_const") and isinstance(a.targets[0], ast.Name)]
    if len(src_) == 1:
        vname = src_[0].targets[0].id  # type: ignore[attr-defined]

    visiting: set[str] = set()

    def _exact(e: ast.AST, depth: int = 0) -> bool:
        if isinstance(e, ast.Constant):
            return True
        if isinstance(e, ast.Name):
            if e.id == vname or e.id in visiting:
                return True  # (a local re-wrapped in terms of itself, `text = f"({text})"`: by induction)
            vals = [a.value for a in ast.walk(vc.node) if isinstance(a, ast.Assign) and any(isinstance(t_, ast.Name) and t_.id == e.id for t_ in a.targets)]
            visiting.add(e.id)
            try:
                return bool(vals) and depth < 4 and all(_exact(v_, depth + 1) for v_ in vals)
            finally:
                visiting.discard(e.id)
        if isinstance(e, ast.Call) and astq.callee(e) in ("str", "repr") and len(e.args) == 1 and not e.keywords:
            return _exact(e.args[0], depth)
        if isinstance(e, ast.JoinedStr):
            return all(isinstance(v_, ast.Constant) or (isinstance(v_, ast.FormattedValue) and v_.format_spec is None and _exact(v_.value, depth)) for v_ in e.values)
        if isinstance(e, ast.BinOp) and isinstance(e.op, ast.Add):
            return _exact(e.left, depth) and _exact(e.right, depth)
        if isinstance(e, ast.IfExp):
            return _exact(e.body, depth) and _exact(e.orelse, depth)
        return False

    writes = [c for c in astq.calls(vc.node) if astq.callee(c) == "self.write" and c.args]
    ctx.floor("writes in visit_Const", len(writes), 1)
    for c in writes:
        ctx.check(_exact(c.args[0]), f"visit_Const:exact:{ast.unparse(c.args[0])[:30]}", "compiler:CodeGenerator.visit_Const", f"`{ast.unparse(c.args[0])[:50]}` is not an exact spelling of the constant",
                  f"visit_Const writes `{ast.unparse(c.args[0])}`: a constant must reach the generated module through str() / repr() only; a format spec, rounding or arithmetic changes the value the template literal denotes (`{{% set x = 1e-6 %}}` becomes 0.0)", vc.loc(c))
    sre = lm.module_regex("string_re")
    ctx.check(sre.flags & re.S and sre.pattern.count("\\\\.") == 2, "string_re", "lexer:<module>", "string_re shape", "string_re must accept any escaped character (\\\\.) inside both quote styles and span lines (re.S)", "src/jinja2/lexer.py")
    # the spelling of a signed / non-finite constant (rule shared with C08)
    from .c08 import r3_safe_repr

    r3_safe_repr(ctx, "R5")

    ctx.rule("R6", "no memoisation by value equality on the path from a literal to the generated text: `True == 1 == 1.0` and `0 == False == 0.0` hash alike, a cache keyed by the constant hands one literal the text of another")
    n_dec = 0
    for mod in ("lexer", "parser", "nodes", "optimizer", "compiler", "nativetypes"):
        m_ = repo.module(mod)
        for fn_ in astq.all_funcdefs(m_.tree):
            for d_ in fn_.decorator_list:
                n_dec += 1
                dt = ast.unparse(d_.func if isinstance(d_, ast.Call) else d_)
                ctx.check(dt.split(".")[-1] not in ("lru_cache", "cache", "memoize"), f"memo:{mod}:{astq.qualname(fn_)}", f"{mod}:{astq.qualname(fn_)}", f"@{dt} on the literal-to-text path",
                          f"{mod}.{astq.qualname(fn_)} is memoised with @{dt}: its cache key compares constants with == / hash, so `{{{{ true }}}}` followed by `{{{{ 1.0 }}}}` renders `True` twice (the finalize wrapper of the output folding is the typical place)", f"{m_.rel}:{fn_.lineno}")
    ctx.floor("decorated functions on the compile path", n_dec, 10)
    ctx.rule("R7", "compile_expression returns the literal's value itself: TemplateExpression.__call__ replaces the result by None only under `undefined_to_none and isinstance(rv, Undefined)` - never by truthiness (0, 0.0, '' are values)")
    ctx.use("environment")
    te = repo.func("environment:TemplateExpression.__call__")
    subst = [a for a in ast.walk(te.node) if isinstance(a, ast.Assign) and isinstance(a.value, ast.Constant) and a.value.value is None]
    subst += [r_ for r_ in astq.returns(te.node) if isinstance(r_.value, ast.Constant) and r_.value.value is None]
    ctx.need(bool(subst), "TemplateExpression.__call__: the None substitution was not found")
    for i_, a in enumerate(subst):
        at_ = astq.guard_atoms(te.node, a)
        und = [x for x in at_ if x[1] and x[0].startswith("isinstance(") and x[0].endswith(", Undefined)")]
        extra = [x for x in at_ if x not in und and "_undefined_to_none" not in x[0]]
        ctx.check(bool(und) and not extra, f"undefined_to_none:{i_}", "environment:TemplateExpression.__call__", f"None substituted under {at_}",
                  f"TemplateExpression.__call__ turns the result into None under {at_}: only an Undefined result may be replaced - with a truthiness test `compile_expression('0')()`, `'0.0'`, `\"''\"` return None instead of the value the literal denotes",
                  te.loc(a))

    return __doc__ or ""
