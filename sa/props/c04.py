"""C04 - template inheritance renders the most-derived block overrides.

Decided statically: the block stack has one orientation everywhere - a template's own block
first (Context.__init__), parent blocks appended (visit_Extends), the head ``[0]`` rendered
(visit_Block, TemplateReference), ``super`` = index + 1 in both Context.super and
BlockReference.super, required check ``len(...) <= 1``; (skeletons) every block call passes
the derived context exactly for scoped blocks, the required check precedes the call, output
and blocks at top level are suppressed after a known extends and guarded by
``parent_template is None`` after a possible one; with extends the root function ends by
delegating to ``parent_template.root_render_func(context)`` with the same context.
Also: who-may-write Frame.require_output_check; the extended-loop predicate searches scoped blocks in the whole subtree.  
Not decided: the rendered text of a hierarchy.
"""

from __future__ import annotations

import ast

from .. import astq
from ..core import Ctx
from ..emitrules import c04_block_rules
from ..emitrules import get_paths
from ..emitrules import short_flags


def check(ctx: Ctx) -> str:
    ctx.use("compiler", "runtime", "environment")
    repo = ctx.repo
    c04_block_rules(ctx)

    ctx.rule("R2", "block stack orientation: own block first, parents appended, head rendered, super = next index (Context.super and BlockReference.super agree), missing parent -> undefined")
    ci = repo.func("runtime:Context.__init__")
    ctx.check("self.blocks = {k: [v] for k, v in blocks.items()}" in ast.unparse(ci.node), "init:own-first", "runtime:Context.__init__", "own block first", "a context must start every block stack with the template's own block", ci.loc())
    ve = repo.func("compiler:CodeGenerator.visit_Extends")
    s = ast.unparse(ve.node)
    ctx.check("context.blocks.setdefault(name, []).append(parent_block)" in s and "for name, parent_block in parent_template.blocks.items():" in s, "extends:append", "compiler:CodeGenerator.visit_Extends", "parents appended",
              "parent blocks must be appended (not inserted in front) to context.blocks[name]", ve.loc())
    ctx.check("parent_template = environment.get_template(" in s, "extends:load", "compiler:CodeGenerator.visit_Extends", "parent lookup", "the parent must be loaded with environment.get_template(<expr>, <this template's name>)", ve.loc())
    sup = repo.func("runtime:Context.super")
    s = ast.unparse(sup.node)
    idx = [a for a in ast.walk(sup.node) if isinstance(a, ast.Assign) and ast.unparse(a.value) == "blocks.index(current) + 1" and isinstance(a.targets[0], ast.Name)]
    iv = idx[0].targets[0].id if len(idx) == 1 else "index"  # type: ignore[attr-defined]
    ctx.check(len(idx) == 1 and f"blocks[{iv}]" in s and f"BlockReference(name, self, blocks, {iv})" in s, "Context.super:index", "runtime:Context.super", "next less-derived block", "super() must select the block after the current one in the stack", sup.loc())
    hs = [h for h in ast.walk(sup.node) if isinstance(h, ast.ExceptHandler)]
    ctx.check(len(hs) == 1 and ast.unparse(hs[0].type) == "LookupError" and "self.environment.undefined(" in ast.unparse(hs[0]), "Context.super:missing", "runtime:Context.super", "no parent block", "a missing parent block must yield an undefined value", sup.loc())
    bs = repo.func("runtime:BlockReference.super")
    s = bs.ntext  # normal form: a local naming `self._depth + 1` is inlined
    ctx.check("self._depth + 1 >= len(self._stack)" in s and "BlockReference(self.name, self._context, self._stack, self._depth + 1)" in s, "BlockReference.super", "runtime:BlockReference.super", "super.super chain", "BlockReference.super must move one step down the same stack and become undefined past its end", bs.loc())
    for meth in ("__call__", "_async_call"):
        fi = repo.func(f"runtime:BlockReference.{meth}")
        ctx.check("self._stack[self._depth](self._context)" in fi.ntext, f"BlockReference.{meth}", f"runtime:BlockReference.{meth}", "renders its own depth", f"BlockReference.{meth} must render self._stack[self._depth] with the reference's context", fi.loc())
    tr = repo.func("runtime:TemplateReference.__getitem__")
    s = tr.ntext  # normal form: locals naming the context / the block stack are inlined
    ctx.check("BlockReference(name, self.__context, self.__context.blocks[name], 0)" in s.replace("_TemplateReference__context", "__context"), "self.block:head", "runtime:TemplateReference.__getitem__", "self.<block>() renders the head", "self.<block>() must reference depth 0 (the most-derived block)", tr.loc())
    vt = repo.func("compiler:CodeGenerator.visit_Template")
    s = ast.unparse(vt.node)
    ctx.check("context.super({name!r}, block_{name})" in s, "super binding", "compiler:CodeGenerator.visit_Template", "super() bound to the block's own function", "inside block_<name> super must be context.super(<name>, block_<name>)", vt.loc())
    ctx.check("blocks = {{{blocks_kv_str}}}" in s and "{x!r}: block_{x}" in s, "blocks table", "compiler:CodeGenerator.visit_Template", "module blocks table", "the module must export blocks = {name: block_name}", vt.loc())

    ctx.rule("R3", "(skeletons) visit_Output: nothing is emitted at top level after a known extends; after a possible extends the output is wrapped in `if parent_template is None:`")
    res = get_paths(ctx, ["visit_Output", "visit_Template", "visit_Extends"])
    n = 0
    for p, sk in res["visit_Output"]:
        if p.outcome != "normal":
            continue
        if not p.decisions.get("frame.require_output_check"):
            continue
        n += 1
        if p.decisions.get("self.has_known_extends"):
            ctx.check(not sk.text.strip(), f"out-known:{n}", "compiler:CodeGenerator.visit_Output", "output after known extends", "output outside blocks of a child template must not be rendered", "src/jinja2/compiler.py")
        elif sk.text.strip():
            ctx.check(sk.text.lstrip().startswith("if parent_template is None:"), f"out-guard:{n}", "compiler:CodeGenerator.visit_Output", "output after possible extends",
                      f"output under require_output_check must be guarded by `if parent_template is None:` [{short_flags(p, 4)}]", "src/jinja2/compiler.py")
    ctx.floor("visit_Output paths under output check", n, 20)
    s = ast.unparse(vt.node)
    ctx.check("frame.require_output_check = have_extends and (not self.has_known_extends)" in s, "require_output_check", "compiler:CodeGenerator.visit_Template", "output check flag", "require_output_check must be set when the template extends but the extends is not known at top level", vt.loc())

    ctx.rule("R4", "(skeletons) with extends the root function delegates to parent_template.root_render_func(context) - unconditionally after a known extends, under `if parent_template is not None:` otherwise - and async closes the parent generator")
    n = 0
    for p, sk in res["visit_Template"]:
        if p.outcome != "normal" or sk.error:
            continue
        he = p.decisions.get("node.find(Extends) is not None")
        if he is None:
            he = "parent_template = None" in sk.text
        has = "parent_template.root_render_func(context)" in sk.text
        n += 1
        ctx.check(bool(he) == has, f"delegate:{n}", "compiler:CodeGenerator.visit_Template", f"have_extends={bool(he)} delegation", f"delegation to the parent root must be emitted exactly when the template has an extends tag [{short_flags(p, 5)}]", "src/jinja2/compiler.py")
        if has and p.decisions.get("self.environment.is_async"):
            ctx.check("finally: await agen.aclose()" in sk.text, f"delegate-async:{n}", "compiler:CodeGenerator.visit_Template", "async delegation closes", "the async delegation must close the parent generator", "src/jinja2/compiler.py")
    ctx.floor("visit_Template paths", n, 100)
    for p, sk in res["visit_Extends"]:
        if p.outcome == "fail":
            ctx.check(p.decisions.get("frame.toplevel") is False, "extends:non-toplevel", "compiler:CodeGenerator.visit_Extends", "extends below top level", "extends must only fail for non top-level scopes", "src/jinja2/compiler.py")
    # known-extends optimisation only for a root-level extends
    s = ast.unparse(ve.node)
    sets = [n_ for n_ in ast.walk(ve.node) if isinstance(n_, ast.Assign) and ast.unparse(n_.targets[0]) == "self.has_known_extends"]
    ctx.check(len(sets) == 1 and any(g == "frame.rootlevel" and pol for g, pol in astq.guard_texts(ve.node, sets[0])), "known-extends:rootlevel", "compiler:CodeGenerator.visit_Extends", "known extends only at root level",
              "has_known_extends may only be set for an extends at root level (not inside an if)", ve.loc())
    template_passthrough_rule(ctx, "R5")

    ctx.rule("R7", "who-may-write: the flag that keeps a child template's top-level output from being rendered (Frame.require_output_check) is switched off only for frames whose output is captured *and never written at that place*: macro bodies and set blocks")
    allowed_w = {
        ("compiler", "Frame.__init__"): "initial value / inherited from the parent frame",
        ("compiler", "CodeGenerator.visit_Template"): "root frame: set from `have_extends and not has_known_extends`",
        ("compiler", "CodeGenerator.macro_body"): "a macro body runs when the macro is called, not where it is defined",
        ("compiler", "CodeGenerator.visit_AssignBlock"): "a set block only assigns its captured text",
    }
    n_w = 0
    for mod in ("compiler", "nativetypes"):
        m_ = repo.module(mod)
        for n_ in ast.walk(m_.tree):
            if isinstance(n_, ast.Attribute) and n_.attr == "require_output_check" and isinstance(n_.ctx, ast.Store):
                n_w += 1
                q = astq.enclosing_qual(n_)
                ctx.check((mod, q) in allowed_w, f"output-check-writer:{mod}:{q}", f"{mod}:{q}", "switches the output check of a frame",
                          f"{mod}.{q} assigns `{ast.unparse(n_)}`: outside the reviewed sites ({sorted(k[1] for k in allowed_w)}) this disables the `if parent_template is None:` guard for constructs that *do* write their captured text in place - a `{{% filter %}}` block outside the blocks of a child template is then rendered although the template extends another",
                          f"{m_.rel}:{n_.lineno}", detail={"writer": f"{mod}:{q}", "reason": allowed_w.get((mod, q))})
    ctx.floor("assignments to require_output_check", n_w, 4)
    # a scoped block receives the enclosing loop's variables - `loop` exists only if visit_For
    # recognises the block anywhere below the loop (rule owned by C07)
    from .c07 import undeclared_visitor_rule

    undeclared_visitor_rule(ctx, "R6")
    # a scoped block renders in a context derived from the live one: new_context works on a
    # copy of a shared parent, so the enclosing loop's variables never reach the blocks
    # rendered after it (rule owned by C29)
    from . import c29

    ctx.run_imported("C29", {"R2"}, c29.check)
    return __doc__ or ""


def template_passthrough_rule(ctx: Ctx, rid: str) -> None:
    """Shared with C05: extends / include / import accept a Template object as target; the
    lookup functions hand it back before any name processing (join_path, loading)."""
    ctx.use("environment")
    repo = ctx.repo
    ctx.rule(rid, "parent / include targets given as Template objects pass through unchanged: in get_template and select_template every join_path(...) and _load_template(...) on the candidate is dominated by the early return under isinstance(<candidate>, Template)")
    n = 0
    for meth in ("get_template", "select_template"):
        fi = repo.func(f"environment:Environment.{meth}")
        for c in astq.calls(fi.node):
            f = astq.callee(c)
            if f not in ("self.join_path", "self._load_template") or not c.args or not isinstance(c.args[0], ast.Name):
                continue
            var = c.args[0].id
            n += 1
            gs = astq.guard_texts(fi.node, c)
            ok = any(g == f"isinstance({var}, Template)" and not pol for g, pol in gs)
            ctx.check(ok, f"{meth}:{f}", f"environment:Environment.{meth}", f"{f}({var}, ...) not preceded by the Template short-circuit",
                      f"{meth} calls {f}({var}, ...) on a path where `{var}` may still be a Template object (guards: {gs}): `{{% extends layout %}}` with a Template object then reaches join_path / the loader - any environment overriding join_path breaks the inheritance chain, unlike {('select_template' if meth == 'get_template' else 'get_template')}", fi.loc(c), detail={"guards": [f"{'' if p else 'not '}{g}" for g, p in gs]})
    ctx.floor("name-processing calls in get_template / select_template", n, 4)
