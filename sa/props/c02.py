"""C02 - compiled expressions follow the documented semantics.

Decided statically: the precedence chain of the expression parser (which level parses its
operands with which next level, on which tokens, building which node with which operand
order), agreement of the operator tables in lexer / parser / nodes / compiler / sandbox
(round trip symbol -> token -> node class -> emitted operator -> fold function), the
attribute-vs-item lookup order of Environment.getattr/getitem and their sandbox overrides,
and the result name of compile_expression.  Also: (skeletons) an emitted call passes every operand of the call node on every path.  
Also: a folded attribute / subscript lookup uses the same environment.getattr / getitem the emitted code uses.  
Not decided: values of expressions.
"""

from __future__ import annotations

import ast

from .. import astq
from ..core import Ctx
from .c01 import _token_exprs

# level -> (operand parser(s), tokens that continue the level, node classes built)
CHAIN = {
    "parse_expression": ({"parse_condexpr", "parse_or"}, set(), set()),
    "parse_condexpr": ({"parse_or", "parse_condexpr"}, {"name:if", "name:else"}, {"CondExpr"}),
    "parse_or": ({"parse_and"}, {"name:or"}, {"Or"}),
    "parse_and": ({"parse_not"}, {"name:and"}, {"And"}),
    "parse_not": ({"parse_not", "parse_compare"}, {"name:not"}, {"Not"}),
    "parse_compare": ({"parse_math1"}, {"name:in", "name:not"}, {"Compare", "Operand"}),
    "parse_math1": ({"parse_concat"}, {"add", "sub"}, set()),
    "parse_concat": ({"parse_math2"}, {"tilde"}, {"Concat"}),
    "parse_math2": ({"parse_pow"}, {"mul", "div", "floordiv", "mod"}, set()),
    "parse_pow": ({"parse_unary"}, {"pow"}, {"Pow"}),
    "parse_unary": ({"parse_unary", "parse_primary", "parse_postfix", "parse_filter_expr"}, {"sub", "add"}, {"Neg", "Pos"}),
}
PY_BINOP = {"+": "operator.add", "-": "operator.sub", "*": "operator.mul", "/": "operator.truediv", "//": "operator.floordiv", "**": "operator.pow", "%": "operator.mod"}
PY_UNOP = {"not": "operator.not_", "+": "operator.pos", "-": "operator.neg"}
PY_CMP = {"==": "operator.eq", "!=": "operator.ne", ">": "operator.gt", ">=": "operator.ge", "<": "operator.lt", "<=": "operator.le"}


def check(ctx: Ctx) -> str:
    ctx.use("parser", "lexer", "nodes", "compiler", "sandbox", "environment")
    r1_chain(ctx)
    r2_tables(ctx)
    r3_lookup_order(ctx)
    r4_compile_expression(ctx)
    # an expression whose evaluation fails must fail when (and only if) it is evaluated at
    # run time - never at compile time through constant folding (rule shared with C08)
    from .c08 import r0_fold_failures

    r0_fold_failures(ctx, "R5")
    # ... and a folded value must come back from its repr() as the same object (type included)
    from .c08 import r3_safe_repr

    r3_safe_repr(ctx, "R6")
    call_emission_rule(ctx, "R7")
    from .c08 import lookup_fold_agreement_rule

    lookup_fold_agreement_rule(ctx, "R8")
    # built-in filters over dotted attribute paths (rule owned by C22)
    from . import c22

    ctx.run_imported("C22", {"R5"}, c22.check)
    return __doc__ or ""


def r1_chain(ctx: Ctx) -> None:
    ctx.rule("R1", "precedence chain: each parser level parses operands with the documented next level, continues on the documented tokens, builds the documented node with (left, right) in source order")
    repo = ctx.repo
    for level, (operands, tokens, classes) in CHAIN.items():
        fi = repo.func(f"parser:Parser.{level}")
        callees = {astq.callee(c)[5:] for c in astq.calls(fi.node) if astq.callee(c).startswith("self.parse_")}
        ctx.check(callees == operands, f"{level}:operands", f"parser:Parser.{level}", "operand parsers",
                  f"{level} parses its operands with {sorted(callees)}, the documented grammar requires {sorted(operands)}", fi.loc(),
                  detail={"level": level, "operand_parsers": sorted(callees)})
        toks = {e for e, _ in _token_exprs(fi.node)}
        if level == "parse_compare":
            toks -= set()
        ctx.check(toks == tokens, f"{level}:tokens", f"parser:Parser.{level}", "continuation tokens",
                  f"{level} continues on tokens {sorted(toks)}, expected {sorted(tokens)}", fi.loc(), detail={"tokens": sorted(toks)})
        built = {astq.callee(c)[6:] for c in astq.calls(fi.node) if astq.callee(c).startswith("nodes.")}
        ctx.check(built == classes, f"{level}:nodes", f"parser:Parser.{level}", "node classes",
                  f"{level} builds {sorted(built)}, expected {sorted(classes)}", fi.loc())
        # operand order of binary constructors
        for c in astq.calls(fi.node):
            f = astq.callee(c)
            if f in ("cls", "nodes.Or", "nodes.And", "nodes.Pow") and len(c.args) >= 2:
                order = [ast.unparse(a) for a in c.args[:2]]
                # the first operand is the accumulator (the variable the result is assigned back
                # to, i.e. what was parsed first); the second is the operand parsed after the
                # operator - a local or, inlined, the operand parser's call
                par_ = getattr(c, "_parent", None)
                acc = ast.unparse(par_.targets[0]) if isinstance(par_, ast.Assign) and len(par_.targets) == 1 else "left"
                second_ok = order[1] != order[0] and (isinstance(c.args[1], ast.Name) or (order[1].startswith("self.parse_") and order[1].endswith("()")))
                ctx.check(order[0] == acc and second_ok, f"{level}:order:{f}", f"parser:Parser.{level}", f"{f} operand order",
                          f"{f}({', '.join(order)}) swaps the operands", fi.loc(c))
    # compare operators come from the table
    pc = repo.func("parser:Parser.parse_compare")
    ctx.check("_compare_operators" in ast.unparse(pc.node), "compare:table", "parser:Parser.parse_compare", "compare operator table",
              "parse_compare no longer consults _compare_operators", pc.loc())
    # unary binds tighter than the binary levels: parse_unary(False) for the operand
    pu = repo.func("parser:Parser.parse_unary")
    rec = [c for c in astq.calls(pu.node, "self.parse_unary")]
    ctx.check(bool(rec) and all(c.args and ast.unparse(c.args[0]) == "False" for c in rec), "unary:nofilter", "parser:Parser.parse_unary", "unary operand",
              "the operand of a unary +/- must be parsed without filters (parse_unary(False)) so that -x|abs applies the filter to -x", pu.loc())


def r2_tables(ctx: Ctx) -> None:
    ctx.rule("R2", "operator tables agree: lexer symbol -> token -> parser node class -> class.operator -> compiler visitor operator -> nodes fold function -> sandbox table")
    repo = ctx.repo
    lex_ops = repo.const("lexer:operators")
    math_nodes = repo.const_map("parser:_math_nodes")
    cmp_ops = repo.const("parser:_compare_operators")
    comp_ops = repo.const("compiler:operators")
    binf = repo.const_map("nodes:_binop_to_func")
    unf = repo.const_map("nodes:_uaop_to_func")
    cmpf = repo.const_map("nodes:_cmpop_to_func")
    sb_bin = repo.const_map("sandbox:SandboxedEnvironment.default_binop_table")
    sb_un = repo.const_map("sandbox:SandboxedEnvironment.default_unop_table")
    tok2sym = {v: k for k, v in lex_ops.items()}
    ctx.check(len(tok2sym) == len(lex_ops), "lexer:bijective", "lexer:<module>", "operators not injective", "two operator symbols share a token name", "src/jinja2/lexer.py")

    def cls_operator(cname: str) -> str | None:
        ci = repo.cls(f"nodes:{cname}")
        r = repo.resolve_attr(ci, "operator")
        if r is None or not isinstance(r[1], ast.Constant):
            return None
        return r[1].value

    # math: token -> class -> operator == symbol
    for tok, cls_src in math_nodes.items():
        cname = cls_src.split(".")[-1]
        sym = tok2sym.get(tok)
        ctx.check(sym is not None and cls_operator(cname) == sym, f"math:{tok}", "parser:<module>", f"_math_nodes[{tok}]",
                  f"token {tok!r} (symbol {sym!r}) is parsed into nodes.{cname} whose operator is {cls_operator(cname)!r}", "src/jinja2/parser.py",
                  detail={"token": tok, "symbol": sym, "node": cname, "operator": cls_operator(cname)})
    ctx.check(cls_operator("Pow") == tok2sym.get("pow"), "math:pow", "parser:Parser.parse_pow", "pow", "nodes.Pow.operator does not match the 'pow' token symbol", "src/jinja2/nodes.py")
    # compiler visitors
    cg = repo.cls("compiler:CodeGenerator")
    nb = 0
    for name, val in cg.assigns.items():
        if not name.startswith("visit_") or not isinstance(val, ast.Call):
            continue
        maker = astq.callee(val)
        if maker not in ("_make_binop", "_make_unop") or not val.args or not isinstance(val.args[0], ast.Constant):
            continue
        nb += 1
        cname = name[6:]
        op = val.args[0].value
        want = cls_operator(cname)
        ctx.check(want is not None and op.strip() == want, f"visitor:{cname}", "compiler:CodeGenerator", f"{name}",
                  f"{name} emits operator {op!r} but nodes.{cname}.operator is {want!r}", cg.loc(val), detail={"visitor": name, "emits": op, "node_operator": want})
        base = "BinExpr" if maker == "_make_binop" else "UnaryExpr"
        mro = [c.name for c in repo.mro(repo.cls(f"nodes:{cname}"))]
        ctx.check(base in mro, f"visitor-kind:{cname}", "compiler:CodeGenerator", f"{name} arity", f"{name} uses {maker} but nodes.{cname} is not a {base}", cg.loc(val))
    ctx.floor("_make_binop/_make_unop visitors", nb, 12)
    # every concrete BinExpr/UnaryExpr subclass has a visitor
    for ci in repo.classes("nodes"):
        mro = [c.name for c in repo.mro(ci)]
        if ci.name in ("BinExpr", "UnaryExpr") or not ({"BinExpr", "UnaryExpr"} & set(mro)):
            continue
        has = f"visit_{ci.name}" in cg.assigns or f"visit_{ci.name}" in cg.methods
        ctx.check(has, f"has-visitor:{ci.name}", "compiler:CodeGenerator", f"visit_{ci.name} missing", f"no compiler visitor for operator node {ci.name}", cg.loc())
    # fold functions
    for op, fn in binf.items():
        ctx.check(PY_BINOP.get(op) == fn, f"fold-bin:{op}", "nodes:<module>", f"_binop_to_func[{op}]", f"constant folding computes {op!r} with {fn}, Python defines it as {PY_BINOP.get(op)}", "src/jinja2/nodes.py",
                  detail={"op": op, "func": fn})
    for op, fn in unf.items():
        ctx.check(PY_UNOP.get(op) == fn, f"fold-un:{op}", "nodes:<module>", f"_uaop_to_func[{op}]", f"constant folding computes unary {op!r} with {fn}", "src/jinja2/nodes.py")
    arith = {cls_operator(c.name) for c in repo.classes("nodes") if "BinExpr" in [x.name for x in repo.mro(c)][1:] and c.name not in ("And", "Or")}
    ctx.check(arith == set(binf), "fold-bin:keys", "nodes:<module>", "_binop_to_func keys", f"foldable binary operators {sorted(binf)} != operator nodes {sorted(x for x in arith if x)}", "src/jinja2/nodes.py")
    un = {cls_operator(c.name) for c in repo.classes("nodes") if "UnaryExpr" in [x.name for x in repo.mro(c)][1:]}
    ctx.check(un == set(unf), "fold-un:keys", "nodes:<module>", "_uaop_to_func keys", f"foldable unary operators {sorted(unf)} != operator nodes {sorted(x for x in un if x)}", "src/jinja2/nodes.py")
    # sandbox tables are the same Python operators
    for op, fn in sb_bin.items():
        ctx.check(PY_BINOP.get(op) == fn, f"sandbox-bin:{op}", "sandbox:SandboxedEnvironment", f"default_binop_table[{op}]", f"sandbox computes {op!r} with {fn}", "src/jinja2/sandbox.py")
    for op, fn in sb_un.items():
        ctx.check(PY_UNOP.get(op) == fn, f"sandbox-un:{op}", "sandbox:SandboxedEnvironment", f"default_unop_table[{op}]", f"sandbox computes unary {op!r} with {fn}", "src/jinja2/sandbox.py")
    ctx.check(set(sb_bin) == set(binf), "sandbox-bin:keys", "sandbox:SandboxedEnvironment", "default_binop_table keys", "interceptable binary operators differ from the arithmetic operators of the language", "src/jinja2/sandbox.py")
    # comparisons: token -> emitted python operator -> symbol round trip, and fold function
    for tok in sorted(cmp_ops):
        sym = tok2sym.get(tok)
        ctx.check(comp_ops.get(tok) == sym, f"cmp-emit:{tok}", "compiler:<module>", f"operators[{tok}]",
                  f"comparison token {tok!r} is lexed from {sym!r} but compiled to {comp_ops.get(tok)!r}", "src/jinja2/compiler.py", detail={"token": tok, "symbol": sym, "emitted": comp_ops.get(tok)})
        ctx.check(cmpf.get(tok) == PY_CMP.get(sym or ""), f"cmp-fold:{tok}", "nodes:<module>", f"_cmpop_to_func[{tok}]",
                  f"comparison {tok!r} ({sym}) is folded with {cmpf.get(tok)}", "src/jinja2/nodes.py")
    ctx.check(comp_ops.get("in") == "in" and comp_ops.get("notin") == "not in", "cmp-emit:in", "compiler:<module>", "operators[in/notin]", "membership operators are compiled to the wrong Python operator", "src/jinja2/compiler.py")
    ctx.check(cmpf.get("in") == "lambda a, b: a in b" and cmpf.get("notin") == "lambda a, b: a not in b", "cmp-fold:in", "nodes:<module>", "_cmpop_to_func[in/notin]", "membership folding differs from `a in b` / `a not in b`", "src/jinja2/nodes.py")
    ctx.check(set(comp_ops) == set(cmpf) == set(cmp_ops) | {"in", "notin"}, "cmp:keys", "compiler:<module>", "comparison key sets", "the comparison operator key sets of parser / compiler / nodes differ (KeyError at compile or fold time)", "src/jinja2/compiler.py")
    # visit_Operand / Compare.as_const consult those tables
    vo = repo.func("compiler:CodeGenerator.visit_Operand")
    ctx.check("operators[node.op]" in ast.unparse(vo.node), "cmp:visitor", "compiler:CodeGenerator.visit_Operand", "operator lookup", "visit_Operand no longer emits operators[node.op]", vo.loc())
    ca = repo.func("nodes:Compare.as_const")
    cmp_loops = [l for l in ast.walk(ca.node) if isinstance(l, ast.For) and ast.unparse(l.iter) == "self.ops" and isinstance(l.target, ast.Name)]
    lv = cmp_loops[0].target.id if cmp_loops else "op"  # type: ignore[attr-defined]
    ctx.check(len(cmp_loops) == 1 and f"_cmpop_to_func[{lv}.op]" in ast.unparse(cmp_loops[0]), "cmp:fold", "nodes:Compare.as_const", "fold lookup", "Compare.as_const no longer folds through _cmpop_to_func[op.op]", ca.loc())
    # short circuit folding must be and/or
    for cname, kw in (("And", ast.And), ("Or", ast.Or)):
        fi = repo.func(f"nodes:{cname}.as_const")
        ops = [n for n in ast.walk(fi.nnode) if isinstance(n, ast.BoolOp)]  # the expanded `v = L; if v: return v; return R` is folded back (N13)
        ctx.check(len(ops) == 1 and isinstance(ops[0].op, kw) and "left" in ast.unparse(ops[0].values[0]), f"fold:{cname}", f"nodes:{cname}.as_const", "short circuit fold",
                  f"{cname}.as_const does not fold as `left {cname.lower()} right`", fi.loc())


def _first_pos(fn: ast.AST, pred) -> tuple[int, int] | None:  # type: ignore[no-untyped-def]
    best = None
    for n in ast.walk(fn):
        if pred(n):
            p = (n.lineno, n.col_offset)
            if best is None or p < best:
                best = p
    return best


def r3_lookup_order(ctx: Ctx) -> None:
    ctx.rule("R3", "attribute syntax tries the attribute then the item, subscript syntax the item then the attribute; both end in environment.undefined(obj=, name=)")
    repo = ctx.repo
    for cls in ("environment:Environment", "sandbox:SandboxedEnvironment"):
        for meth, first in (("getattr", "attr"), ("getitem", "item")):
            fi = repo.func(f"{cls}.{meth}")
            pos_attr = _first_pos(fi.node, lambda n: isinstance(n, ast.Call) and isinstance(n.func, ast.Name) and n.func.id == "getattr" and n.args and ast.unparse(n.args[0]) == "obj")
            pos_item = _first_pos(fi.node, lambda n: isinstance(n, ast.Subscript) and ast.unparse(n.value) == "obj")
            ctx.need(pos_attr and pos_item, f"{cls}.{meth}: attribute or item access not found")
            ok = pos_attr < pos_item if first == "attr" else pos_item < pos_attr  # type: ignore[operator]
            ctx.check(ok, f"{cls}.{meth}:order", f"{cls}.{meth}", "lookup order", f"{meth} tries the {'item' if first == 'attr' else 'attribute'} first", fi.loc(),
                      detail={"method": f"{cls}.{meth}", "getattr_at": pos_attr, "subscript_at": pos_item})
            # the fallback access lies in (or after) an except clause of the first access
            rets = astq.returns(fi.node)
            # the undefined object is what remains when both accesses failed: a return of it
            # lies after both (as the last statement, or in the handler of the second access)
            later = max(pos_attr, pos_item)  # type: ignore[type-var]
            und = any(r.value is not None and "self.undefined(obj=obj, name=" in ast.unparse(r.value) and (r.lineno, r.col_offset) > later for r in rets)
            ctx.check(und, f"{cls}.{meth}:undefined", f"{cls}.{meth}", "final undefined", f"{meth} does not end by returning self.undefined(obj=obj, name=...)", fi.loc())
            if meth == "getitem":
                # the attribute fallback only applies to string arguments
                g = [c for c in astq.calls(fi.node, "getattr") if c.args and ast.unparse(c.args[0]) == "obj"]
                guarded = g and any("isinstance(argument, str)" in t_ and pol for t_, pol in astq.guard_texts(fi.node, g[0]))
                ctx.check(bool(guarded), f"{cls}.{meth}:strguard", f"{cls}.{meth}", "attribute fallback guard", "getitem falls back to getattr for non-string arguments", fi.loc())
    # failure classes of the two accesses: the subscript may fail with TypeError (not
    # subscriptable), LookupError (missing key / index) or AttributeError (a __getitem__ that
    # delegates to getattr) - all three mean "not there" and lead to the other access or to
    # undefined; the attribute access only with AttributeError.  Siblings must agree.
    from ..cfg import catches
    from ..cfg import enclosing_try
    from ..cfg import handler_types

    for cls in ("environment:Environment", "sandbox:SandboxedEnvironment"):
        for meth in ("getattr", "getitem"):
            fi = repo.func(f"{cls}.{meth}")
            subs = [n for n in ast.walk(fi.node) if isinstance(n, ast.Subscript) and ast.unparse(n.value) == "obj" and isinstance(n.ctx, ast.Load)]
            for sub in subs:
                covered = set()
                for tr, part in enclosing_try(sub):
                    if part == "body":
                        for h in tr.handlers:
                            for exc in ("TypeError", "LookupError", "KeyError", "IndexError", "AttributeError"):
                                if catches(handler_types(h), exc):
                                    covered.add(exc)
                missing = sorted({"TypeError", "LookupError", "AttributeError"} - covered)
                ctx.check(not missing, f"{cls}.{meth}:item-failures", f"{cls}.{meth}", f"obj[...] failure classes {missing} not handled",
                          f"{meth}: `{ast.unparse(sub)}` is not protected against {missing}: such a failure (e.g. a __getitem__ that delegates to getattr and raises AttributeError) escapes to the template instead of yielding the fallback / an undefined value, and the plain and sandboxed accessors disagree",
                          fi.loc(sub), detail={"handled": sorted(covered)})
            gets = [c for c in astq.calls(fi.node, "getattr") if c.args and ast.unparse(c.args[0]) == "obj"]
            for g in gets:
                hs = [h for tr, part in enclosing_try(g) if part == "body" for h in tr.handlers]
                ok = any(catches(handler_types(h), "AttributeError") for h in hs)
                ctx.check(ok, f"{cls}.{meth}:attr-failure", f"{cls}.{meth}", "getattr(obj, ...) AttributeError not handled", f"{meth}: a missing attribute must lead to the item lookup / undefined", fi.loc(g))
    # the compiler routes . and [] to the matching accessor
    for vis, acc in (("visit_Getattr", "environment.getattr("), ("visit_Getitem", "environment.getitem(")):
        fi = repo.func(f"compiler:CodeGenerator.{vis}")
        ctx.check(acc in ast.unparse(fi.node), f"{vis}:accessor", f"compiler:CodeGenerator.{vis}", "accessor", f"{vis} no longer emits {acc}", fi.loc())
    ps = repo.func("parser:Parser.parse_subscript")
    src = ast.unparse(ps.node)
    ctx.check("nodes.Getattr(" in src and "nodes.Getitem(" in src, "parse_subscript:nodes", "parser:Parser.parse_subscript", "node kinds", "dot / bracket syntax no longer map to Getattr / Getitem", ps.loc())


def r4_compile_expression(ctx: Ctx) -> None:
    ctx.rule("R4", "compile_expression stores the value under the name TemplateExpression reads")
    repo = ctx.repo
    ce = repo.func("environment:Environment.compile_expression")
    te = repo.func("environment:TemplateExpression.__call__")
    stored = [c.args[0].value for c in astq.calls(ce.node, "nodes.Name") if c.args and isinstance(c.args[0], ast.Constant)]
    read = [n.slice.value for n in ast.walk(te.node) if isinstance(n, ast.Subscript) and "context.vars" in ast.unparse(n.value) and isinstance(n.slice, ast.Constant)]
    ctx.check(bool(stored) and stored == read, "result-name", "environment:Environment.compile_expression", "result name", f"stores {stored} but TemplateExpression reads {read}", ce.loc(),
              detail={"stored": stored, "read": read})
    ctx.check('state="variable"' in ast.unparse(ce.node).replace("'", '"'), "variable-state", "environment:Environment.compile_expression", "lexer start state", "the expression is no longer lexed in the variable state", ce.loc())
    ctx.check("parser.stream.eos" in ast.unparse(ce.node), "eos-check", "environment:Environment.compile_expression", "trailing input check", "trailing tokens after the expression are no longer rejected", ce.loc())


def call_emission_rule(ctx: Ctx, rid: str) -> None:
    """(skeletons) The argument list signature() emits contains every part of the call node on
    every path - whichever of the two keyword forms is chosen - and the compiler's own extra
    keywords (caller / _loop_vars / _block_vars) are passed as the generator-bound *names*."""
    from ..emitrules import entry_kind
    from ..emitrules import get_paths
    from ..emitrules import reparse
    from ..emit import EmitModel

    ctx.use("compiler")
    ctx.rule(rid, "(skeletons) an emitted call passes every positional, keyword, *args and **kwargs operand of the node on every path (plain and **{...} keyword form), and the compiler's extra keywords as the bound names")
    res = get_paths(ctx)
    model = EmitModel(ctx.repo)
    n = 0
    extras = {"caller", "_loop_vars", "_block_vars"}
    for entry in ("signature", "visit_Call", "visit_Filter", "visit_Test"):
        items = res.get(entry)
        ctx.need(items is not None, f"no emission paths for {entry}")
        kind = entry_kind(model, entry)
        bad_parts: dict[str, str] = {}
        bad_extra: dict[str, str] = {}
        for p, sk in items:
            if p.outcome != "normal" or p.decisions.get("optimizer folds this node") is True:
                continue
            n += 1
            visited = [v[1] for v in sk.visits]
            present = {"dyn_args": None, "dyn_kwargs": None}
            counts = {"args": None, "kwargs": None}
            for lab, val in p.decisions.items():
                for part in present:
                    if lab in (f"node.{part}", f"node.{part} is not None"):
                        present[part] = bool(val) if present[part] is None else (present[part] and bool(val))
                for part in counts:
                    if lab == f"len(node.{part})" and isinstance(val, int) and not isinstance(val, bool):
                        counts[part] = val
            for part, there in present.items():
                # (None: this path never asked whether the operand exists - it is ignored)
                if (there or there is None) and f"node.{part}" not in visited:
                    bad_parts.setdefault(part, sk.text.strip()[:160])
            for part, k in counts.items():
                if k is None:
                    bad_parts.setdefault(part, sk.text.strip()[:160])
                for i in range(k or 0):
                    if not any(v in (f"node.{part}[{i}]", f"node.{part}[{i}].value") for v in visited):
                        bad_parts.setdefault(f"{part}[{i}]", sk.text.strip()[:160])
            if entry == "visit_Call":
                tree = reparse(sk, entry, kind)
                if tree is not None:
                    # ... and each one is passed whenever its condition holds, in both keyword forms
                    have = {c.arg for c in ast.walk(tree) if isinstance(c, ast.keyword) and c.arg} | {k_.value for c in ast.walk(tree) if isinstance(c, ast.Dict) for k_ in c.keys if isinstance(k_, ast.Constant)}
                    for flag, kwn in (("forward_caller", "caller"), ("frame.loop_frame", "_loop_vars"), ("frame.block_frame", "_block_vars")):
                        if p.decisions.get(flag) is True and kwn not in have:
                            bad_extra.setdefault(kwn + " (missing)", sk.text.strip()[:160])
                    for c in ast.walk(tree):
                        if isinstance(c, ast.keyword) and c.arg in extras and not (isinstance(c.value, ast.Name) and c.value.id == c.arg):
                            bad_extra.setdefault(c.arg, sk.text.strip()[:160])
                        if isinstance(c, ast.Dict):
                            for k_, v_ in zip(c.keys, c.values):
                                if isinstance(k_, ast.Constant) and k_.value in extras and not (isinstance(v_, ast.Name) and v_.id == k_.value):
                                    bad_extra.setdefault(k_.value, sk.text.strip()[:160])
        ctx.check(not bad_parts, f"call-parts:{entry}", f"compiler:CodeGenerator.{entry}", f"operands dropped from the emitted call: {sorted(bad_parts)}",
                  f"{entry} emits a call that leaves out {sorted(bad_parts)} of the node on some path, e.g. `{next(iter(bad_parts.values()), '')}`: `{{{{ f(a, class='x', *rest) }}}}` then calls f without those arguments", "src/jinja2/compiler.py",
                  detail={"entry": entry, "dropped": bad_parts})
        if entry == "visit_Call":
            ctx.check(not bad_extra, "call-extras", "compiler:CodeGenerator.visit_Call", f"extra keywords {sorted(bad_extra)} not passed as the bound names",
                      f"the compiler's own keywords {sorted(bad_extra)} are written as something else than the local of the same name, e.g. `{next(iter(bad_extra.values()), '')}`: the callee of a `{{% call %}}` block receives that value instead of the caller macro / the loop variables",
                      "src/jinja2/compiler.py", detail={"extras": bad_extra})
    ctx.floor("call emission paths", n, 200)
