"""C28 - loaders never resolve a template name outside their search locations.

Decided statically: in every loader that touches the file system (or package data) each
file-access sink takes a path whose data flow from the ``template`` parameter passes
``split_template_path``; that function rejects os.sep, os.path.altsep and os.path.pardir
with TemplateNotFound and drops empty / "." segments; joins use posixpath.join (a later
absolute segment cannot reset the path because separators were rejected); Choice and Prefix
loaders: get_source and load are siblings (same iteration order, same caught class, same
final raise).  Also: Dict / Function loaders raise TemplateNotFound exactly for `not in` / `is None` (an empty source is a hit).  
Not decided: the behaviour of the underlying file system (symlinks).
"""

from __future__ import annotations

import ast

from .. import astq
from ..core import Ctx
from ..srcmodel import walk_no_nested

SINKS = {"open", "os.path.isfile", "os.path.getmtime", "os.path.exists", "os.stat", "self._loader.get_data", "os.path.isdir", "os.listdir", "io.open"}


def _taint(fn: ast.AST, src: str) -> tuple[dict[str, set[str]], set[str]]:
    """name -> set of 'sanitised' / 'raw' marks reaching it from parameter ``src``.
    Flow-insensitive def-use closure (sufficient for these short functions)."""
    marks: dict[str, set[str]] = {src: {"raw"}}
    changed = True
    it = 0

    def expr_marks(e: ast.AST) -> set[str]:
        out: set[str] = set()
        if isinstance(e, ast.Call) and astq.callee(e) == "split_template_path":
            inner: set[str] = set()
            for a in e.args:
                inner |= expr_marks(a)
            return {"sanitised"} if inner else set()
        for n in ast.iter_child_nodes(e):
            out |= expr_marks(n)
        if isinstance(e, ast.Name) and e.id in marks:
            out |= marks[e.id]
        return out

    while changed and it < 10:
        changed = False
        it += 1
        for n in ast.walk(fn):
            tgt = None
            val = None
            if isinstance(n, ast.Assign):
                tgt, val = n.targets[0], n.value
            elif isinstance(n, ast.AnnAssign) and n.value is not None:
                tgt, val = n.target, n.value
            elif isinstance(n, (ast.For,)):
                tgt, val = n.target, n.iter
            elif isinstance(n, ast.withitem) and n.optional_vars is not None:
                tgt, val = n.optional_vars, n.context_expr
            if tgt is None or val is None:
                continue
            mk = expr_marks(val)
            for nm in [x.id for x in ast.walk(tgt) if isinstance(x, ast.Name)]:
                if not mk <= marks.get(nm, set()):
                    marks.setdefault(nm, set()).update(mk)
                    changed = True
    return marks, set()


def check(ctx: Ctx) -> str:
    ctx.use("loaders")
    repo = ctx.repo
    ctx.rule("R1", "every file-access sink in a loader's get_source takes a path whose flow from `template` passes split_template_path (no raw template name reaches the file system)")
    nsinks = 0
    for cname in ("FileSystemLoader", "PackageLoader"):
        fi = repo.func(f"loaders:{cname}.get_source")
        marks, _ = _taint(fi.node, "template")

        def emarks(e: ast.AST) -> set[str]:
            out: set[str] = set()
            for n in ast.walk(e):
                if isinstance(n, ast.Call) and astq.callee(n) == "split_template_path":
                    return out | {"sanitised"}
                if isinstance(n, ast.Name) and n.id in marks:
                    out |= marks[n.id]
            return out

        for c in astq.calls(fi.node):
            name = astq.callee(c)
            if name not in SINKS:
                continue
            nsinks += 1
            mk = set()
            for a in c.args[:1]:
                mk |= emarks(a)
            ctx.check("raw" not in mk, f"{cname}:{name}:{c.lineno}", f"loaders:{cname}.get_source", f"{name}({ast.unparse(c.args[0]) if c.args else ''})",
                      f"{name}(...) receives a path derived from the raw template name without passing split_template_path: a name such as '../x' or an absolute path escapes the search location",
                      fi.loc(c), detail={"loader": cname, "sink": name, "argument": ast.unparse(c.args[0]) if c.args else "", "marks": sorted(mk)})
            ctx.check("sanitised" in mk or not mk, f"{cname}:{name}:{c.lineno}:san", f"loaders:{cname}.get_source", f"{name} path origin", "file access on a path that is not built from the sanitised pieces", fi.loc(c))
        # the nested uptodate closures use the same sanitised filename
    ctx.floor("file-access sinks in loaders", nsinks, 5)

    ctx.rule("R2", "split_template_path raises TemplateNotFound for pieces containing os.sep, os.path.altsep or equal to os.path.pardir and drops '' and '.'")
    sp = repo.func("loaders:split_template_path")
    s = ast.unparse(sp.node)
    rs = [r for r in astq.raises(sp.node) if astq.raise_type(r) == "TemplateNotFound"]
    ctx.need(len(rs) >= 1, "split_template_path no longer raises TemplateNotFound")
    # the loop variable's name is irrelevant: take it from the loop over template.split('/')
    seg_loops = [l for l in ast.walk(sp.node) if isinstance(l, ast.For) and ast.unparse(l.iter) == "template.split('/')" and isinstance(l.target, ast.Name)]
    ctx.check(len(seg_loops) == 1, "split:slash", "loaders:split_template_path", "split on '/'", "template names must be split on '/'", sp.loc())
    v = seg_loops[0].target.id if seg_loops else "piece"  # type: ignore[attr-defined]
    tests = [n for n in ast.walk(sp.node) if isinstance(n, ast.If) and rs[0] in list(ast.walk(n))]
    top = tests[0].test if tests else None
    alts = [ast.unparse(x) for x in top.values] if isinstance(top, ast.BoolOp) and isinstance(top.op, ast.Or) else ([ast.unparse(top)] if top is not None else [])
    gtexts = " | ".join(alts)
    for cond, what in ((f"os.sep in {v}", "os.sep"), (f"os.path.altsep in {v}", "os.path.altsep"), (f"{v} == os.path.pardir", "os.path.pardir")):
        ctx.check(any(cond in a_ for a_ in alts), f"reject:{what}", "loaders:split_template_path", f"rejects {what}",
                  f"pieces containing {what} are no longer rejected with TemplateNotFound", sp.loc(rs[0]), detail={"guard": gtexts})
    # the three rejections are alternatives (or), not a conjunction, and nothing else guards the raise
    only = [a_ for a_ in astq.guard_atoms(sp.node, rs[0])]
    ctx.check(len(alts) == 3 and len(only) == 1, "reject:or", "loaders:split_template_path", "rejections are alternatives",
              f"the separator / pardir tests must be combined with `or` and be the only condition of the rejection (found {only})", sp.loc())
    app = [c for c in astq.calls(sp.node) if astq.callee(c) == "pieces.append"]
    ga = astq.guard_atoms(sp.node, app[0]) if app else []
    ok = bool(app) and (v, True) in ga and (f"{v} == '.'", False) in ga
    ctx.check(ok, "drop:empty-dot", "loaders:split_template_path", "drops '' and '.'", "empty and '.' segments must be dropped", sp.loc())
    # check-then-use: what is appended (and later joined into a file name) is the very value
    # that passed the tests - a transformation after the check (normalisation, unquoting,
    # case folding, stripping) can turn an accepted segment into '..' or add a separator
    loopvars = {ast.unparse(n_.target) for n_ in ast.walk(sp.node) if isinstance(n_, ast.For)}
    for c in app:
        arg = c.args[0] if c.args else None
        same = isinstance(arg, ast.Name) and arg.id in loopvars
        rebound = [a for a in ast.walk(sp.node) if isinstance(a, (ast.Assign, ast.AugAssign)) and isinstance(arg, ast.Name) and any(isinstance(t_, ast.Name) and t_.id == arg.id for t_ in (a.targets if isinstance(a, ast.Assign) else [a.target]))]
        ctx.check(same and not rebound, "append:checked-value", "loaders:split_template_path", f"appends `{ast.unparse(arg) if arg is not None else '?'}`",
                  f"split_template_path appends `{ast.unparse(arg) if arg is not None else '?'}` instead of the segment that was checked: a transformation after the separator / '..' test (e.g. Unicode normalisation: U+FF0E U+FF0E becomes '..') re-introduces path traversal", sp.loc(c))
    rets = astq.returns(sp.node)
    ctx.check(len(rets) == 1 and ast.unparse(rets[0].value) == "pieces", "return:pieces", "loaders:split_template_path", "returns the checked list", "split_template_path must return the list of checked segments unchanged", sp.loc())

    ctx.rule("R3", "paths are built with posixpath.join(search root, *sanitised pieces)")
    for cname in ("FileSystemLoader", "PackageLoader"):
        fi = repo.func(f"loaders:{cname}.get_source")
        js = [c for c in astq.calls(fi.node) if astq.callee(c) in ("posixpath.join", "os.path.join")]
        ctx.check(len(js) == 1 and astq.callee(js[0]) == "posixpath.join" and isinstance(js[0].args[-1], ast.Starred), f"{cname}:join", f"loaders:{cname}.get_source", "join", f"{cname}.get_source must build the file name with posixpath.join(root, *pieces)", fi.loc())
        if js:
            root = ast.unparse(js[0].args[0])
            ctx.check(root in ("searchpath", "self._template_root"), f"{cname}:root", f"loaders:{cname}.get_source", "join root", f"the join starts at {root}, not at a search location", fi.loc(js[0]))
            # ... and used as built: the joined path is bound directly to the name the file
            # access uses - any function applied to it afterwards (expanduser, expandvars,
            # normpath, realpath, unquote) re-interprets the checked segments ('~', '$X', links)
            par = getattr(js[0], "_parent", None)
            inner: ast.AST = js[0]
            wrappers: list[str] = []
            while isinstance(par, ast.Call) and inner in par.args:
                wrappers.append(ast.unparse(par.func))
                inner, par = par, getattr(par, "_parent", None)
            # normpath only rewrites separators here: the pieces contain no '..', '.' or ''
            harmless = {"os.path.normpath", "posixpath.normpath"}
            bad_wrappers = [w for w in wrappers if w not in harmless]
            direct = isinstance(par, ast.Assign) and par.value is inner and len(par.targets) == 1 and isinstance(par.targets[0], ast.Name) and not bad_wrappers
            var = par.targets[0].id if isinstance(par, ast.Assign) and isinstance(par.targets[0], ast.Name) else None
            rebound = [a for a in ast.walk(fi.node) if var and isinstance(a, (ast.Assign, ast.AugAssign)) and a is not par and any(isinstance(t_, ast.Name) and t_.id == var for t_ in (a.targets if isinstance(a, ast.Assign) else [a.target]))]
            wrapper = ", ".join(bad_wrappers)
            ctx.check(direct and not rebound, f"{cname}:join-used-as-is", f"loaders:{cname}.get_source", f"joined path post-processed ({wrapper or [ast.unparse(r)[:40] for r in rebound]})",
                      f"{cname}.get_source does not use posixpath.join(root, *pieces) as it is: the result is passed through `{wrapper or [ast.unparse(r)[:50] for r in rebound]}` before the file is opened. The segments were validated as plain names; expanding '~', variables or links afterwards lets `~/secret.txt` (search path '') or similar leave the search directory", fi.loc(js[0]))

    ctx.rule("R4", "ChoiceLoader / PrefixLoader: get_source and load are siblings - same iteration, same caught class (TemplateNotFound only), same final raise")
    for cname in ("ChoiceLoader", "PrefixLoader"):
        a = repo.func(f"loaders:{cname}.get_source")
        b = repo.func(f"loaders:{cname}.load")

        def shape(fn: ast.AST) -> dict:
            hs = [ast.unparse(h.type) if h.type is not None else "BaseException" for h in ast.walk(fn) if isinstance(h, ast.ExceptHandler)]
            loops = [ast.unparse(n.iter) for n in ast.walk(fn) if isinstance(n, ast.For)]
            rs_ = [astq.raise_type(r) for r in astq.raises(fn)]
            swallowed = [all(isinstance(s_, ast.Pass) for s_ in h.body) for h in ast.walk(fn) if isinstance(h, ast.ExceptHandler)]
            return {"handlers": hs, "loops": loops, "raises": rs_, "swallow": swallowed}

        sa, sb = shape(a.nnode), shape(b.nnode)  # normal form: a handler that only `continue`s at the end of the loop body is `pass`
        ctx.check(sa == sb, f"{cname}:siblings", f"loaders:{cname}.load", "get_source vs load", f"{cname}.get_source and {cname}.load differ in iteration / handling: {sa} vs {sb}", b.loc(), detail={"get_source": sa, "load": sb})
        ctx.check(sa["handlers"] == ["TemplateNotFound"], f"{cname}:handler", f"loaders:{cname}.get_source", "caught class", f"{cname} must catch exactly TemplateNotFound (got {sa['handlers']}): other errors of the first matching loader must propagate", a.loc())
        ctx.check(sa["raises"] and all(r == "TemplateNotFound" for r in sa["raises"]), f"{cname}:final", f"loaders:{cname}.get_source", "final raise", f"{cname} must end with TemplateNotFound", a.loc())
    ch = repo.func("loaders:ChoiceLoader.get_source")
    ctx.check([ast.unparse(n.iter) for n in ast.walk(ch.node) if isinstance(n, ast.For)] == ["self.loaders"], "Choice:order", "loaders:ChoiceLoader.get_source", "iteration order", "ChoiceLoader must try self.loaders in order", ch.loc())
    rets = [r for r in ast.walk(ch.node) if isinstance(r, ast.Return)]
    ctx.check(len(rets) == 1 and isinstance(getattr(rets[0], "_parent", None), ast.Try), "Choice:first", "loaders:ChoiceLoader.get_source", "first hit returns", "the first loader that has the template must win (return inside the try)", ch.loc())
    pl = repo.func("loaders:PrefixLoader.get_loader")
    s = ast.unparse(pl.node)
    ctx.check("template.split(self.delimiter, 1)" in s and "self.mapping[prefix]" in s, "Prefix:split", "loaders:PrefixLoader.get_loader", "prefix resolution", "the prefix must be the part before the first delimiter, looked up in self.mapping", pl.loc())
    hs = [h for h in ast.walk(pl.node) if isinstance(h, ast.ExceptHandler)]
    ctx.check(len(hs) == 1 and astq.const_str_set(ast.Tuple(elts=[ast.Constant(value=ast.unparse(e)) for e in (hs[0].type.elts if isinstance(hs[0].type, ast.Tuple) else [hs[0].type])])) == {"ValueError", "KeyError"},
              "Prefix:missing", "loaders:PrefixLoader.get_loader", "unknown prefix", "a name without delimiter or with an unknown prefix must raise TemplateNotFound (ValueError/KeyError mapped)", pl.loc())
    # DictLoader / FunctionLoader: miss raises TemplateNotFound
    for cname in ("DictLoader", "FunctionLoader"):
        fi = repo.func(f"loaders:{cname}.get_source")
        ctx.check(any(astq.raise_type(r) == "TemplateNotFound" for r in astq.raises(fi.node)), f"{cname}:miss", f"loaders:{cname}.get_source", "miss", f"{cname} must raise TemplateNotFound for a missing name", fi.loc())
        # ... and exactly then: "the loader has the name" is `name in mapping` / `load_func(name)
        # is not None` - an empty template ('' is a valid source) is still a hit, so a choice /
        # prefix loader must not fall through to the next loader for it
        want_ = {"DictLoader": [("template in self.mapping", False)], "FunctionLoader": None}[cname]
        for r in astq.raises(fi.node):
            if astq.raise_type(r) != "TemplateNotFound":
                continue
            at_ = astq.guard_atoms(fi.node, r)
            if cname == "FunctionLoader":
                lv = [a.targets[0].id for a in ast.walk(fi.node) if isinstance(a, ast.Assign) and isinstance(a.value, ast.Call) and astq.callee(a.value) == "self.load_func" and isinstance(a.targets[0], ast.Name)]
                want_ = [(f"{lv[0]} is None", True)] if len(lv) == 1 else [("?", True)]
            ctx.check(at_ == want_, f"{cname}:miss-exact", f"loaders:{cname}.get_source", f"TemplateNotFound raised under {at_}",
                      f"{cname}.get_source raises TemplateNotFound under {at_}, expected exactly {want_}: with a truthiness test an empty template source counts as missing - ChoiceLoader silently resolves the name to a later loader and PrefixLoader reports a template its loader has as not found", fi.loc(r))
    return __doc__ or ""
