"""C16 - autoescaping escapes each value exactly once.

Decided statically: capture sites (buffer returns, set blocks with and without filter,
filter blocks, Macro._invoke / _async_invoke, BlockReference, TemplateModule.__html__) wrap
their content in Markup exactly when autoescaping is on - statically decided or selected at
run time; every run-time selector tests ``context.eval_ctx.autoescape``; printed
expressions are wrapped once by the selected escaping call.
Also: the sandboxed str.format wrapper returns type(f_self)(...).  
Also: the function of a recursive loop returns its buffer marked by autoescape; do_replace escapes a plain subject whenever an argument is markup (truth table).  
Not decided: output equality over all programs.
"""

from __future__ import annotations

from ..core import Ctx
from ..escrules import capture_site_rules, output_wrapping_rule, runtime_selector_rule


def check(ctx: Ctx) -> str:
    ctx.use('compiler', 'runtime', 'environment')
    capture_site_rules(ctx, "R1")
    runtime_selector_rule(ctx, "R2")
    output_wrapping_rule(ctx, "R3")
    # "exactly once": whatever is marked safe must have been escaped (or be template text);
    # wrapping unescaped pieces in Markup skips the one escape, wrapping escaped output again
    # doubles it - the construction inventory (shared with C15 / C24) decides the first half
    from ..markup import markup_inventory

    ctx.use('filters', 'utils', 'ext', 'nodes')
    markup_inventory(ctx, "R4")
    from .c37 import derived_context_rule

    derived_context_rule(ctx, "R5")
    # an overlay with other options (autoescape, sandbox interception) must compile its own
    # templates: it starts with an empty cache (rule owned by C25)
    from . import c25

    ctx.run_imported("C25", {"R4"}, c25.check)
    from ..escrules import sandbox_format_keeps_type_rule

    sandbox_format_keeps_type_rule(ctx, "R6")
    # filters that combine a safe string with plain arguments escape the plain side, so that
    # output with autoescaping on is the escaped form of the output with it off (rule owned by C24)
    from . import c24

    ctx.run_imported("C24", {"R6"}, c24.check)
    return __doc__ or ""
