"""C10 - all rendering entry points produce the same text.

Decided statically: every entry point (render, generate, stream, the async forms,
make_module*, TemplateModule.__str__/__html__, TemplateExpression) obtains text only from
``root_render_func(new_context(...))`` and passes it on untouched (concat / yield / list);
the stream buffer is *lossless and counts only non-empty pieces*: every item taken from the
generator is pushed unconditionally, the count advances exactly for truthy items, the chunk
is yielded before the buffer is cleared, the only return is on an exhausted generator with
an empty count; dump writes every item (encoded or not).
Also: enable_buffering installs the chunking iterator on every call and the stream is its own iterator.  
Also: make_module / make_module_async hand the caller's vars unchanged to new_context.  
Not decided: exact chunk boundaries over all piece sequences.
"""

from __future__ import annotations

import ast

from .. import astq
from ..cfg import guards_of
from ..core import Ctx
from ..normalize import norm as _norm


def check(ctx: Ctx) -> str:
    ctx.use("environment")
    repo = ctx.repo
    ctx.rule("R1", "entry points take their text from root_render_func(<context>) and hand it on unchanged")
    tpl = repo.cls("environment:Template")
    from ..normalize import norm as _n

    root_ = "self.root_render_func(self.new_context(dict(*args, **kwargs)))"
    wants = {
        "render": f"self.environment.concat({root_})",
        "render_async": f"self.environment.concat([n async for n in {root_}])",
        "generate": f"yield from {root_}",
        "make_module_async": "[x async for x in self.root_render_func(ctx)]",
    }
    for meth, frag in wants.items():
        fn = tpl.methods[meth]
        # normal form: locals naming the data, the context or the concat hook are inlined where
        # they are used once; comprehension variables are renamed to the expected ones
        nfn = _n(fn)
        text = ast.unparse(nfn)
        for comp in [c_ for c_ in ast.walk(nfn) if isinstance(c_, ast.ListComp) and len(c_.generators) == 1 and isinstance(c_.generators[0].target, ast.Name) and ast.unparse(c_.elt) == c_.generators[0].target.id]:
            want_var = "n" if meth == "render_async" else "x"
            text = text.replace(ast.unparse(comp), ast.unparse(comp).replace(f"[{comp.generators[0].target.id} async for {comp.generators[0].target.id} in", f"[{want_var} async for {want_var} in"))
        ctx.check(frag in text or frag in ast.unparse(fn), f"Template.{meth}", f"environment:Template.{meth}", "source of the text", f"Template.{meth} must contain `{frag}`", f"src/jinja2/environment.py:{fn.lineno}")
    # ... and from the same data: every entry point builds its context from
    # dict(*args, **kwargs) (keywords win over a positional mapping everywhere)
    for meth in ("render", "render_async", "generate", "generate_async"):
        fn = tpl.methods[meth]
        ncs = [c for c in astq.calls(_n(fn)) if astq.callee(c) == "self.new_context"]
        okd = len(ncs) == 1 and len(ncs[0].args) == 1 and ast.unparse(ncs[0].args[0]) == "dict(*args, **kwargs)" and not ncs[0].keywords
        ctx.check(okd, f"Template.{meth}:data", f"environment:Template.{meth}", f"context data `{ast.unparse(ncs[0].args[0]) if ncs and ncs[0].args else '?'}`",
                  f"Template.{meth} must build its context as self.new_context(dict(*args, **kwargs)) like the other entry points; a different merge order makes a positional mapping override keyword arguments for this entry point only, so render / generate / stream disagree on the same call", f"src/jinja2/environment.py:{fn.lineno}")
    ga = tpl.methods["generate_async"]
    fors = [n for n in ast.walk(ga) if isinstance(n, ast.AsyncFor)]
    ok = len(fors) == 1 and len(fors[0].body) == 1 and ast.unparse(fors[0].body[0]) == f"yield {ast.unparse(fors[0].target)}"
    ctx.check(ok, "Template.generate_async", "environment:Template.generate_async", "yields every event unchanged", "generate_async must yield every event of the root generator unchanged", f"src/jinja2/environment.py:{ga.lineno}")
    st = tpl.methods["stream"]
    st_n = repo.func("environment:Template.stream").nnode  # (normal form: a local naming the generator is inlined)
    ctx.check(ast.unparse(astq.returns(st_n)[0].value) == "TemplateStream(self.generate(*args, **kwargs))", "Template.stream", "environment:Template.stream", "stream wraps generate", "stream must wrap self.generate(*args, **kwargs)", f"src/jinja2/environment.py:{st.lineno}")
    tm = repo.cls("environment:TemplateModule")
    ctx.check("body_stream = list(template.root_render_func(context))" in ast.unparse(tm.methods["__init__"]), "TemplateModule.__init__", "environment:TemplateModule.__init__", "module body", "a template module must collect the root generator's output as its body stream", tm.loc())
    ctx.check(ast.unparse(astq.returns(_norm(tm.methods["__str__"]))[0].value) == "concat(self._body_stream)", "TemplateModule.__str__", "environment:TemplateModule.__str__", "str(module)", "str(module) must be the concatenated body stream", tm.loc())
    ctx.check(ast.unparse(astq.returns(_norm(tm.methods["__html__"]))[0].value) == "Markup(concat(self._body_stream))", "TemplateModule.__html__", "environment:TemplateModule.__html__", "module markup", "module.__html__ must be the concatenated body stream marked safe", tm.loc())
    env = repo.cls("environment:Environment")
    ctx.check(ast.unparse(env.assigns.get("concat", ast.Constant(None))) == "''.join", "Environment.concat", "environment:Environment", "concat hook", "Environment.concat must be ''.join", env.loc())
    ctx.check(ast.unparse(repo.module("utils").assigns.get("concat", ast.Constant(None))) == "''.join", "utils.concat", "utils:<module>", "concat", "utils.concat must be ''.join", "src/jinja2/utils.py")

    ctx.rule("R2", "TemplateStream._buffered_generator: each item is pushed unconditionally; the count advances exactly for non-empty items; the chunk is yielded before the buffer is cleared; it returns only when the generator is exhausted with an empty count")
    bg = repo.func("environment:TemplateStream._buffered_generator")
    s = ast.unparse(bg.node)
    ncalls = [c for c in astq.calls(bg.node) if ast.unparse(c) == "next(self._gen)"]
    ctx.need(len(ncalls) == 1, "next(self._gen) not found exactly once")
    nxt = [n for n in ast.walk(bg.node) if isinstance(n, ast.Assign) and ast.unparse(n.value) == "next(self._gen)"]
    var = ast.unparse(nxt[0].targets[0]) if nxt else "<the piece is not bound to a name>"
    pushes = [c for c in astq.calls(bg.node) if astq.callee(c) in ("push", "buf.append") and c.args and ast.unparse(c.args[0]) in (var, "next(self._gen)")]
    inner = None
    for n in ast.walk(bg.node):
        if isinstance(n, ast.While) and ncalls[0] in list(ast.walk(n)) and not any(isinstance(x, ast.While) and x is not n and ncalls[0] in list(ast.walk(x)) for x in ast.walk(n)):
            inner = n
    ctx.need(inner is not None, "inner collection loop not found")
    loop_tests = {ast.unparse(x.test) for x in ast.walk(bg.node) if isinstance(x, ast.While)}
    ok = len(pushes) == 1 and [ast.unparse(g) for g, pol in guards_of(pushes[0]) if ast.unparse(g) not in loop_tests] == []
    ctx.check(ok, "push:unconditional", "environment:TemplateStream._buffered_generator", "every item pushed", "every item taken from the generator must be appended to the buffer unconditionally (otherwise text is lost)", bg.loc())
    # the counter is whatever the inner loop compares with `size` (its name is irrelevant)
    it = inner.test
    cnt = ast.unparse(it.left) if isinstance(it, ast.Compare) and len(it.ops) == 1 and isinstance(it.ops[0], ast.Lt) and ast.unparse(it.comparators[0]) == "size" and isinstance(it.left, ast.Name) else None
    ctx.check(cnt is not None, "loop:bound", "environment:TemplateStream._buffered_generator", "collect until size", f"the collection loop must run while <count> < size (is `{ast.unparse(inner.test)}`)", bg.loc(inner))
    cnt = cnt or "?"
    incs = [n for n in ast.walk(bg.node) if isinstance(n, ast.AugAssign) and ast.unparse(n.target) == cnt]
    ok = len(incs) == 1 and ast.unparse(incs[0].value) == "1" and isinstance(incs[0].op, ast.Add)
    gs = [a for a in astq.guard_atoms(bg.node, incs[0]) if a[0] not in loop_tests and a[0] != "True"] if incs else []
    ctx.check(ok and gs == [(var, True)], "count:non-empty", "environment:TemplateStream._buffered_generator", f"count advances under {gs}",
              f"the buffered-piece count must advance exactly when the piece is non-empty (`if {var}:`); found guards {gs}: empty pieces would count towards the buffer size and chunks would hold fewer non-empty pieces than requested",
              bg.loc(incs[0]) if incs else bg.loc(), detail={"guards": gs})
    ys = [n for n in ast.walk(bg.node) if isinstance(n, ast.Yield)]
    dels = [n for n in ast.walk(bg.node) if isinstance(n, ast.Delete) and "buf" in ast.unparse(n)] + [c for c in astq.calls(bg.node) if astq.callee(c) == "buf.clear"]
    ok = len(ys) == 1 and ast.unparse(ys[0].value) == "concat(buf)" and len(dels) == 1 and ys[0].lineno < dels[0].lineno
    ctx.check(ok, "yield-before-clear", "environment:TemplateStream._buffered_generator", "yield then clear", "the chunk must be yielded (concat(buf)) before the buffer is cleared", bg.loc())
    rs = astq.returns(bg.node)
    at_r = astq.guard_atoms(bg.node, rs[0]) if len(rs) == 1 else []
    empty = (cnt, False) in at_r or (f"{cnt} == 0", True) in at_r or (f"0 == {cnt}", True) in at_r or (f"{cnt} > 0", False) in at_r or (f"{cnt} < 1", True) in at_r
    ok = len(rs) == 1 and empty and any(isinstance(h, ast.ExceptHandler) and ast.unparse(h.type) == "StopIteration" for h in astq.ancestors_handlers(rs[0]))
    ctx.check(ok, "return:exhausted-empty", "environment:TemplateStream._buffered_generator", "only return", "the generator may stop only on StopIteration with an empty count (a partial last chunk must still be yielded)", bg.loc())
    rst = [n for n in ast.walk(bg.node) if isinstance(n, ast.Assign) and ast.unparse(n.targets[0]) == cnt and ast.unparse(n.value) == "0"]
    ctx.check(len(rst) == 2, "count:reset", "environment:TemplateStream._buffered_generator", "count reset per chunk", "the count must be reset after each chunk", bg.loc())
    eb = repo.func("environment:TemplateStream.enable_buffering")
    s = eb.ntext  # a local naming the chunking generator is inlined
    ctx.check("if size <= 1:" in s and "partial(next, self._buffered_generator(size))" in s, "enable_buffering", "environment:TemplateStream.enable_buffering", "buffer size", "buffering needs size > 1 and must iterate _buffered_generator(size)", eb.loc())

    # the requested size takes effect on every call: the chunking iterator is installed on each
    # path that survives the size check (not only when the stream was unbuffered before)
    inst = [a for a in ast.walk(eb.nnode) if isinstance(a, ast.Assign) and ast.unparse(a.targets[0]) == "self._next" and "_buffered_generator(size)" in ast.unparse(a.value)]
    cond = [at for a in inst for at in astq.guard_atoms(eb.nnode, a) if at[0] not in ("size <= 1", "size > 1", "size < 2", "size >= 2")]
    ctx.check(len(inst) == 1 and not cond, "enable_buffering:always", "environment:TemplateStream.enable_buffering", f"chunking iterator installed only under {cond}",
              f"enable_buffering(size) installs `partial(next, self._buffered_generator(size))` only under {cond}: a second call with another size is ignored and the chunks keep combining the old number of pieces", eb.loc())
    db = repo.func("environment:TemplateStream.disable_buffering")
    inst = [a for a in ast.walk(db.node) if isinstance(a, ast.Assign) and ast.unparse(a.targets[0]) == "self._next" and ast.unparse(a.value) == "partial(next, self._gen)"]
    ctx.check(len(inst) == 1 and not astq.guard_atoms(db.node, inst[0]), "disable_buffering:always", "environment:TemplateStream.disable_buffering", "direct iterator restored", "disable_buffering must restore partial(next, self._gen) unconditionally", db.loc())

    # the stream is its own iterator: every consumer goes through _next, so a buffering change
    # takes effect for an iteration that is already running
    ti = repo.func("environment:TemplateStream.__iter__")
    tn_ = repo.func("environment:TemplateStream.__next__")
    ri, rn = astq.returns(ti.nnode), astq.returns(tn_.nnode)

    def _val(fn: ast.AST, r_: ast.Return) -> str:
        # `event: str = self._next(); return event` is `return self._next()`
        if isinstance(r_.value, ast.Name):
            defs = [a_ for a_ in ast.walk(fn) if isinstance(a_, (ast.Assign, ast.AnnAssign)) and a_.value is not None and any(isinstance(t_, ast.Name) and t_.id == r_.value.id for t_ in (a_.targets if isinstance(a_, ast.Assign) else [a_.target]))]
            if len(defs) == 1:
                return ast.unparse(defs[0].value)
        return ast.unparse(r_.value) if r_.value is not None else ""

    ctx.check(len(ri) == 1 and _val(ti.nnode, ri[0]) == "self" and len(rn) == 1 and _val(tn_.nnode, rn[0]) == "self._next()", "stream:own-iterator", "environment:TemplateStream.__iter__", f"__iter__ returns {[ast.unparse(r.value) for r in ri if r.value is not None]}",
              "TemplateStream.__iter__ must return self and __next__ must return self._next(): handing out the underlying generator makes a running `for` loop ignore enable_buffering() / disable_buffering()", ti.loc())

    ctx.rule("R3", "dump writes every item of the stream, encoded when an encoding is given")
    dp = repo.func("environment:TemplateStream.dump")
    # the caller's encoding is what the file is written in: a default is filled in only when
    # none was given
    enc_asg = [a for a in ast.walk(dp.node) if isinstance(a, (ast.Assign, ast.AugAssign)) and ast.unparse(a.targets[0] if isinstance(a, ast.Assign) else a.target) == "encoding"]
    ctx.check(all(("encoding is None", True) in astq.guard_atoms(dp.node, a) for a in enc_asg), "dump:encoding-default", "environment:TemplateStream.dump", "the requested encoding is overwritten",
              f"dump assigns `encoding` ({[ast.unparse(a)[:40] for a in enc_asg]}) on a path where the caller gave one: dumping to a file name with encoding='latin-1' writes UTF-8, so reading the file back in the requested encoding no longer gives the rendered text", dp.loc())
    s = ast.unparse(dp.node)
    gens = [g for g in ast.walk(dp.node) if isinstance(g, ast.GeneratorExp) and len(g.generators) == 1 and ast.unparse(g.generators[0].iter) == "self" and not g.generators[0].ifs]
    enc_ok = len(gens) == 1 and ast.unparse(gens[0].elt) == f"{ast.unparse(gens[0].generators[0].target)}.encode(encoding, errors)"
    ctx.check(enc_ok and "iterable = self" in s, "dump:iterable", "environment:TemplateStream.dump", "items written", "dump must write every item of the stream (encoded if requested)", dp.loc())
    loops = [l for l in ast.walk(dp.node) if isinstance(l, ast.For) and ast.unparse(l.iter) == "iterable"]
    loop_ok = len(loops) == 1 and any(astq.callee(c) == "real_fp.write" and c.args and ast.unparse(c.args[0]) == ast.unparse(loops[0].target) for c in astq.calls(loops[0])) and not any(isinstance(x, (ast.Break, ast.Continue, ast.Return, ast.If)) for x in ast.walk(loops[0]))
    ctx.check("real_fp.writelines(iterable)" in s and loop_ok, "dump:write", "environment:TemplateStream.dump", "write paths", "both write paths (writelines / write loop) must consume the whole iterable", dp.loc())
    # str(module) joins the pieces kept in the module's private `_body_stream`; exported
    # template names are copied onto the same object, so only the export rule (no name with a
    # leading underscore is ever exported) keeps them from replacing it
    from . import c05

    ctx.run_imported("C05", {"R3"}, c05.check)
    tm = repo.func("environment:TemplateModule.__init__")
    stores = [a for a in ast.walk(tm.node) if isinstance(a, ast.Assign) and ast.unparse(a.targets[0]).startswith("self.") and not ast.unparse(a.targets[0]).startswith("self._")]
    ctx.rule("R4", "TemplateModule keeps its own state in underscore attributes (exported names never start with one): str()/html() read `_body_stream`")
    ctx.check(not stores, "module:private-state", "environment:TemplateModule.__init__", f"public attributes {[ast.unparse(a.targets[0]) for a in stores]}", "the module object's own attributes must be private: a template variable of the same name would replace them", tm.loc())
    ts = repo.func("environment:TemplateModule.__str__")
    ctx.check("concat(self._body_stream)" in ast.unparse(ts.node), "module:str", "environment:TemplateModule.__str__", "joins the body stream", "str(module) must join the rendered pieces", ts.loc())
    ctx.rule("R5", "make_module / make_module_async build the context from the caller's `vars` as given: the parameter is never rebound and is the first argument of new_context, like the dict render() builds")
    for fname in ("make_module", "make_module_async"):
        mm = repo.func(f"environment:Template.{fname}")
        rb = [x for x in ast.walk(mm.node) if isinstance(x, ast.Name) and x.id == "vars" and isinstance(x.ctx, ast.Store)]
        nc = [c for c in astq.calls(mm.node) if astq.callee(c) == "self.new_context"]
        ok = not rb and len(nc) == 1 and bool(nc[0].args) and ast.unparse(nc[0].args[0]) == "vars"
        ctx.check(ok, f"{fname}:vars", f"environment:Template.{fname}", "`vars` is rewritten before the context is built" if rb else "context from vars",
                  f"Template.{fname} must pass the caller's `vars` unchanged to self.new_context (rebound {len(rb)}x): filtered or copied selectively, `str(t.make_module(data))` renders different text than `t.render(data)` for data the filter drops (a key that is also a global)",
                  mm.loc(rb[0]) if rb else mm.loc())

    return __doc__ or ""
