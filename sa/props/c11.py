"""C11 - plain text, comments and raw blocks render verbatim.

Decided statically: line-break handling (alternative order of newline_re, normalisation of
data and string tokens, split / re-join, removal of exactly one trailing line break unless
keep_trailing_newline); comments yield only ignored tokens, raw begin/end tokens are dropped
and the raw body is a data token; template data becomes TemplateData, is emitted as a
constant and never passes through the finalize hook; the whitespace-control code can only
remove whitespace (shared with C12).  Not decided: equality of output and input text over
all strings.
Also: delimiter / prefix strings are interpolated into patterns only as re.escape(<string>).
"""

from __future__ import annotations

from ..core import Ctx
from ..lexrules import comment_raw_rules, lstrip_rules, newline_rules


def check(ctx: Ctx) -> str:
    ctx.use('lexer', 'parser', 'compiler')
    newline_rules(ctx, "R1")
    comment_raw_rules(ctx, "R3")
    lstrip_rules(ctx, "R4")
    from ..lexrules import delimiters_escaped_rule

    delimiters_escaped_rule(ctx, "R6")
    # newline_sequence / keep_trailing_newline reach the text only through the Lexer built for
    # *this* environment: an overlay must not keep its parent's lexer or cached templates
    from . import c13

    ctx.run_imported("C13", {"R3", "R6"}, c13.check)
    # template data under a run-time autoescape decision is not folded (rule owned by C08)
    from . import c08

    ctx.run_imported("C08", {"R1"}, c08.check)
    # template data under a run-time autoescape decision is marked by a run-time selector
    from ..escrules import runtime_selector_rule

    runtime_selector_rule(ctx, "R9")
    return __doc__ or ""
