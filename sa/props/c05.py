"""C05 - include and import honor the documented context visibility.

Decided statically: (skeleton rules over the code generator) the ``ignore missing`` try covers
only the template lookup and catches exactly TemplateNotFound with rendering in the else
branch; the context flag maps identically for include / import / from-import (with context
-> new_context/make_module(context.get_all(), True, <locals>), without -> the default
module); an emitted ``yield`` at visitor level only occurs for unbuffered frames; top-level
stores of public names are paired with exported_vars bookkeeping (add/update for
assignments and macros, discard/difference_update for imports), underscore names never
exported; the loader function matches the template expression's shape and
get_or_select_template dispatches on str / Undefined / Template / iterable; parser defaults
match the documentation; building a child context never stores into a dict the caller owns.
Also: Context.get_all overlays vars on parent; dump_stores hands out the innermost visible binding.  
Also: every emitted exported_vars literal removes names in the import visitors and adds them in assignments / macros.  
Not decided: contents of included templates / modules.
"""

from __future__ import annotations

import ast

from .. import astq
from ..core import Ctx
from ..emitrules import c05_yield_rule
from ..emitrules import get_paths
from ..emitrules import reparse
from ..emitrules import short_flags
from ..flow import FlowAnalysis


def new_context_rule(ctx: Ctx, rid: str) -> None:
    ctx.rule(rid, "runtime.new_context (and Context.derived / get_all consumers) never stores into a dict owned by the caller: writes happen on a fresh copy on every path (split on `shared` / `locals`)")
    fi = ctx.repo.func("runtime:new_context")
    fa = FlowAnalysis(fi.nnode)  # normal form: `p = a if shared else b` is the if / else it abbreviates (paths split on `shared`)
    seen = set()
    for mu in fa.mutations:
        k = (mu.name, mu.kind)
        if k in seen:
            continue
        seen.add(k)
        ctx.bad("runtime:new_context", f"{mu.kind} on {mu.name}",
                f"new_context performs {mu.kind} on `{mu.name}` which may be the caller's dict ({', '.join(sorted(mu.origins))}): with shared=True the dict returned by Context.get_all() - possibly the live parent/vars mapping of the including template - is modified, so loop locals leak into later includes/imports",
                fi.loc(mu.node))
    if not fa.mutations:
        ctx.ok("new_context", detail={"function": "runtime.new_context", "paths": len(fa.final)})
    # the locals loop must exist and skip `missing`
    src = ast.unparse(fi.node)
    ok_lm = False
    for lp in [l for l in ast.walk(fi.node) if isinstance(l, ast.For) and ast.unparse(l.iter) == "locals.items()" and isinstance(l.target, ast.Tuple) and len(l.target.elts) == 2 and all(isinstance(e_, ast.Name) for e_ in l.target.elts)]:
        kn_, vn_ = (e_.id for e_ in lp.target.elts)  # type: ignore[attr-defined]
        for a_ in ast.walk(lp):
            # stored under the (possibly shortened) key, on the path where the value is not `missing`
            if isinstance(a_, ast.Assign) and len(a_.targets) == 1 and isinstance(a_.targets[0], ast.Subscript) and ast.unparse(a_.targets[0].value) == "parent" and ast.unparse(a_.value) == vn_:
                ok_lm = ok_lm or (f"{vn_} is missing", False) in astq.guard_atoms(fi.node, a_)
    ctx.check(ok_lm, "locals-merge", "runtime:new_context", "locals merge", "locals must be merged into the child context, skipping `missing` values", fi.loc())
    # what an included / imported template receives: the template's own top-level variables
    # override the names it was rendered with (a `{% set %}` shadows a context variable)
    ga = ctx.repo.func("runtime:Context.get_all")
    class _V:  # a returned value (directly, or through the local that is returned)
        def __init__(self, value: ast.AST) -> None:
            self.value = value

    rvals: list[_V] = []
    for r in astq.returns(ga.node):
        if isinstance(r.value, ast.Name):
            rvals += [_V(a.value) for a in ast.walk(ga.node) if isinstance(a, ast.Assign) and any(isinstance(t_, ast.Name) and t_.id == r.value.id for t_ in a.targets)]
        elif r.value is not None:
            rvals.append(_V(r.value))
    merges = [(r, astq.merge_order(r.value)) for r in rvals if astq.merge_order(r.value) is not None]
    ok_ga = len(merges) == 1 and merges[0][1] == ["self.parent", "self.vars"]
    others = sorted(ast.unparse(r.value) for r in rvals if astq.merge_order(r.value) is None)
    ctx.check(ok_ga and set(others) <= {"self.parent", "self.vars"}, "get_all:precedence", "runtime:Context.get_all", f"merge order {merges[0][1] if merges else None}",
              f"Context.get_all must overlay self.vars on self.parent (later wins): it returns `{ast.unparse(merges[0][0].value) if merges else None}` with precedence {merges[0][1] if merges else None}; with the parent on top an include / import-with-context sees the render-time value of a name the including template has re-bound with `{{% set %}}`",
              ga.loc(), detail={"merge": merges[0][1] if merges else None, "shortcuts": others})
    ctx.check("dict(globals or (), **vars)" in src, "globals-merge", "runtime:new_context", "globals under vars", "a non-shared context must be built from the template globals overlaid with the passed variables", fi.loc())
    dv = ctx.repo.func("runtime:Context.derived")
    s = ast.unparse(dv.node)
    ctx.check("self.get_all(), True, None, locals" in s, "derived", "runtime:Context.derived", "derived context inputs", "Context.derived must build on get_all() as shared parent plus the locals", dv.loc())


def check(ctx: Ctx) -> str:
    ctx.use("compiler", "environment", "runtime", "parser")
    repo = ctx.repo
    c05_yield_rule(ctx, "R5")

    ctx.rule("R1", "include skeletons: with ignore_missing the `try` holds only the template lookup, catches exactly TemplateNotFound, renders in `else`; without it there is no try around the lookup")
    res = get_paths(ctx, ["visit_Include"])
    n = 0
    for p, sk in res["visit_Include"]:
        if p.outcome != "normal" or sk.error:
            continue
        n += 1
        tree = reparse(sk, "visit_Include", "stmt")
        assert tree is not None
        ign = bool(p.decisions.get("node.ignore_missing"))
        body = tree.body[0].body  # type: ignore[attr-defined]
        trys = [s for s in body if isinstance(s, ast.Try) and s.handlers]
        if ign:
            ok = len(trys) == 1 and len(trys[0].body) == 1 and "template = environment." in ast.unparse(trys[0].body[0]) and len(trys[0].handlers) == 1 \
                and ast.unparse(trys[0].handlers[0].type) == "TemplateNotFound" and bool(trys[0].orelse) and all(isinstance(x, ast.Pass) for x in trys[0].handlers[0].body)
            ctx.check(ok, f"ignore:{n}", "compiler:CodeGenerator.visit_Include", "ignore-missing try shape",
                      f"with `ignore missing` the emitted try must contain only the lookup and catch only TemplateNotFound, rendering in else [{short_flags(p, 5)}]:\n{sk.text[:300]}", "src/jinja2/compiler.py",
                      detail={"skeleton": sk.text[:260]} if n % 11 == 0 else None)
        else:
            ctx.check(not trys, f"plain:{n}", "compiler:CodeGenerator.visit_Include", "lookup wrapped in try without ignore missing", "without `ignore missing` a missing template must raise", "src/jinja2/compiler.py")
        # loader function
        is_const = p.decisions.get("isinstance(node.template, Const)")
        want = None
        if is_const and p.decisions.get("isinstance(node.template.value, str)"):
            want = "get_template"
        elif is_const and p.decisions.get("isinstance(node.template.value, tuple|list)"):
            want = "select_template"
        elif is_const is False and p.decisions.get("isinstance(node.template, Tuple|List)"):
            want = "select_template"
        elif is_const is False or (is_const and p.decisions.get("isinstance(node.template.value, tuple|list)") is False):
            want = "get_or_select_template"
        if want:
            ctx.check(f"environment.{want}(" in sk.text, f"loader:{n}", "compiler:CodeGenerator.visit_Include", f"loader function {want}", f"expected environment.{want}( for this template expression shape [{short_flags(p, 5)}]", "src/jinja2/compiler.py")
        # context flag mapping
        wc = bool(p.decisions.get("node.with_context"))
        if wc:
            ok = "template.new_context(context.get_all(), True, " in sk.text and "_get_default_module" not in sk.text
        else:
            ok = "_get_default_module" in sk.text and "new_context" not in sk.text
        ctx.check(ok, f"ctxflag:{n}", "compiler:CodeGenerator.visit_Include", f"with_context={wc} mapping", f"include with_context={wc} is compiled to the wrong context construction:\n{sk.text[:200]}", "src/jinja2/compiler.py")
    ctx.floor("visit_Include paths", n, 30)

    ctx.rule("R2", "import / from-import skeletons: with context -> make_module[_async](context.get_all(), True, <locals>); without -> _get_default_module[_async](context); async forms awaited")
    res = get_paths(ctx, ["visit_Import", "visit_FromImport"])
    n = 0
    for entry, items in res.items():
        for p, sk in items:
            if p.outcome != "normal" or sk.error:
                continue
            n += 1
            wc = bool(p.decisions.get("node.with_context"))
            is_async = bool(p.decisions.get("self.environment.is_async"))
            suffix = "_async" if is_async else ""
            if wc:
                ok = f".make_module{suffix}(context.get_all(), True, " in sk.text and "_get_default_module" not in sk.text
            else:
                ok = f"._get_default_module{suffix}(context)" in sk.text and "make_module" not in sk.text
            ok = ok and (("await environment.get_template(" in sk.text) == is_async)
            ctx.check(ok, f"{entry}:{n}", f"compiler:CodeGenerator.{entry}", f"with_context={wc} async={is_async}", f"{entry} with_context={wc}, async={is_async} emits:\n{sk.text[:240]}", "src/jinja2/compiler.py",
                      detail={"entry": entry, "skeleton": sk.text[:200]} if n % 9 == 0 else None)
    ctx.floor("import paths", n, 30)

    ctx.rule("R3", "export bookkeeping: a top-level store of a public name into context.vars is paired with exported_vars add/update (assignments, macros) or discard/difference_update (imports); names starting with '_' are never exported")
    res = get_paths(ctx, ["pop_assign_tracking", "visit_Macro", "visit_Import", "visit_FromImport"])
    n = 0
    for entry, items in res.items():
        for p, sk in items:
            if p.outcome != "normal" or sk.error:
                continue
            stores = "context.vars[" in sk.text or "context.vars.update(" in sk.text
            if not stores:
                continue
            n += 1
            is_import = entry in ("visit_Import", "visit_FromImport")
            if is_import:
                private = p.decisions.get("node.target.startswith('_')") or p.decisions.get("alias.startswith('_')") or p.decisions.get("node.names[0].startswith('_')")
                has = "context.exported_vars.discard(" in sk.text or "context.exported_vars.difference_update(" in sk.text
                bad = "exported_vars.add(" in sk.text or "exported_vars.update(" in sk.text
                ctx.check(not bad and (has or private is not False), f"{entry}:{n}", f"compiler:CodeGenerator.{entry}", "import export bookkeeping", f"an imported public name stored at top level must be removed from exported_vars [{short_flags(p, 6)}]:\n{sk.text[:200]}", "src/jinja2/compiler.py")
            else:
                has = "context.exported_vars.add(" in sk.text or "context.exported_vars.update(" in sk.text
                private = p.decisions.get("node.name.startswith('_')")
                pub = p.decisions.get("public_names")
                if entry == "visit_Macro":
                    ctx.check(has == (private is False), f"{entry}:{n}", f"compiler:CodeGenerator.{entry}", "macro export bookkeeping", f"a top-level macro must be exported exactly when its name is public [{short_flags(p, 6)}]", "src/jinja2/compiler.py")
                else:
                    ctx.check(has or pub is False or pub is None and not has, f"{entry}:{n}", f"compiler:CodeGenerator.{entry}", "assignment export bookkeeping", "top-level assignments of public names must be added to exported_vars", "src/jinja2/compiler.py")
    ctx.floor("top-level store paths", n, 10)
    # the same pairing on every emitted literal, whatever the number of names (the paths above
    # unroll name lists only up to the loop bound): import visitors only ever *remove* names
    # from exported_vars, assignments and macros only ever add them
    import re as _re

    n_lit = 0
    for fname, allowed in (("visit_Import", {"discard", "difference_update"}), ("visit_FromImport", {"discard", "difference_update"}), ("_import_common", {"discard", "difference_update"}),
                           ("pop_assign_tracking", {"add", "update"}), ("visit_Macro", {"add", "update"})):
        fi_ = repo.func(f"compiler:CodeGenerator.{fname}")
        for k in ast.walk(fi_.node):
            if isinstance(k, ast.Constant) and isinstance(k.value, str):
                for meth in _re.findall(r"exported_vars\.(\w+)\(", k.value):
                    n_lit += 1
                    ctx.check(meth in allowed, f"literal:{fname}:{meth}", f"compiler:CodeGenerator.{fname}", f"emits exported_vars.{meth}(",
                              f"{fname} emits `context.exported_vars.{meth}(...)`; {'an import removes the imported names from' if 'discard' in allowed else 'an assignment / macro adds its names to'} the export set (allowed: {sorted(allowed)}): with `{meth}` the names a template imports from elsewhere become part of its own module (`{{% from 'forms' import field %}}` succeeds although forms only imported `field`)",
                              fi_.loc(k))
    ctx.floor("exported_vars literals", n_lit, 4)
    pat = repo.func("compiler:CodeGenerator.pop_assign_tracking")
    s = ast.unparse(pat.node)
    ctx.check("public_names = [x for x in vars if x[:1] != '_']" in s and "not frame.block_frame and (not frame.loop_frame) and public_names" in s, "pop_assign_tracking:public", "compiler:CodeGenerator.pop_assign_tracking", "public filter", "only names not starting with '_' assigned at template top level are exported", pat.loc())
    # def-use: every name written into an exported_vars line comes from the filtered list
    import builtins

    def _resolve_names(fn: ast.AST, e: ast.AST, depth: int = 0) -> set[str]:
        out: set[str] = set()
        for n_ in ast.walk(e):
            if isinstance(n_, ast.Name) and isinstance(n_.ctx, ast.Load):
                srcs = [a for a in ast.walk(fn) if isinstance(a, ast.Assign) and len(a.targets) == 1 and isinstance(a.targets[0], ast.Name) and a.targets[0].id == n_.id]
                if not srcs and hasattr(builtins, n_.id):
                    continue  # a real builtin (repr, sorted, map), not a local shadowing one (`vars`)
                # follow plain local temporaries; a comprehension or a value taken from the
                # generator's own state is an origin
                if len(srcs) == 1 and depth < 4 and not isinstance(srcs[0].value, ast.ListComp) and "self." not in ast.unparse(srcs[0].value):
                    out |= _resolve_names(fn, srcs[0].value, depth + 1)
                else:
                    out.add(n_.id)
        return out

    nexp = 0
    for c in astq.calls(pat.node):
        if astq.callee(c) not in ("self.writeline", "self.write") or not c.args or not isinstance(c.args[0], ast.JoinedStr):
            continue
        js = c.args[0]
        lit = "".join(v.value for v in js.values if isinstance(v, ast.Constant))
        if "exported_vars" not in lit:
            continue
        for v in js.values:
            if isinstance(v, ast.FormattedValue):
                nexp += 1
                origin = _resolve_names(pat.node, v.value)
                ctx.check(origin <= {"public_names"}, f"pop_assign_tracking:export-origin:{nexp}", "compiler:CodeGenerator.pop_assign_tracking", f"exported names taken from {sorted(origin)}",
                          f"the names written into `{lit.strip()[:40]}...` come from {sorted(origin)}, not only from the list filtered by the leading-underscore test: a private name assigned in a multi-target `{{% set a, b, _c = ... %}}` becomes an attribute of the imported module", pat.loc(c), detail={"origin": sorted(origin)})
    ctx.floor("exported_vars emission sites in pop_assign_tracking", nexp, 2)
    pn = [a for a in ast.walk(pat.node) if isinstance(a, ast.Assign) and any(isinstance(t_, ast.Name) and t_.id == "public_names" for t_ in a.targets)]
    okf = False
    if len(pn) == 1 and isinstance(pn[0].value, ast.ListComp) and len(pn[0].value.generators) == 1:
        g = pn[0].value.generators[0]
        tv = ast.unparse(g.target)
        tests = [ast.unparse(i) for i in g.ifs]
        okf = ast.unparse(pn[0].value.elt) == tv and ast.unparse(g.iter) == "vars" and tests in ([f"{tv}[:1] != '_'"], [f"not {tv}.startswith('_')"], [f"{tv}[0] != '_'"])
    ctx.check(okf, "pop_assign_tracking:filter", "compiler:CodeGenerator.pop_assign_tracking", "public_names filter", "public_names must be the assigned names without a leading underscore", pat.loc())
    # the run-time half of `import ... with context`: the emitted call passes
    # (context.get_all(), True, <frame locals>) - both module constructors must hand all three
    # on to new_context, in that order, or the importing scope's locals are lost
    for meth in ("make_module", "make_module_async"):
        mm = repo.func(f"environment:Template.{meth}")
        params = mm.params()[1:]
        ncs = [c for c in astq.calls(mm.node) if astq.callee(c) == "self.new_context"]
        okm = params == ["vars", "shared", "locals"] and len(ncs) == 1 and [ast.unparse(a) for a in ncs[0].args] == ["vars", "shared", "locals"] and not ncs[0].keywords
        ctx.check(okm, f"{meth}:forwards", f"environment:Template.{meth}", f"new_context({', '.join(ast.unparse(a) for a in ncs[0].args) if ncs else '?'})",
                  f"Template.{meth}(vars, shared, locals) must build its context with self.new_context(vars, shared, locals); with an argument dropped an import `with context` inside a loop / macro / with block no longer sees that scope's variables (in this mode only)", mm.loc())
    tm = repo.func("environment:TemplateModule.__init__")
    ctx.check("self.__dict__.update(context.get_exported())" in ast.unparse(tm.node), "TemplateModule:exports", "environment:TemplateModule.__init__", "module attributes", "a template module must expose exactly context.get_exported()", tm.loc())
    ge = repo.func("runtime:Context.get_exported")
    gev = astq.returns(ge.node)[0].value
    ge_ok = isinstance(gev, ast.DictComp) and len(gev.generators) == 1 and not gev.generators[0].ifs and ast.unparse(gev.generators[0].iter) == "self.exported_vars" and ast.unparse(gev.key) == ast.unparse(gev.generators[0].target) and ast.unparse(gev.value) == f"self.vars[{ast.unparse(gev.generators[0].target)}]"
    ctx.check(ge_ok, "get_exported", "runtime:Context.get_exported", "exported dict", "get_exported must return the vars named in exported_vars", ge.loc())

    ctx.rule("R4", "get_or_select_template dispatches str/Undefined -> get_template, Template -> itself, anything else -> select_template; select_template returns the first name that loads and skips only TemplateNotFound / UndefinedError")
    gs = repo.func("environment:Environment.get_or_select_template")
    s = ast.unparse(gs.node)
    ctx.check("isinstance(template_name_or_list, (str, Undefined))" in s and "return self.get_template(template_name_or_list, parent, globals)" in s and "isinstance(template_name_or_list, Template)" in s and "return self.select_template(template_name_or_list, parent, globals)" in s,
              "get_or_select", "environment:Environment.get_or_select_template", "dispatch", "dispatch of get_or_select_template changed", gs.loc())
    st = repo.func("environment:Environment.select_template")
    hs = [h for h in ast.walk(st.node) if isinstance(h, ast.ExceptHandler)]
    ok = len(hs) == 1 and {ast.unparse(e) for e in (hs[0].type.elts if isinstance(hs[0].type, ast.Tuple) else [hs[0].type])} == {"TemplateNotFound", "UndefinedError"}
    ctx.check(ok, "select:handler", "environment:Environment.select_template", "skipped errors", "select_template must skip exactly TemplateNotFound and UndefinedError for a candidate", st.loc())
    loops = [n_ for n_ in ast.walk(st.nnode) if isinstance(n_, ast.For)]  # normal form: `t = load(); return t` after the try is `return load()` inside it
    ok = len(loops) == 1 and ast.unparse(loops[0].iter) == "names" and any(isinstance(x, ast.Return) and "self._load_template(name, globals)" in ast.unparse(x) for x in ast.walk(loops[0]))
    ctx.check(ok, "select:first", "environment:Environment.select_template", "first match wins", "select_template must return the first candidate that loads, in order", st.loc())
    ctx.check(astq.raise_type(astq.raises(st.node)[-1]) == "TemplatesNotFound", "select:none", "environment:Environment.select_template", "none found", "select_template must end with TemplatesNotFound", st.loc())

    ctx.rule("R6", "parser defaults: include defaults to with context, import / from-import to without; `ignore missing` needs both words; with/without need the word `context`")
    for meth, default in (("parse_include", "True"), ("parse_import", "False")):
        fi = repo.func(f"parser:Parser.{meth}")
        cs = [c for c in astq.calls(fi.node) if astq.callee(c) == "self.parse_import_context"]
        ctx.check(len(cs) == 1 and ast.unparse(cs[0].args[1]) == default, f"{meth}:default", f"parser:Parser.{meth}", "context default", f"{meth} must default with_context to {default}", fi.loc())
    pf = repo.func("parser:Parser.parse_from")
    ctx.check("node.with_context = False" in ast.unparse(pf.node), "parse_from:default", "parser:Parser.parse_from", "context default", "from-import must default to without context", pf.loc())
    pi = repo.func("parser:Parser.parse_include")
    s = ast.unparse(pi.node)
    from ..normalize import atoms as _atoms6

    both = {("self.stream.current.test('name:ignore')", True), ("self.stream.look().test('name:missing')", True)}
    skips = [c for c in astq.calls(pi.node) if ast.unparse(c.func) == "self.stream.skip" and c.args and ast.unparse(c.args[0]) == "2"]
    ign_ok = len(skips) == 1 and {a_ for a_ in astq.guard_atoms(pi.node, skips[0]) if not a_[0].isidentifier()} == both  # (a named sub-test is resolved to its atoms)
    for a_ in ast.walk(pi.node):
        if isinstance(a_, ast.Assign) and ast.unparse(a_.targets[0]) == "node.ignore_missing":
            v_ = a_.value
            if isinstance(v_, ast.Name):
                defs_ = [d_ for d_ in ast.walk(pi.node) if isinstance(d_, ast.Assign) and len(d_.targets) == 1 and isinstance(d_.targets[0], ast.Name) and d_.targets[0].id == v_.id]
                v_ = defs_[0].value if len(defs_) == 1 else v_
            if isinstance(v_, ast.Constant):
                ign_ok = ign_ok and (v_.value is False or (v_.value is True and both <= set(astq.guard_atoms(pi.node, a_))))
            else:
                ign_ok = ign_ok and set(_atoms6(v_, True)) == both
    ctx.check(ign_ok, "parse_include:ignore", "parser:Parser.parse_include", "ignore missing", "`ignore missing` must be recognised only as the two-word sequence", pi.loc())
    pc = repo.func("parser:Parser.parse_import_context")
    s = ast.unparse(pc.node)
    ctx.check("self.stream.look().test('name:context')" in s and "next(self.stream).value == 'with'" in s and "node.with_context = default" in s, "parse_import_context", "parser:Parser.parse_import_context", "with/without context", "with/without must be followed by `context`; the flag is true exactly for `with`", pc.loc())
    new_context_rule(ctx, "R7")

    ctx.rule("R8", "the locals handed to an include / import-with-context are the *visible* bindings: Symbols.dump_stores walks the scopes from the current one outwards, the first (innermost) scope that stores a name wins, and the reference is the one the current scope resolves the name to")
    ds = repo.func("idtracking:Symbols.dump_stores")
    starts = [a for a in ast.walk(ds.node) if isinstance(a, (ast.Assign, ast.AnnAssign)) and a.value is not None and ast.unparse(a.value) == "self" and isinstance((a.targets[0] if isinstance(a, ast.Assign) else a.target), ast.Name)]
    wl = [w for w in ast.walk(ds.node) if isinstance(w, ast.While)]
    ok = len(starts) == 1 and len(wl) == 1
    detail = {}
    if ok:
        cur = (starts[0].targets[0] if isinstance(starts[0], ast.Assign) else starts[0].target).id  # type: ignore[attr-defined]
        adv = [a for a in ast.walk(wl[0]) if isinstance(a, ast.Assign) and ast.unparse(a.targets[0]) == cur and ast.unparse(a.value) == f"{cur}.parent"]
        stores_ = [a for a in ast.walk(wl[0]) if isinstance(a, ast.Assign) and isinstance(a.targets[0], ast.Subscript) and isinstance(a.targets[0].value, ast.Name)]
        ok = ast.unparse(wl[0].test) == f"{cur} is not None" and len(adv) == 1 and len(stores_) == 1
        if ok:
            rvn = stores_[0].targets[0].value.id  # type: ignore[attr-defined]
            key = ast.unparse(stores_[0].targets[0].slice)  # type: ignore[attr-defined]
            at_ = astq.guard_atoms(ds.node, stores_[0])
            detail = {"guards": at_, "value": ast.unparse(stores_[0].value)}
            loops_ = [l_ for l_ in ast.walk(wl[0]) if isinstance(l_, ast.For) and f"{cur}.stores" in ast.unparse(l_.iter)]
            ok = (f"{key} in {rvn}", False) in at_ and ast.unparse(stores_[0].value) == f"self.find_ref({key})" and len(loops_) == 1 and all(a_[0] in (f"{key} in {rvn}", f"{cur} is None") for a_ in at_)
    ctx.check(ok, "dump_stores:innermost-first", "idtracking:Symbols.dump_stores", "visible bindings",
              f"dump_stores must start at `self`, follow .parent, and record `rv[name] = self.find_ref(name)` only for names not recorded yet ({detail}): otherwise an include inside a nested scope receives the shadowed outer value of a name (a top-level `set` instead of the `with` / loop variable that hides it)",
              ds.loc(), detail=detail)
    return __doc__ or ""
