"""C38 - exceptions from data propagate unchanged and leave the engine usable.

Decided statically: the *swallow inventory* - every ``except`` clause in the modules a render
runs through either re-raises (bare raise, ``raise ... from``, handle_exception) or catches
only the exception classes reviewed for that function (documented lookup signals: attribute /
lookup errors become undefined, StopIteration from a callable becomes undefined, capability
probes answer False, conversions fall back to a default); render / generate and their async
forms catch Exception only to re-raise through handle_exception, which raises the *same*
exception object with a rewritten traceback; Context.call catches StopIteration only, around
the call only.  Also: get_template_locals fills a dict of its own.  
Not decided: state of user objects after a failed render.
"""

from __future__ import annotations

import ast

from .. import astq
from ..cfg import _always_leaves
from ..cfg import handler_types
from ..core import Ctx

MODULES = ("runtime", "environment", "filters", "tests", "sandbox", "async_utils", "utils", "nativetypes", "debug")
# (module, function) -> exception classes that may be swallowed there, with the reason class
ALLOWED = {
    ("runtime", "Context.super"): ({"LookupError"}, "lookup signal: no parent block -> undefined"),
    ("runtime", "Context.get"): ({"KeyError"}, "lookup signal"),
    ("runtime", "Context.call"): ({"StopIteration"}, "documented: StopIteration from a callable becomes undefined (PEP 479)"),
    ("runtime", "LoopContext.length"): ({"TypeError"}, "capability probe: len() unsupported -> count by iterating"),
    ("runtime", "AsyncLoopContext.length"): ({"TypeError"}, "capability probe"),
    ("runtime", "AsyncLoopContext._peek_next"): ({"StopAsyncIteration"}, "iterator protocol"),
    ("runtime", "Macro.__call__"): ({"KeyError"}, "keyword argument not given -> missing"),
    ("environment", "Environment.getitem"): ({"AttributeError", "LookupError", "TypeError", "Exception"}, "documented lookup fallback; `except Exception` only around str(argument)"),
    ("environment", "Environment.getattr"): ({"AttributeError", "LookupError", "TypeError"}, "documented lookup fallback"),
    ("environment", "Environment._filter_test_common"): ({"Exception"}, "collects the undefined-name message for the TemplateRuntimeError raised right after; protects only name._fail_with_undefined_error()"),
    ("environment", "Environment.select_template"): ({"TemplateNotFound", "UndefinedError"}, "try the next candidate"),
    ("environment", "TemplateStream._buffered_generator"): ({"StopIteration"}, "iterator protocol"),
    ("environment", "Environment.compile_templates"): ({"TemplateSyntaxError"}, "ignore_errors option of an offline tool"),
    ("filters", "_min_or_max"): ({"StopIteration"}, "empty input -> undefined"),
    ("filters", "sync_do_first"): ({"StopIteration"}, "empty input -> undefined"),
    ("filters", "do_first"): ({"StopAsyncIteration"}, "empty input -> undefined"),
    ("filters", "do_last"): ({"StopIteration"}, "empty input -> undefined"),
    ("filters", "do_random"): ({"IndexError"}, "empty input -> undefined"),
    ("filters", "do_int"): ({"TypeError", "ValueError", "OverflowError"}, "documented: conversion failure -> default"),
    ("filters", "do_float"): ({"TypeError", "ValueError", "OverflowError"}, "documented: conversion failure -> default"),
    ("filters", "do_reverse"): ({"TypeError"}, "capability probe: not reversible -> list"),
    ("filters", "do_attr"): ({"AttributeError"}, "existence probe"),
    ("filters", "prepare_select_or_reject"): ({"LookupError"}, "no test argument given -> bool"),
    ("tests", "test_sequence"): ({"Exception"}, "documented capability test: any failure of len()/__getitem__ means not a sequence"),
    ("tests", "test_iterable"): ({"TypeError"}, "capability test"),
    ("sandbox", "SandboxedEnvironment.getitem"): ({"LookupError", "TypeError", "AttributeError", "Exception"}, "documented lookup fallback; `except Exception` only around str(argument)"),
    ("sandbox", "SandboxedEnvironment.getattr"): ({"AttributeError", "LookupError", "TypeError"}, "documented lookup fallback"),
    ("utils", "import_string"): ({"ImportError", "AttributeError"}, "silent option"),
    ("utils", "LRUCache.get"): ({"KeyError"}, "miss"),
    ("utils", "LRUCache.setdefault"): ({"KeyError"}, "miss"),
    ("utils", "LRUCache.__delitem__"): ({"ValueError"}, "key already absent from the queue"),
    ("utils", "LRUCache.__getitem__"): ({"ValueError"}, "key already absent from the queue"),
    ("nativetypes", "native_concat"): ({"ValueError", "SyntaxError", "MemoryError"}, "not a literal -> return the text"),
    ("debug", "fake_traceback"): ({"BaseException"}, "captures the traceback of the deliberately raised placeholder"),
    ("debug", "get_template_locals"): ({"ValueError"}, "local name not of the l_<depth>_<name> form"),
}


def reraises(h: ast.ExceptHandler) -> bool:
    """Does the handler end by raising (on every path)?"""
    body = h.body
    if _always_leaves(body) and not any(isinstance(s, (ast.Return, ast.Continue, ast.Break)) for s in ast.walk(ast.Module(body=body, type_ignores=[])) if not isinstance(s, ast.Raise)):
        last = body[-1]
        if isinstance(last, ast.Raise):
            return True
        if isinstance(last, ast.Expr) and isinstance(last.value, ast.Call) and astq.callee(last.value).endswith("handle_exception"):
            return True
    # `return handle_exception()` / `yield handle_exception()` (NoReturn)
    if len(body) == 1:
        t_ = ast.unparse(body[0])
        if t_.endswith("handle_exception()") or "handle_exception(source=" in t_:
            return True
    return False


def check(ctx: Ctx) -> str:
    ctx.use(*MODULES)
    repo = ctx.repo
    ctx.rule("R1", "swallow inventory: every except clause on the render path re-raises or catches only the classes reviewed for its function")
    n = 0
    for mod in MODULES:
        m = repo.module(mod)
        for h in ast.walk(m.tree):
            if not isinstance(h, ast.ExceptHandler):
                continue
            n += 1
            q = astq.enclosing_qual(h)
            types = {t_.split(".")[-1] for t_ in handler_types(h)}
            if reraises(h):
                ctx.ok(f"{mod}:{q}:{sorted(types)}:reraise", trivial=True)
                continue
            allowed = ALLOWED.get((mod, q))
            ok = allowed is not None and types <= allowed[0]
            extra = sorted(types - (allowed[0] if allowed else set()))
            ctx.check(ok, f"{mod}:{q}:{sorted(types)}", f"{mod}:{q}", f"swallows {extra}",
                      f"{mod}.{q} catches {sorted(types)} without re-raising; {extra} {'is' if len(extra) == 1 else 'are'} not among the exceptions reviewed for this function ({sorted(allowed[0]) if allowed else 'none'}): an exception raised by template data is turned into a value / silently dropped instead of propagating",
                      f"{m.rel}:{h.lineno}", detail={"site": f"{mod}:{q}", "catches": sorted(types), "why": allowed[1] if allowed else None})
    ctx.floor("except clauses on the render path", n, 55)
    # the broad handlers of the lookup functions protect only str(argument)
    for spec in ("environment:Environment.getitem", "sandbox:SandboxedEnvironment.getitem"):
        fi = repo.func(spec)
        for h in ast.walk(fi.node):
            if isinstance(h, ast.ExceptHandler) and "Exception" in handler_types(h):
                tr = getattr(h, "_parent", None)
                ok = isinstance(tr, ast.Try) and len(tr.body) == 1 and isinstance(tr.body[0], ast.Assign) and isinstance(tr.body[0].targets[0], ast.Name) and ast.unparse(tr.body[0].value) == "str(argument)"
                ctx.check(ok, f"{spec}:broad", spec, "broad handler scope", "`except Exception` in getitem may only protect `attr = str(argument)`", fi.loc(h))

    ctx.rule("R2", "render / generate (sync and async, native too) catch Exception only to re-raise via handle_exception; handle_exception raises the object rewrite_traceback_stack returns, which is the original exception with a new traceback")
    for spec in ("environment:Template.render", "environment:Template.render_async", "environment:Template.generate", "environment:Template.generate_async", "nativetypes:NativeTemplate.render", "nativetypes:NativeTemplate.render_async"):
        fi = repo.func(spec)
        hs = [h for h in ast.walk(fi.node) if isinstance(h, ast.ExceptHandler)]
        ok = len(hs) == 1 and handler_types(hs[0]) == {"Exception"} and reraises(hs[0])
        ctx.check(ok, spec, spec, "exception routing", f"{spec} must have exactly one handler, `except Exception`, that re-raises through environment.handle_exception()", fi.loc())
    he = repo.func("environment:Environment.handle_exception")
    rs = astq.raises(he.nnode)  # a local naming the rewritten exception is inlined
    ctx.check(len(rs) == 1 and ast.unparse(rs[0].exc) =="rewrite_traceback_stack(source=source)", "handle_exception", "environment:Environment.handle_exception", "raises the rewritten exception", "handle_exception must raise rewrite_traceback_stack(source=source)", he.loc())
    rt = repo.func("debug:rewrite_traceback_stack")
    s = ast.unparse(rt.node)
    ret = astq.returns(rt.node)
    ctx.check(len(ret) == 1 and ast.unparse(ret[0].value) == "exc_value.with_traceback(tb_next)" and "_, exc_value, tb = sys.exc_info()" in s, "rewrite_traceback_stack:same-object", "debug:rewrite_traceback_stack", "returns the active exception object",
              "rewrite_traceback_stack must return the exception currently being handled (sys.exc_info()[1]) with a rewritten traceback, never a new exception", rt.loc())
    asg = [n_ for n_ in ast.walk(rt.node) if isinstance(n_, ast.Assign) and any(isinstance(t_, ast.Name) and t_.id == "exc_value" for t_ in n_.targets)]
    ctx.check(all(ast.unparse(a.value) == "t.cast(BaseException, exc_value)" for a in asg), "rewrite_traceback_stack:not-replaced", "debug:rewrite_traceback_stack", "exception object never replaced", "exc_value must not be rebound to another object", rt.loc())

    # the traceback rewriting runs for every exception that leaves a render; what it builds for
    # the fake frames must be its own: Context.get_all() may return the live parent / vars dict
    # of a (memoised) template context, and writing the failing frame's locals into it changes
    # what later renders see
    gtl = repo.func("debug:get_template_locals")
    mutated: dict[str, ast.AST] = {}
    for n_ in ast.walk(gtl.node):
        if isinstance(n_, ast.Subscript) and isinstance(n_.ctx, (ast.Store, ast.Del)) and isinstance(n_.value, ast.Name):
            mutated.setdefault(n_.value.id, n_)
        if isinstance(n_, ast.Call) and isinstance(n_.func, ast.Attribute) and isinstance(n_.func.value, ast.Name) and n_.func.attr in ("pop", "update", "clear", "setdefault", "popitem", "append", "extend", "add"):
            mutated.setdefault(n_.func.value.id, n_)
    ctx.need(bool(mutated), "get_template_locals: the dict it fills was not found")
    for vn_, site in sorted(mutated.items()):
        ctx.check(astq.fresh_container(gtl.node, ast.Name(id=vn_, ctx=ast.Load())), f"get_template_locals:own:{vn_}", "debug:get_template_locals", f"`{vn_}` is modified but may be a dict of the live context",
                  f"get_template_locals modifies `{vn_}`, which is not a fresh dict on every path (Context.get_all() returns the context's own parent / vars dict when the other is empty): the locals of the failing frame are written into the live - possibly memoised - context and show up in later renders",
                  gtl.loc(site))

    ctx.rule("R3", "Context.call: the only handler catches StopIteration and protects only the call itself")
    cc = repo.func("runtime:Context.call")
    hs = [h for h in ast.walk(cc.node) if isinstance(h, ast.ExceptHandler)]
    ok = len(hs) == 1 and handler_types(hs[0]) == {"StopIteration"}
    tr = getattr(hs[0], "_parent", None) if hs else None
    ok = ok and isinstance(tr, ast.Try) and len(tr.body) == 1 and ast.unparse(tr.body[0]) == "return __obj(*args, **kwargs)"
    ctx.check(ok, "Context.call", "runtime:Context.call", "handler scope", "Context.call may catch only StopIteration, around `return __obj(*args, **kwargs)` only: anything broader hides exceptions raised by template callables", cc.loc())
    # `include ... ignore missing` swallows TemplateNotFound of the *lookup* only: the emitted
    # try holds nothing but the lookup, so a missing template inside the included one still
    # propagates (rule owned by C05)
    from . import c05

    ctx.run_imported("C05", {"R1"}, c05.check)
    return __doc__ or ""
