"""C20 - sandbox operator interception sees every intercepted operator application.

Decided statically: every interceptable operator (keys of default_binop_table /
default_unop_table) is compiled by a ``_make_binop`` / ``_make_unop`` visitor whose sandbox
branch emits ``environment.call_binop/unop(context, op, operands...)`` guarded by
``sandboxed and op in intercepted_*`` (and the plain form in the else branch); constant
folding of those operators goes through BinExpr/UnaryExpr.as_const, which refuses when the
operator is intercepted, and no operator node class overrides that ``as_const``; no other
visitor emits an arithmetic operator on template operands; the hook signatures match the
emitted arguments; operator key strings agree (C02.R2).  Not decided: values.
"""

from __future__ import annotations

import ast

from .. import astq
from ..cfg import guards_of
from ..core import Ctx


def check(ctx: Ctx) -> str:
    ctx.use("compiler", "nodes", "sandbox")
    repo = ctx.repo
    sb_bin = set(repo.const_map("sandbox:SandboxedEnvironment.default_binop_table"))
    sb_un = set(repo.const_map("sandbox:SandboxedEnvironment.default_unop_table"))
    cg = repo.cls("compiler:CodeGenerator")
    visitors: dict[str, tuple[str, str]] = {}
    for name, val in cg.assigns.items():
        if name.startswith("visit_") and isinstance(val, ast.Call) and astq.callee(val) in ("_make_binop", "_make_unop") and val.args and isinstance(val.args[0], ast.Constant):
            visitors[name[6:]] = (astq.callee(val), val.args[0].value.strip())

    ctx.rule("R1", "every interceptable operator is compiled by a _make_binop/_make_unop visitor; the maker's sandbox branch emits environment.call_binop/unop(context, op, ...) under `sandboxed and op in intercepted_*`, the plain operator otherwise")
    for op in sorted(sb_bin):
        ok = any(mk == "_make_binop" and o == op for mk, o in visitors.values())
        ctx.check(ok, f"binop:{op}", "compiler:CodeGenerator", f"binary {op}", f"interceptable operator {op!r} is not compiled through _make_binop: its applications never reach call_binop", cg.loc(), detail={"op": op})
    for op in sorted(sb_un):
        ok = any(mk == "_make_unop" and o == op for mk, o in visitors.values())
        ctx.check(ok, f"unop:{op}", "compiler:CodeGenerator", f"unary {op}", f"interceptable unary operator {op!r} is not compiled through _make_unop", cg.loc())
    for maker, hook, table, nargs in (("_make_binop", "call_binop", "intercepted_binops", 2), ("_make_unop", "call_unop", "intercepted_unops", 1)):
        fi = repo.func(f"compiler:{maker}")
        inner = [n for n in ast.walk(fi.node) if isinstance(n, ast.FunctionDef) and n is not fi.node]
        ctx.need(len(inner) == 1, f"{maker} inner visitor not found")
        v = inner[0]
        ctx.check(any(ast.unparse(d) == "optimizeconst" for d in v.decorator_list), f"{maker}:optimizeconst", f"compiler:{maker}", "fold through the optimizer", f"{maker}'s visitor is no longer wrapped by optimizeconst", fi.loc(v))
        ifs = [n for n in v.body if isinstance(n, ast.If)]
        ctx.check(len(ifs) == 1, f"{maker}:one-branch", f"compiler:{maker}", "single decision", "expected exactly one sandbox decision in the visitor", fi.loc(v))
        if not ifs:
            continue
        test_node = ifs[0].test
        if isinstance(test_node, ast.Name):  # a local naming the interception test
            src_ = [a for a in ast.walk(v) if isinstance(a, ast.Assign) and len(a.targets) == 1 and isinstance(a.targets[0], ast.Name) and a.targets[0].id == test_node.id]
            if len(src_) == 1:
                test_node = src_[0].value
        test = ast.unparse(test_node)
        ctx.check(test == f"self.environment.sandboxed and op in self.environment.{table}", f"{maker}:test", f"compiler:{maker}", "interception test",
                  f"the interception branch is taken under `{test}`; it must be `self.environment.sandboxed and op in self.environment.{table}`", fi.loc(ifs[0]), detail={"test": test})
        tw = [ast.unparse(c.args[0]) for c in astq.calls(ast.Module(body=ifs[0].body, type_ignores=[])) if astq.callee(c) == "self.write"]
        ow = [ast.unparse(c.args[0]) for c in astq.calls(ast.Module(body=ifs[0].orelse, type_ignores=[])) if astq.callee(c) == "self.write"]
        ctx.check(bool(tw) and tw[0] == f"f'environment.{hook}(context, {{op!r}}, '", f"{maker}:hook", f"compiler:{maker}", "hook call emitted",
                  f"the sandbox branch must start with environment.{hook}(context, op!r, ...; it writes {tw[:1]}", fi.loc(ifs[0]), detail={"writes": tw})
        tv = [ast.unparse(c.args[0]) for c in astq.calls(ast.Module(body=ifs[0].body, type_ignores=[])) if astq.callee(c) == "self.visit"]
        ov = [ast.unparse(c.args[0]) for c in astq.calls(ast.Module(body=ifs[0].orelse, type_ignores=[])) if astq.callee(c) == "self.visit"]
        want = ["node.left", "node.right"] if nargs == 2 else ["node.node"]
        ctx.check(tv == want and ov == want, f"{maker}:operands", f"compiler:{maker}", "operands", f"both branches must visit {want} in order (sandbox branch {tv}, plain branch {ov})", fi.loc(ifs[0]))
        ctx.check(not any("environment.call_" in w for w in ow), f"{maker}:plain", f"compiler:{maker}", "plain branch", "the non-intercepted branch must not route through the hook", fi.loc(ifs[0]))
        hk = repo.func(f"sandbox:SandboxedEnvironment.{hook}")
        ps = hk.params()
        ctx.check(len(ps) == 3 + nargs and ps[1] == "context" and ps[2] == "operator", f"{hook}:signature", f"sandbox:SandboxedEnvironment.{hook}", "hook signature", f"{hook}{tuple(ps)} does not match the emitted call (context, op, operands)", hk.loc())
        tab = "binop_table" if nargs == 2 else "unop_table"
        args = ", ".join(ps[3:])
        ctx.check(ast.unparse(astq.returns(hk.nnode)[0].value) == f"self.{tab}[operator]({args})", f"{hook}:default", f"sandbox:SandboxedEnvironment.{hook}", "default hook", f"the default {hook} must apply self.{tab}[operator] to the operands in order", hk.loc())

    ctx.rule("R2", "folding: BinExpr/UnaryExpr.as_const refuse (raise Impossible) when sandboxed and the operator is intercepted, before evaluating; no operator node class with an interceptable operator overrides as_const")
    for base, table in (("BinExpr", "intercepted_binops"), ("UnaryExpr", "intercepted_unops")):
        fi = repo.func(f"nodes:{base}.as_const")
        rs = [r for r in astq.raises(fi.node) if astq.raise_type(r).endswith("Impossible") and not astq.ancestors_handlers(r)]
        ok = False
        for r in rs:
            # a local that only names an attribute chain (`environment = eval_ctx.environment`) is looked through
            import re as _re

            subst = {a.targets[0].id: ast.unparse(a.value) for a in ast.walk(fi.node) if isinstance(a, ast.Assign) and len(a.targets) == 1 and isinstance(a.targets[0], ast.Name) and isinstance(a.value, ast.Attribute) and a.targets[0].id not in fi.params()}
            gs = []
            for g_, p_ in astq.guard_atoms(fi.node, r):
                for k_, v_ in subst.items():
                    g_ = _re.sub(rf"(?<![\w.]){k_}\b", v_, g_)
                gs.append((g_, p_))
            gs = sorted(gs)
            if gs == sorted([("eval_ctx.environment.sandboxed", True), (f"self.operator in eval_ctx.environment.{table}", True)]):
                ok = True
                # the evaluation lies on a path where the refusal did not fire (its early exit dominates the call)
                fold = [a for a in ast.walk(fi.node) if isinstance(a, ast.Assign) and "_to_func[self.operator]" in ast.unparse(a.value) and isinstance(a.targets[0], ast.Name)]
                fvar = fold[0].targets[0].id if len(fold) == 1 else "f"  # type: ignore[attr-defined]
                comp = [c for c in astq.calls(fi.node) if astq.callee(c) == fvar]
                ctx.check(bool(comp) and r.lineno < comp[0].lineno, f"{base}:order", f"nodes:{base}.as_const", "refusal precedes evaluation", "the interception refusal must come before the operator is applied", fi.loc(r))
        ctx.check(ok, f"{base}:refusal", f"nodes:{base}.as_const", "interception refusal", f"{base}.as_const no longer refuses to fold under `sandboxed and self.operator in {table}`: intercepted operators on constants are computed at compile time and never reach the hook", fi.loc())
    inter = sb_bin | sb_un
    for ci in repo.classes("nodes"):
        mro = [c.name for c in repo.mro(ci)]
        if not ({"BinExpr", "UnaryExpr"} & set(mro[1:])):
            continue
        r = repo.resolve_attr(ci, "operator")
        op = r[1].value if r is not None and isinstance(r[1], ast.Constant) else None
        if op in inter:
            own = "as_const" in ci.methods
            ctx.check(not own, f"{ci.name}:no-override", f"nodes:{ci.name}", "as_const override on an interceptable operator",
                      f"nodes.{ci.name} (operator {op!r}) overrides as_const: its folding bypasses the interception refusal of {mro[1]}.as_const", ci.loc(), detail={"class": ci.name, "operator": op})
    # other foldable nodes never apply an interceptable operator themselves
    for ci in repo.classes("nodes"):
        fn = ci.methods.get("as_const")
        if fn is None or ci.name in ("BinExpr", "UnaryExpr"):
            continue
        bad = [n for n in ast.walk(fn) if isinstance(n, ast.BinOp) and isinstance(n.op, (ast.Add, ast.Sub, ast.Mult, ast.Div, ast.FloorDiv, ast.Pow, ast.Mod))]
        bad += [n for n in ast.walk(fn) if isinstance(n, ast.UnaryOp) and isinstance(n.op, (ast.USub, ast.UAdd))]
        ctx.check(not bad, f"{ci.name}:no-arith", f"nodes:{ci.name}.as_const", "arithmetic inside a fold", f"{ci.name}.as_const applies an arithmetic operator directly (outside the interception guard)", ci.loc(fn))

    ctx.rule("R3", "no other compiler visitor emits an arithmetic operator between template operands")
    arith = [f" {op} " for op in sorted(sb_bin)]
    for name, fn in cg.methods.items():
        for c in astq.calls(fn):
            if astq.callee(c) in ("self.write", "self.writeline") and c.args and isinstance(c.args[0], ast.Constant) and isinstance(c.args[0].value, str):
                txt = c.args[0].value
                hit = [a for a in arith if txt == a]
                ctx.check(not hit, f"{name}:{txt!r}", f"compiler:CodeGenerator.{name}", f"emits {txt!r}", f"{name} emits the operator {txt!r} directly, outside _make_binop", f"src/jinja2/compiler.py:{c.lineno}") if hit else None
    ctx.ok("scan complete", trivial=True)
    ini = repo.func("sandbox:SandboxedEnvironment.__init__")
    s = ast.unparse(ini.node)
    ctx.check("self.binop_table = self.default_binop_table.copy()" in s and "self.unop_table = self.default_unop_table.copy()" in s, "tables:copied", "sandbox:SandboxedEnvironment.__init__", "per-environment tables", "the operator tables must be copied per environment", ini.loc())

    ctx.rule("R4", "every written operator becomes an operator node: in the parser levels of the interceptable operators the branch / loop taken on the operator token builds the node class unconditionally (no operand is special-cased into 'no operation'), so each application reaches the interception point")
    pu = repo.func("parser:Parser.parse_unary")
    for tok, cls in (("sub", "Neg"), ("add", "Pos")):
        # the node class is built for the token, and nothing but the token decides whether it
        # is built (no operand is special-cased) - however the two branches are arranged
        builds = [a for a in ast.walk(pu.node) if isinstance(a, ast.Assign) and ast.unparse(a.targets[0]) == "node" and isinstance(a.value, ast.Call) and astq.callee(a.value) == f"nodes.{cls}"]
        ctx.need(len(builds) >= 1, f"parse_unary no longer builds nodes.{cls}")
        ga = astq.guard_atoms(pu.node, builds[0])
        other_tok = "add" if tok == "sub" else "sub"
        on_token = (f"token_type == '{tok}'", True) in ga or ((f"token_type == '{other_tok}'", False) in ga and any("token_type" in g_ and p_ for g_, p_ in ga))
        foreign = [g_ for g_, p_ in ga if "token_type" not in g_]
        # every assignment to `node` on that token's path is the constructor (nothing replaces it)
        rivals = [a for a in ast.walk(pu.node) if isinstance(a, ast.Assign) and ast.unparse(a.targets[0]) == "node" and a not in builds and (f"token_type == '{tok}'", True) in astq.guard_atoms(pu.node, a) and not (isinstance(a.value, ast.Call) and astq.callee(a.value) == "self.parse_postfix")]
        ok = len(builds) == 1 and on_token and not foreign and not rivals
        ctx.check(ok, f"parse_unary:{tok}", "parser:Parser.parse_unary", f"unary {tok} does not always build nodes.{cls}",
                  f"parse_unary must turn every unary `{'-' if tok == 'sub' else '+'}` into nodes.{cls}(<operand>); the constructor is reached under {ga} (conditions besides the token: {foreign}; other values for the node on that path: {[ast.unparse(r_)[:50] for r_ in rivals]}): an application that produces no {cls} node is neither folded under the interception guard nor compiled to call_unop, so a sandbox intercepting the operator never sees it", pu.loc(builds[0]))
    for meth, toks in (("parse_math1", ("add", "sub")), ("parse_math2", ("mul", "div", "floordiv", "mod")), ("parse_pow", ("pow",))):
        fi = repo.func(f"parser:Parser.{meth}")
        loops = [n_ for n_ in ast.walk(fi.node) if isinstance(n_, ast.While)]
        ctx.need(len(loops) == 1, f"{meth}: operator loop not found")
        body = loops[0].body
        # `acc = <node class>(acc, <operand>)`: the accumulator is what the function returns
        rets_ = [ast.unparse(r_.value) for r_ in astq.returns(fi.node) if r_.value is not None]
        builds = [s_ for s_ in body if isinstance(s_, ast.Assign) and isinstance(s_.value, ast.Call) and len(s_.value.args) >= 2 and ast.unparse(s_.targets[0]) == ast.unparse(s_.value.args[0]) and ast.unparse(s_.targets[0]) in rets_]
        nested = [s_ for s_ in body if isinstance(s_, (ast.If, ast.Try, ast.Return, ast.Break, ast.Continue))]
        ok = len(builds) == 1 and not nested and ast.unparse(builds[0].value.args[1]) != ast.unparse(builds[0].value.args[0])
        ctx.check(ok, f"{meth}:builds", f"parser:Parser.{meth}", f"operator loop of {meth} does not always build the node",
                  f"{meth} must build <operator class>(left, right) for every operator token it consumes; loop body: {[ast.unparse(s_)[:50] for s_ in body]}", fi.loc(loops[0]))
    # an overlay with other options (autoescape, sandbox interception) must compile its own
    # templates: it starts with an empty cache (rule owned by C25)
    from . import c25

    ctx.run_imported("C25", {"R4"}, c25.check)
    # the optimizer folds every sub-expression with the eval context it was given - the
    # generic visitors forward their extra arguments, or the fold falls back to the parsing
    # environment and skips the interception refusal (rule shared with C08)
    from .c08 import visitor_forwarding_rule

    visitor_forwarding_rule(ctx, "R5")
    return __doc__ or ""
