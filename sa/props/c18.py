"""C18 - a sandboxed template never calls a callable the sandbox deems unsafe.

Decided statically: the compiler emits ``environment.call(context, ...)`` for *every* call
written in a template when the environment is sandboxed (the ``context.call(`` form is
emitted only under ``not sandboxed``, no other guard); SandboxedEnvironment.call tests
is_safe_callable before delegating and raises SecurityError otherwise; is_safe_callable reads
both markers; a who-may-call rule: library code reachable from a render invokes
``Context.call`` only on callables that are not template-controlled.
Also: no nodes.*.as_const calls a value obtained by folding a child (folding never runs a template-written callee).  
Not decided: calls made by data objects themselves.
"""

from __future__ import annotations

import ast

from .. import astq
from ..cfg import guards_of
from ..core import Ctx

# sites calling <context>.call(...) outside generated code: function -> why the callee is not template controlled
CONTEXT_CALL_OK = {
    ("sandbox", "SandboxedEnvironment.call"): "after the is_safe_callable check (R2)",
    ("ext", "_make_new_gettext.gettext"): "callee is the gettext callable installed by the application (closure variable)",
    ("ext", "_make_new_ngettext.ngettext"): "callee is the application's ngettext (closure variable)",
    ("ext", "_make_new_pgettext.pgettext"): "callee is the application's pgettext (closure variable)",
    ("ext", "_make_new_npgettext.npgettext"): "callee is the application's npgettext (closure variable)",
}


def check(ctx: Ctx) -> str:
    ctx.use("compiler", "sandbox", "runtime", "ext")
    repo = ctx.repo
    ctx.rule("R1", "visit_Call: the unchecked `context.call(` is written only under `not environment.sandboxed`; `environment.call(context, ` under `sandboxed`; no other condition decides")
    vc = repo.func("compiler:CodeGenerator.visit_Call")
    writes = [c for c in astq.calls(vc.node) if astq.callee(c) == "self.write" and c.args and isinstance(c.args[0], ast.Constant)]
    unchecked = [c for c in writes if c.args[0].value.startswith("context.call(")]
    checked = [c for c in writes if c.args[0].value.startswith("environment.call(context, ")]
    ctx.check(len(unchecked) == 1 and len(checked) == 1, "visit_Call:forms", "compiler:CodeGenerator.visit_Call", "call forms", f"expected one checked and one unchecked call form, found {len(checked)} / {len(unchecked)}", vc.loc())
    for c, want in [(x, ("self.environment.sandboxed", False)) for x in unchecked] + [(x, ("self.environment.sandboxed", True)) for x in checked]:
        gs = [(ast.unparse(g), pol) for g, pol in guards_of(c)]
        ctx.check(gs == [want], f"visit_Call:{c.args[0].value[:16]}", "compiler:CodeGenerator.visit_Call", f"guard of `{c.args[0].value}`",
                  f"`{c.args[0].value}` is emitted under {gs}; it must depend on environment.sandboxed alone - any extra condition lets some template call bypass is_safe_callable", vc.loc(c), detail={"guards": gs})
    # no other visitor writes a call of a template value
    cg = repo.cls("compiler:CodeGenerator")
    for name, fn in cg.methods.items():
        if name == "visit_Call":
            continue
        for c in astq.calls(fn):
            if astq.callee(c) in ("self.write", "self.writeline") and c.args:
                txt = ast.unparse(c.args[0])
                ctx.check("context.call(" not in txt, f"{name}:no-context.call", f"compiler:CodeGenerator.{name}", "context.call emitted elsewhere", f"{name} emits context.call( directly", f"src/jinja2/compiler.py:{c.lineno}", detail=None) if "context.call(" in txt else None
    # call blocks and filter/test arguments reuse visit_Call / signature
    cb = repo.func("compiler:CodeGenerator.visit_CallBlock")
    ctx.check("self.visit_Call(node.call, frame, forward_caller=True)" in ast.unparse(cb.node), "CallBlock:via visit_Call", "compiler:CodeGenerator.visit_CallBlock", "call block route", "call blocks must compile their call through visit_Call", cb.loc())

    ctx.rule("R2", "SandboxedEnvironment.call: raises SecurityError unless is_safe_callable(obj); only then delegates to context.call with the same object")
    sc = repo.func("sandbox:SandboxedEnvironment.call")
    rs = [r for r in astq.raises(sc.node) if astq.raise_type(r) == "SecurityError"]
    safe = "__self.is_safe_callable(__obj)"
    ok = len(rs) == 1 and [a for a in astq.guard_atoms(sc.node, rs[0]) if a[0] != "__debug__"] == [(safe, False)]
    ctx.check(ok, "call:guard", "sandbox:SandboxedEnvironment.call", "safety test", "SecurityError must be raised exactly when not is_safe_callable(__obj)", sc.loc())
    rets = astq.returns(sc.node)
    ok = len(rets) == 1 and ast.unparse(rets[0].value) == "__context.call(__obj, *args, **kwargs)"
    ctx.check(ok, "call:delegate", "sandbox:SandboxedEnvironment.call", "delegation", "the checked object (and no other) must be passed on to context.call", sc.loc())
    if rets and rs:
        # the call happens only on the path where the test succeeded (whichever branch is written first)
        ctx.check((safe, True) in astq.guard_atoms(sc.node, rets[0]), "call:order", "sandbox:SandboxedEnvironment.call", "check before call", "the call must lie on the path where is_safe_callable(__obj) held", sc.loc())

    ctx.rule("R4", "is_safe_callable rejects objects marked unsafe_callable or alters_data")
    isc = repo.func("sandbox:SandboxedEnvironment.is_safe_callable")
    rets = astq.returns(isc.node)
    # truth table of the whole function body (however it is split into ifs / returns)
    tb_ = astq.bool_table(isc.node, ["getattr(obj, 'unsafe_callable', False)", "getattr(obj, 'alters_data', False)"])
    ok = bool(rets) and all(v == (not (u or a)) for (u, a), v in tb_.items())
    ctx.check(ok, "is_safe_callable", "sandbox:SandboxedEnvironment.is_safe_callable", "formula", f"is_safe_callable returns `{ast.unparse(rets[0].value) if rets else None}`: it must be false when unsafe_callable or alters_data is set", isc.loc())
    # the marks are read from the object the template is about to call - not from something
    # derived from it (an unwrapped / underlying function carries other marks)
    rebinds = [a for a in ast.walk(isc.node) if isinstance(a, (ast.Assign, ast.AugAssign, ast.AnnAssign)) and any(isinstance(t_, ast.Name) and t_.id == "obj" for t_ in (a.targets if isinstance(a, ast.Assign) else [a.target]))]
    reads = [c for c in astq.calls(isc.node) if astq.callee(c) == "getattr" and len(c.args) >= 2 and isinstance(c.args[1], ast.Constant) and c.args[1].value in ("unsafe_callable", "alters_data")]
    ctx.check(not rebinds and len(reads) == 2 and all(isinstance(c.args[0], ast.Name) and c.args[0].id == "obj" for c in reads), "is_safe_callable:object", "sandbox:SandboxedEnvironment.is_safe_callable", f"marks read from {[ast.unparse(c.args[0]) for c in reads]}, obj rebound {len(rebinds)}x",
              f"is_safe_callable must read unsafe_callable / alters_data from the callable itself; here `obj` is rebound ({[ast.unparse(r)[:50] for r in rebinds]}) or the marks are read from {[ast.unparse(c.args[0]) for c in reads]}: a mark set on a decorated wrapper (`@unsafe` above another decorator, `f.alters_data = True` after decoration) is then ignored and the callable runs", isc.loc())
    un = repo.func("sandbox:unsafe")
    ctx.check("f.unsafe_callable = True" in ast.unparse(un.node), "unsafe decorator", "sandbox:unsafe", "marker", "the @unsafe decorator must set unsafe_callable = True", un.loc())

    ctx.rule("R3", "who-may-call: library code calls Context.call only with callees that are not template controlled (not a value resolved from the render context)")
    n = 0
    for mod in ("ext", "filters", "tests", "runtime", "utils", "sandbox", "environment", "nativetypes"):
        m = repo.module(mod)
        for c in astq.calls(m.tree):
            if not (isinstance(c.func, ast.Attribute) and c.func.attr == "call"):
                continue
            recv = ast.unparse(c.func.value)
            if "context" not in recv.lower():
                continue
            n += 1
            q = astq.enclosing_qual(c)
            arg0 = ast.unparse(c.args[0]) if c.args else ""
            def _t(txt: str) -> bool:
                return ".resolve(" in txt or ".resolve_or_missing(" in txt or "context[" in txt or ".get(" in txt or ".vars" in txt or ".parent" in txt

            tainted = _t(arg0)
            fn = astq.stmt_of(c)
            encl = c
            while encl is not None and not isinstance(encl, (ast.FunctionDef, ast.AsyncFunctionDef)):
                encl = getattr(encl, "_parent", None)
            if not tainted and encl is not None and c.args and isinstance(c.args[0], ast.Name):
                for vals in [v for k, v in astq.assigned_names(encl).items() if k == c.args[0].id]:
                    tainted = tainted or any(_t(ast.unparse(v)) for v in vals)
            ok = (mod, q) in CONTEXT_CALL_OK and not tainted
            if tainted and encl is not None:
                # a context-resolved callee may be called unchecked only when the environment
                # is not sandboxed; the sandboxed path must go through environment.call
                unsandboxed = any(g.endswith("sandboxed") and not pol for g, pol in astq.guard_texts(encl, c))
                via_env = any(astq.callee(x).endswith("environment.call") and any(g.endswith("sandboxed") and pol for g, pol in astq.guard_texts(encl, x)) for x in astq.calls(encl))
                ok = unsandboxed and via_env
            # a sandbox aware route is fine: environment.call(context, obj)
            ctx.check(ok, f"{mod}:{q}", f"{mod}:{q}", f"{recv}.call({arg0[:40]})",
                      f"{mod}.{q} invokes {recv}.call({arg0}) - the callee is looked up from the render context, which a template can rebind (`{{% set gettext = obj.unsafe_method %}}`): the call bypasses SandboxedEnvironment.is_safe_callable",
                      f"{m.rel}:{c.lineno}", detail={"site": f"{mod}:{q}", "callee": arg0})
    ctx.floor("Context.call sites in library code", n, 5)
    ctx.rule("R5", "compile-time folding never invokes a template-written callee: in every nodes.*.as_const no call has a callee computed from a folded child (`x.as_const(...)`) - such a call would run while compiling, outside environment.call / is_safe_callable")
    nf = 0
    for ci in repo.classes("nodes"):
        fn = ci.methods.get("as_const")
        if fn is None:
            continue
        nf += 1
        folded: set[str] = set()
        changed = True
        while changed:
            changed = False
            for a in ast.walk(fn):
                if isinstance(a, (ast.Assign, ast.AnnAssign)) and a.value is not None:
                    src = a.value
                    hit = any((isinstance(x, ast.Attribute) and x.attr == "as_const") or (isinstance(x, ast.Name) and x.id in folded) for x in ast.walk(src))
                    if hit:
                        tg = a.targets if isinstance(a, ast.Assign) else [a.target]
                        for t_ in tg:
                            for x in ast.walk(t_):
                                if isinstance(x, ast.Name) and x.id not in folded:
                                    folded.add(x.id)
                                    changed = True
        bad = []
        for c in astq.calls(fn):
            f_ = c.func
            root = f_
            while isinstance(root, (ast.Attribute, ast.Subscript)):
                root = root.value
            if isinstance(f_, ast.Attribute) and f_.attr == "as_const":
                continue
            if (isinstance(root, ast.Name) and root.id in folded) or (isinstance(root, ast.Call) and isinstance(root.func, ast.Attribute) and root.func.attr == "as_const"):
                bad.append(c)
        ctx.check(not bad, f"{ci.name}:no-call", f"nodes:{ci.name}.as_const", "call of a folded value" if bad else "no call of a folded value",
                  f"{ci.name}.as_const calls `{ast.unparse(bad[0].func) if bad else ''}`, a value obtained by folding a child of the node: the callee is written in the template (`{{{{ obj.method() }}}}` with constant receiver) and runs at compile time without SandboxedEnvironment.call - is_safe_callable never sees it",
                  f"{ci.module.rel}:{(bad[0] if bad else fn).lineno}")
    ctx.floor("nodes.*.as_const definitions", nf, 15)
    call_fold = repo.resolve_method(repo.cls("nodes:Call"), "as_const")
    ctx.check(call_fold is not None, "Call:as_const-resolves", "nodes:Call", "as_const", "nodes.Call must inherit an as_const", repo.cls("nodes:Call").loc())
    from ..emitrules import c18_skeleton_rules

    c18_skeleton_rules(ctx)
    return __doc__ or ""


def _formula_ok(e: ast.expr | None) -> bool:
    if e is None:
        return False

    def ev(x: ast.expr, u: bool, a: bool) -> bool | None:
        if isinstance(x, ast.UnaryOp) and isinstance(x.op, ast.Not):
            v = ev(x.operand, u, a)
            return None if v is None else not v
        if isinstance(x, ast.BoolOp):
            vs = [ev(v, u, a) for v in x.values]
            if any(v is None for v in vs):
                return None
            return all(vs) if isinstance(x.op, ast.And) else any(vs)
        t_ = ast.unparse(x)
        if t_ == "getattr(obj, 'unsafe_callable', False)":
            return u
        if t_ == "getattr(obj, 'alters_data', False)":
            return a
        if isinstance(x, ast.Constant) and isinstance(x.value, bool):
            return x.value
        if isinstance(x, ast.IfExp):
            c = ev(x.test, u, a)
            return None if c is None else ev(x.body if c else x.orelse, u, a)
        return None

    def run(body: list[ast.stmt], u: bool, a: bool) -> bool | None:
        """Value returned by a body made of if / return statements under the valuation."""
        for st in body:
            if isinstance(st, ast.Expr) and isinstance(st.value, ast.Constant):
                continue  # docstring
            if isinstance(st, ast.Return):
                return ev(st.value, u, a) if st.value is not None else None
            if isinstance(st, ast.If):
                c = ev(st.test, u, a)
                if c is None:
                    return None
                r = run(st.body if c else st.orelse, u, a)
                if r is not None or (st.body if c else st.orelse):
                    if r is not None:
                        return r
                continue
            return None
        return None

    if isinstance(e, (ast.FunctionDef, ast.AsyncFunctionDef)):
        return all(run(e.body, u, a) == (not (u or a)) for u in (True, False) for a in (True, False))
    return all(ev(e, u, a) == (not (u or a)) for u in (True, False) for a in (True, False))
