"""C27 - the bytecode cache never yields stale code and tolerates interrupted writes.

Decided statically: in Bucket.load_bytecode every deserialising call lies in a ``try`` that
covers its raise set and reaches ``reset()``; ``self.code`` is only assigned on paths where
the magic and the checksum matched, every other path resets; the bucket identity (key /
checksum) depends on the loading environment's configuration (def-use slice from the
``environment`` parameter of get_bucket); the file-system writer uses a temp file in the
target directory + os.replace and removes the temp file on every exceptional path; the magic
contains the cache version and the interpreter version; the memcached back end honours
ignore_memcache_errors on both paths; BaseLoader.load stores a bucket only when it was empty.
Also: the cache key always contains the template name; an entry written in place is a violation.  
Also: the bucket key has a def-use path from name and filename; no glob / fnmatch pattern is built from the cache directory.  
Not decided: crash points of the file system itself, histories.
"""

from __future__ import annotations

import ast

from .. import astq
from ..cfg import CFG
from ..cfg import catches
from ..cfg import enclosing_try
from ..cfg import handler_types
from ..core import Ctx

LOAD_RAISES = {
    "pickle.load": ["EOFError", "pickle.UnpicklingError"],
    "marshal.load": ["EOFError", "ValueError", "TypeError"],
}


def check(ctx: Ctx) -> str:
    ctx.use("bccache", "loaders")
    repo = ctx.repo
    lb = repo.func("bccache:Bucket.load_bytecode")
    ctx.rule("R1", "Bucket.load_bytecode: every deserialising call lies in a try whose handlers cover its raise set and whose handler calls reset()")
    loads = [c for c in astq.calls(lb.node) if astq.callee(c) in LOAD_RAISES]
    ctx.floor("deserialising calls", len(loads), 2)
    for c in loads:
        name = astq.callee(c)
        for exc in LOAD_RAISES[name]:
            ok = False
            for tr, part in enclosing_try(c):
                if part != "body":
                    continue
                for h in tr.handlers:
                    if catches(handler_types(h), exc):
                        ok = any(astq.callee(x) == "self.reset" for x in astq.calls(h))
                        break
                if ok:
                    break
            ctx.check(ok, f"{name}:{exc}", "bccache:Bucket.load_bytecode", f"{name} may raise {exc}",
                      f"{name}(f) raises {exc} on a truncated or foreign entry and no handler resets the bucket: loading a template raises instead of treating the entry as a miss",
                      lb.loc(c), detail={"call": name, "exception": exc})

    ctx.rule("R6", "acceptance path condition: self.code is assigned only after magic == bc_magic and checksum == self.checksum held; every rejecting path resets")
    cfg = CFG(lb.node)
    assigns = [n for n in ast.walk(lb.node) if isinstance(n, ast.Assign) and ast.unparse(n.targets[0]) == "self.code"]
    ctx.need(len(assigns) >= 1, "load_bytecode no longer assigns self.code")
    tests = [n for n in cfg.nodes if n.kind == "test" and isinstance(n.stmt, ast.If)]
    magic_t = [n for n in tests if "bc_magic" in ast.unparse(n.stmt.test)]  # type: ignore[union-attr]
    sum_t = [n for n in tests if "checksum" in ast.unparse(n.stmt.test)]  # type: ignore[union-attr]
    ctx.need(magic_t and sum_t, "magic / checksum tests not found in load_bytecode")

    def mismatch_edge(tn, text_eq: bool):  # type: ignore[no-untyped-def]
        """label of the edge on which the compared values DIFFER."""
        t_ = tn.stmt.test
        if isinstance(t_, ast.Compare) and len(t_.ops) == 1:
            if isinstance(t_.ops[0], ast.NotEq):
                return True
            if isinstance(t_.ops[0], ast.Eq):
                return False
        return None

    for a in assigns:
        an = cfg.node_of(a)
        for tn, what in ((magic_t[0], "magic"), (sum_t[0], "checksum")):
            pol = mismatch_edge(tn, True)
            ctx.need(pol is not None, f"{what} test is not a simple ==/!= comparison")
            r = cfg.reachable(cfg.entry, skip_edge=lambda n, m_, lab, tn=tn, pol=pol: n is tn and isinstance(lab, tuple) and lab[0] is tn and lab[1] != pol)
            # after deleting the *match* edge only mismatch paths remain: the assignment must be unreachable
            ctx.check(an is not None and an.id not in r, f"accept-after:{what}", "bccache:Bucket.load_bytecode", f"self.code assigned without {what} match",
                      f"self.code can be assigned on a path where the {what} comparison failed: stale or foreign bytecode is accepted", lb.loc(a))
    for tn, what in ((magic_t[0], "magic"), (sum_t[0], "checksum")):
        pol = mismatch_edge(tn, True)
        body = tn.stmt.body if pol else tn.stmt.orelse  # type: ignore[union-attr]
        ok = any(astq.callee(c) == "self.reset" for s in body for c in astq.calls(s)) and any(isinstance(s, ast.Return) for s in body)
        ctx.check(ok, f"reject:{what}", "bccache:Bucket.load_bytecode", f"{what} mismatch path", f"a {what} mismatch must reset the bucket and return", lb.loc(tn.stmt))
    # the compared quantities: magic is read with len(bc_magic), checksum compared to self.checksum
    s = ast.unparse(lb.node)
    ctx.check("f.read(len(bc_magic))" in s, "magic:read", "bccache:Bucket.load_bytecode", "magic read length", "the magic header is no longer read with len(bc_magic)", lb.loc())
    ctx.check("self.checksum" in ast.unparse(sum_t[0].stmt.test), "checksum:self", "bccache:Bucket.load_bytecode", "checksum compared to the bucket's", "the stored checksum is no longer compared with self.checksum", lb.loc())
    # writer / reader layout agree
    wb = repo.func("bccache:Bucket.write_bytecode")
    order = [astq.callee(c) for c in astq.calls(wb.node) if astq.callee(c) in ("f.write", "pickle.dump", "marshal.dump")]
    order.sort(key=lambda x: 0)
    wcalls = sorted([c for c in astq.calls(wb.node) if astq.callee(c) in ("f.write", "pickle.dump", "marshal.dump")], key=lambda c: (c.lineno, c.col_offset))
    rcalls = sorted([c for c in astq.calls(lb.node) if astq.callee(c) in ("f.read", "pickle.load", "marshal.load")], key=lambda c: (c.lineno, c.col_offset))
    ctx.check([astq.callee(c) for c in wcalls] == ["f.write", "pickle.dump", "marshal.dump"] and [astq.callee(c) for c in rcalls] == ["f.read", "pickle.load", "marshal.load"], "layout", "bccache:Bucket.write_bytecode", "entry layout",
              "writer and reader disagree on the entry layout magic | pickled checksum | marshalled code", wb.loc(), detail={"writer": [astq.callee(c) for c in wcalls], "reader": [astq.callee(c) for c in rcalls]})
    ctx.check(ast.unparse(wcalls[0].args[0]) == "bc_magic" and ast.unparse(wcalls[1].args[0]) == "self.checksum" and ast.unparse(wcalls[2].args[0]) == "self.code" if len(wcalls) == 3 else False,
              "layout:args", "bccache:Bucket.write_bytecode", "written values", "the writer must store bc_magic, self.checksum, self.code in that order", wb.loc())

    ctx.rule("R2", "bucket identity depends on the loading environment: the key or checksum computed in get_bucket has a def-use path from the `environment` parameter")
    gb = repo.func("bccache:BytecodeCache.get_bucket")
    dep = _depends_on(gb.node, "environment", ("key", "checksum"))
    # passing the environment to Bucket(...) only stores it; identity = key + checksum
    ctx.check(dep, "identity", "bccache:BytecodeCache.get_bucket", "cache identity ignores the environment",
              "the cache key and checksum are computed from name, filename and source only: two environments with different configuration (delimiters, extensions, async, optimizer, autoescape) sharing a cache load each other's bytecode",
              gb.loc(), detail={"key_from": "get_cache_key(name, filename)", "checksum_from": "get_source_checksum(source)"})
    gk = repo.func("bccache:BytecodeCache.get_cache_key")
    s = ast.unparse(gk.node)
    ctx.check("name.encode(" in s and "filename" in s, "key:inputs", "bccache:BytecodeCache.get_cache_key", "key inputs", "the cache key must depend on the template name and file name", gk.loc())
    # the name is part of the key on every path: the compiled code embeds the template name
    # (relative includes / imports resolve against it), so two names for one file are two entries
    nm_rebinds = [a for a in ast.walk(gk.node) if isinstance(a, (ast.Assign, ast.AugAssign, ast.AnnAssign)) and any(isinstance(t_, ast.Name) and t_.id == "name" for t_ in (a.targets if isinstance(a, ast.Assign) else [a.target]))]
    digest_in = [c.args[0] for c in astq.calls(gk.node) if astq.callee(c) in ("sha1", "hashlib.sha1", "sha256", "hashlib.sha256") and c.args]
    name_first = bool(digest_in) and all(any(isinstance(x, ast.Name) and x.id == "name" for x in ast.walk(d_)) for d_ in digest_in)
    upd = [c for c in astq.calls(gk.node) if (astq.attr_tail(c) == "update" or astq.callee(c) in ("sha1", "hashlib.sha1", "sha256", "hashlib.sha256")) and c.args and "filename" in ast.unparse(c.args[0])]
    ctx.check(name_first and not nm_rebinds and bool(upd), "key:name-and-filename", "bccache:BytecodeCache.get_cache_key", "the key does not always contain the template name",
              f"get_cache_key must hash the template name unconditionally and add the file name when there is one (name rebound {len(nm_rebinds)}x, digest inputs {[ast.unparse(d) for d in digest_in]}): with the name dropped, two template names resolving to one file share one bytecode entry, and the second renders with the first one's name (relative includes, `{{{{ self }}}}`)",
              gk.loc(), detail={"digest_inputs": [ast.unparse(d) for d in digest_in], "name_rebound": len(nm_rebinds)})
    gs = repo.func("bccache:BytecodeCache.get_source_checksum")
    ctx.check("source.encode(" in ast.unparse(gs.node), "checksum:inputs", "bccache:BytecodeCache.get_source_checksum", "checksum inputs", "the checksum must be computed from the current source", gs.loc())
    # injectivity up to the hash: the digest input is the source parameter itself, encoded -
    # any normalisation applied first makes distinct sources share a checksum, and stale
    # bytecode is accepted for an edited template
    rebinds = [a for a in ast.walk(gs.node) if isinstance(a, (ast.Assign, ast.AugAssign, ast.AnnAssign)) and any(isinstance(t_, ast.Name) and t_.id == "source" for t_ in (a.targets if isinstance(a, ast.Assign) else [a.target]))]
    hashed = [c.args[0] for c in astq.calls(gs.nnode) if astq.callee(c) in ("sha1", "hashlib.sha1", "sha256", "hashlib.sha256") and c.args]  # a local naming the encoded text is inlined
    hashed += [c.args[0] for c in astq.calls(gs.nnode) if astq.attr_tail(c) == "update" and c.args]
    exact = bool(hashed) and all(isinstance(h, ast.Call) and isinstance(h.func, ast.Attribute) and h.func.attr == "encode" and isinstance(h.func.value, ast.Name) and h.func.value.id == "source" for h in hashed)
    ctx.check(exact and not rebinds, "checksum:exact-source", "bccache:BytecodeCache.get_source_checksum", f"digest input {[ast.unparse(h) for h in hashed]}, source rebound {len(rebinds)}x",
              f"the checksum must hash the unmodified source (`source.encode(...)`); found digest inputs {[ast.unparse(h) for h in hashed]} and {len(rebinds)} rebinding(s) of `source` ({[ast.unparse(r)[:60] for r in rebinds]}): sources that differ only in what the normalisation removes share a checksum, so the bytecode of the old source is loaded for the new one",
              gs.loc(), detail={"hashed": [ast.unparse(h) for h in hashed]})
    gbs = ast.unparse(gb.node)
    ctx.check("self.get_source_checksum(source)" in gbs and "self.load_bytecode(bucket)" in gbs, "get_bucket:current-source", "bccache:BytecodeCache.get_bucket", "checksum of current source",
              "get_bucket must checksum the *current* source and then load", gb.loc())

    bucket_key_inputs_rule(ctx, "R8")

    ctx.rule("R9", "the cache directory is a path, never a pattern: no glob / fnmatch *pattern* argument in bccache is built from self.directory (clear() lists the directory and filters the names)")
    bm = repo.module("bccache")
    n_g = 0
    for c in astq.calls(bm.tree):
        f_ = astq.callee(c)
        pat_args: list[ast.AST] = []
        if f_ in ("glob.glob", "glob.iglob", "glob", "iglob"):
            pat_args = list(c.args[:1]) + [k.value for k in c.keywords if k.arg == "pathname"]
        elif f_ in ("fnmatch.filter", "fnmatch.fnmatch", "fnmatch.fnmatchcase"):
            pat_args = list(c.args[1:2])
        elif astq.attr_tail(c) in ("glob", "rglob") and isinstance(c.func, ast.Attribute):
            pat_args = [c.func.value]
        if not pat_args:
            continue
        n_g += 1
        q = astq.enclosing_qual(c)
        tainted = any("directory" in ast.unparse(a_) for a_ in pat_args)
        ctx.check(not tainted, f"pattern:{q}:{f_}", f"bccache:{q}", f"`{ast.unparse(c)[:70]}` matches the directory as a pattern" if tainted else "pattern without the directory",
                  f"{q} builds a glob pattern from the cache directory (`{ast.unparse(c)[:90]}`): with a directory named e.g. `bytecode[v2]` the pattern matches nothing, clear() silently removes no entry and stale bytecode keeps being served",
                  f"{bm.rel}:{c.lineno}")
    ctx.floor("pattern matching calls in bccache", n_g, 1)
    # a template built from cached bytecode is built like one compiled from source: same
    # arguments, in particular the loader's uptodate callable (rule owned by C25)
    from . import c25

    ctx.run_imported("C25", {"R3"}, c25.check)

    ctx.rule("R3", "FileSystemBytecodeCache.dump_bytecode: temp file in the target directory, os.replace onto the final name, remove_silent on every exceptional path")
    db = repo.func("bccache:FileSystemBytecodeCache.dump_bytecode")
    tf = [c for c in astq.calls(db.node) if astq.callee(c).endswith("NamedTemporaryFile")]
    if len(tf) != 1:
        # no temp file at all: the entry is (over)written in place
        opens = [ast.unparse(c)[:60] for c in astq.calls(db.node) if astq.callee(c) in ("open", "os.open", "os.fdopen", "io.open")]
        ctx.check(False, "tmp:present", "bccache:FileSystemBytecodeCache.dump_bytecode", "cache entry written in place",
                  f"dump_bytecode writes the entry without a temporary file + os.replace ({opens}): a write interrupted after the header leaves a file whose magic and (new) source checksum are valid but whose code is missing or - when the old entry is overlaid without truncation - belongs to the previous source, and the next load accepts it", db.loc())
        return __doc__ or ""
    # the final file name is the local bound to self._get_cache_filename(bucket) (any name);
    # locals that only name os.path.dirname / basename of it are looked through
    fin = [a for a in ast.walk(db.node) if isinstance(a, ast.Assign) and ast.unparse(a.value) == "self._get_cache_filename(bucket)" and isinstance(a.targets[0], ast.Name)]
    fname = fin[0].targets[0].id if len(fin) == 1 else "name"  # type: ignore[attr-defined]

    def _thru(e: ast.AST) -> str:
        if isinstance(e, ast.Name) and e.id != fname:
            src_ = [a for a in ast.walk(db.node) if isinstance(a, ast.Assign) and len(a.targets) == 1 and isinstance(a.targets[0], ast.Name) and a.targets[0].id == e.id]
            if len(src_) == 1:
                return ast.unparse(src_[0].value)
        return ast.unparse(e)

    kw = {k.arg: _thru(k.value) for k in tf[0].keywords}
    ctx.check(kw.get("dir") == f"os.path.dirname({fname})" and kw.get("delete") == "False", "tmp:dir", "bccache:FileSystemBytecodeCache.dump_bytecode", "temp file placement",
              f"the temp file must be created in the cache directory with delete=False (got dir={kw.get('dir')}, delete={kw.get('delete')}): os.replace across file systems is not atomic", db.loc(tf[0]), detail=kw)
    rep = [c for c in astq.calls(db.node) if astq.callee(c) in ("os.replace", "os.rename")]
    tfp = getattr(tf[0], "_parent", None)
    tfv = tfp.targets[0].id if isinstance(tfp, ast.Assign) and isinstance(tfp.targets[0], ast.Name) else "f"  # the local holding the temp file, whatever its name
    ctx.check(len(rep) == 1 and astq.callee(rep[0]) == "os.replace" and [ast.unparse(a) for a in rep[0].args] == [f"{tfv}.name", fname], "replace", "bccache:FileSystemBytecodeCache.dump_bytecode", "atomic publish",
              "the entry must be published with os.replace(f.name, name)", db.loc())
    trys = [n for n in ast.walk(db.node) if isinstance(n, ast.Try) and astq.enclosing_qual(n).endswith("dump_bytecode")]
    ctx.floor("try statements in dump_bytecode", len(trys), 2)
    for i, tr in enumerate(sorted(trys, key=lambda n: n.lineno)):
        hs = set()
        for h in tr.handlers:
            hs |= handler_types(h)
            cleans = any(astq.callee(c) == "remove_silent" for c in astq.calls(h))
            ctx.check(cleans, f"try{i}:{sorted(handler_types(h))}", "bccache:FileSystemBytecodeCache.dump_bytecode", f"handler {sorted(handler_types(h))} cleanup", "an exceptional path after the temp file was created does not remove it", db.loc(h))
            if "BaseException" in handler_types(h):
                ctx.check(any(isinstance(x, ast.Raise) and x.exc is None for x in ast.walk(h)), f"try{i}:reraise", "bccache:FileSystemBytecodeCache.dump_bytecode", "BaseException re-raised", "a BaseException handler must re-raise", db.loc(h))
        ctx.check("BaseException" in hs, f"try{i}:base", "bccache:FileSystemBytecodeCache.dump_bytecode", f"try {i} covers BaseException", "interruption (KeyboardInterrupt, SystemExit, cancellation) between temp-file creation and publish leaves the temp file behind", db.loc(tr))
    wr = [c for c in astq.calls(db.node) if astq.callee(c) == "bucket.write_bytecode"]
    ctx.check(len(wr) == 1 and [ast.unparse(a) for a in wr[0].args] == [tfv] and any(p == "body" for _, p in enclosing_try(wr[0])), "write:in-try", "bccache:FileSystemBytecodeCache.dump_bytecode", "write inside try", "bucket.write_bytecode(f) must run inside the guarded region", db.loc())
    lbf = repo.func("bccache:FileSystemBytecodeCache.load_bytecode")
    hs2 = set()
    for h in [n for n in ast.walk(lbf.node) if isinstance(n, ast.ExceptHandler)]:
        hs2 |= handler_types(h)
    ctx.check(catches(hs2, "FileNotFoundError"), "fs-load:missing", "bccache:FileSystemBytecodeCache.load_bytecode", "missing file is a miss", "a missing cache file must be treated as a miss", lbf.loc())

    ctx.rule("R4", "bc_magic contains the cache format version and the interpreter version")
    m, node = repo.const_node("bccache:bc_magic")
    s = ast.unparse(node)
    ctx.check("bc_version" in s and "sys.version_info[0]" in s and "sys.version_info[1]" in s, "magic", "bccache:<module>", "bc_magic contents", "bc_magic must include bc_version and both interpreter version components (marshal data is version specific)", "src/jinja2/bccache.py", detail={"bc_magic": s})

    ctx.rule("R5", "memcached back end: get and set failures are ignored exactly when ignore_memcache_errors is set; a hit is deserialised through the validating path")
    for meth, call in (("load_bytecode", "self.client.get"), ("dump_bytecode", "self.client.set")):
        fi = repo.func(f"bccache:MemcachedBytecodeCache.{meth}")
        cs = [c for c in astq.calls(fi.node) if astq.callee(c) == call]
        ctx.need(cs, f"{call} call not found")
        for c in cs:
            ok = False
            for tr, part in enclosing_try(c):
                if part == "body":
                    for h in tr.handlers:
                        if catches(handler_types(h), "Exception"):
                            rr = [x for x in ast.walk(h) if isinstance(x, ast.Raise)]
                            ok = bool(rr) and all(any((g == "not self.ignore_memcache_errors" and pol) or (g == "self.ignore_memcache_errors" and not pol) for g, pol in astq.guard_texts(fi.node, x)) for x in rr)
            ctx.check(ok, f"{meth}:{call}", f"bccache:MemcachedBytecodeCache.{meth}", "error policy", f"errors of {call} must be re-raised exactly when ignore_memcache_errors is false", fi.loc(c))
    ml = repo.func("bccache:MemcachedBytecodeCache.load_bytecode")
    ctx.check("bucket.bytecode_from_string(code)" in ast.unparse(ml.node), "memcached:validate", "bccache:MemcachedBytecodeCache.load_bytecode", "validating load", "a memcached hit must go through bucket.bytecode_from_string (magic/checksum validation)", ml.loc())

    ctx.rule("R7", "BaseLoader.load: bytecode is looked up with the current source, compiled when absent, and stored only when the bucket was empty")
    ld = repo.func("loaders:BaseLoader.load")
    s = ast.unparse(ld.node)
    ctx.check("bcc.get_bucket(environment, name, filename, source)" in s, "load:get_bucket", "loaders:BaseLoader.load", "bucket lookup arguments", "get_bucket must receive (environment, name, filename, source) of the current load", ld.loc())
    comp = [c for c in astq.calls(ld.node) if astq.callee(c) == "environment.compile"]
    ctx.check(len(comp) == 1 and any("code is None" in g and pol for g, pol in astq.guard_texts(ld.node, comp[0])), "load:compile-when-miss", "loaders:BaseLoader.load", "compile on miss", "the source must be compiled whenever the cache yielded no code", ld.loc())
    sb = [c for c in astq.calls(ld.node) if astq.callee(c) == "bcc.set_bucket"]
    ctx.check(len(sb) == 1 and any("bucket.code is None" in g and pol for g, pol in astq.guard_texts(ld.node, sb[0])), "load:store-when-empty", "loaders:BaseLoader.load", "store on miss", "the compiled code must be stored exactly when the bucket was empty", ld.loc())
    return __doc__ or ""


def bucket_key_inputs_rule(ctx: Ctx, rid: str) -> None:
    """The key handed to Bucket(...) in get_bucket depends on both the template name and the
    file name (shared with C35: cached code carries the file name tracebacks report)."""
    ctx.rule(rid, "get_bucket: the key of the bucket has a def-use path from both `name` and `filename` (code objects embed the file name: a key without it hands one template the code - and the traceback file name - of another)")
    gb = ctx.repo.func("bccache:BytecodeCache.get_bucket")
    mk = [c for c in astq.calls(gb.node) if astq.callee(c) == "Bucket"]
    ctx.need(len(mk) == 1 and len(mk[0].args) >= 2, "get_bucket: the Bucket(...) construction was not found")
    deps: dict[str, set[str]] = {}
    for n in ast.walk(gb.node):
        if isinstance(n, (ast.Assign, ast.AnnAssign)) and n.value is not None:
            for t_ in (n.targets if isinstance(n, ast.Assign) else [n.target]):
                if isinstance(t_, ast.Name):
                    deps.setdefault(t_.id, set()).update(astq.names_in(n.value))
    reach = set(astq.names_in(mk[0].args[1]))
    todo = list(reach)
    while todo:
        for y in deps.get(todo.pop(), ()):
            if y not in reach:
                reach.add(y)
                todo.append(y)
    for src in ("name", "filename"):
        ctx.check(src in reach, f"bucket-key:{src}", "bccache:BytecodeCache.get_bucket", f"bucket key does not depend on `{src}`" if src not in reach else f"key from {src}",
                  f"the key passed to Bucket(...) is computed without `{src}`: a template loaded under the same name from another file (a second search path, an edited loader) is served the cached code object of the first, whose co_filename - and every traceback and debug line mapping - names the other file",
                  gb.loc(mk[0]))


def _depends_on(fn: ast.AST, src: str, targets: tuple[str, ...]) -> bool:
    """Does any of the local names ``targets`` depend (def-use, through local assignments and
    call arguments) on the parameter ``src``?"""
    deps: dict[str, set[str]] = {}
    for n in ast.walk(fn):
        if isinstance(n, ast.Assign) and isinstance(n.targets[0], ast.Name):
            deps.setdefault(n.targets[0].id, set()).update(astq.names_in(n.value))
    for t_ in targets:
        seen: set[str] = set()
        todo = [t_]
        while todo:
            x = todo.pop()
            for y in deps.get(x, ()):
                if y == src:
                    return True
                if y not in seen:
                    seen.add(y)
                    todo.append(y)
    return False
