"""C13 - equivalent syntax configurations render identically.

Decided statically: Template.__new__'s positional arguments line up name-by-name with
Environment.__init__'s parameter order; overlay's parameters equal __init__'s and each is
applied (generic setattr loop or its explicit branch); the lexer cache key covers every
environment attribute the lexer construction reads; compile_rules orders start delimiters
longest first; babel_extract's positional Environment(...) call lines up; overlays get a
fresh cache and re-bound extensions; spontaneous environments are marked shared.
Also: get_lexer returns only what it obtained under the key and stores nothing on the environment; newline_re matches exactly the three line-break forms; one notion of whitespace.  
Also: delimiter / prefix strings are interpolated into patterns only as re.escape(<string>).  
Not decided: equality of rendered output across configurations.
"""

from __future__ import annotations

import ast

from .. import astq
from ..core import Ctx
from ..lexmodel import LexModel
from ..lexmodel import configs


def params(fn: ast.AST) -> list[str]:
    a = fn.args  # type: ignore[attr-defined]
    return [x.arg for x in a.posonlyargs + a.args]


def lexer_key_rule(ctx: Ctx, rid: str) -> None:
    ctx.rule(rid, "get_lexer's cache key contains every environment attribute read while constructing a Lexer (Lexer.__init__ and compile_rules)")
    repo = ctx.repo
    gl = repo.func("lexer:get_lexer")
    keys: list[str] = []
    for n in ast.walk(gl.node):
        if isinstance(n, ast.Assign) and ast.unparse(n.targets[0]) == "key" and isinstance(n.value, ast.Tuple):
            for e in n.value.elts:
                if isinstance(e, ast.Attribute) and ast.unparse(e.value) == "environment":
                    keys.append(e.attr)
    ctx.need(keys, "get_lexer cache key tuple not found")
    # reads: every environment.<attr> in Lexer.__init__ and compile_rules (syntactic, all branches)
    reads: dict[str, str] = {}
    for spec in ("lexer:Lexer.__init__", "lexer:compile_rules"):
        fi = repo.func(spec)
        for n in ast.walk(fi.node):
            if isinstance(n, ast.Attribute) and isinstance(n.value, ast.Name) and n.value.id == "environment":
                reads.setdefault(n.attr, spec)
    ctx.floor("environment attributes read by the lexer", len(reads), 12)
    for attr, where in sorted(reads.items()):
        ctx.check(attr in keys, f"key:{attr}", "lexer:get_lexer", f"key lacks {attr}",
                  f"the lexer reads environment.{attr} ({where}) but get_lexer's cache key does not contain it: two environments differing only in {attr} share one lexer",
                  gl.loc(), detail={"attribute": attr, "read_in": where})
    ctx.check(len(set(keys)) == len(keys), "key:unique", "lexer:get_lexer", "duplicate key component", "a key component is listed twice (another one is probably missing)", gl.loc())
    s = ast.unparse(gl.node)
    stores = [a for a in ast.walk(gl.node) if isinstance(a, ast.Assign) and any(ast.unparse(t_) == "_lexer_cache[key]" for t_ in a.targets)]
    built = [a for a in ast.walk(gl.node) if isinstance(a, ast.Assign) and ast.unparse(a.value) == "Lexer(environment)"]
    stored_ok = len(stores) == 1 and len(built) == 1 and (stores[0] is built[0] or ast.unparse(stores[0].value) in {ast.unparse(t_) for t_ in built[0].targets})
    ctx.check("_lexer_cache.get(key)" in s and stored_ok, "key:use", "lexer:get_lexer", "lookup/store use the key", "lookup and store must use the same key", gl.loc())
    # the lexer an environment gets is a function of its *current* options: every value
    # get_lexer returns was looked up or created under `key` in this call; nothing is
    # remembered on the environment itself (overlay() copies the environment's __dict__ and
    # then changes options: a lexer remembered there would be the parent's)
    for r in astq.returns(gl.node):
        v = r.value
        srcs: list[str] = []
        if isinstance(v, ast.Name):
            srcs = [ast.unparse(a.value) for a in ast.walk(gl.node) if isinstance(a, ast.Assign) and any(isinstance(t_, ast.Name) and t_.id == v.id for t_ in a.targets)]
        elif v is not None:
            srcs = [ast.unparse(v)]
        ok_r = bool(srcs) and all(x in ("_lexer_cache.get(key)", "Lexer(environment)", "_lexer_cache[key]") for x in srcs)
        ctx.check(ok_r, f"key:returns:{ast.unparse(v)[:30] if v is not None else None}", "lexer:get_lexer", f"returns a lexer not obtained under the key ({srcs})",
                  f"get_lexer returns `{ast.unparse(v) if v is not None else None}` (from {srcs}): the lexer must be the one cached or built under the key of the environment's current options - a lexer remembered elsewhere (on the environment) survives `overlay(...)` with changed delimiters, and the overlay tokenizes with its parent's syntax", gl.loc(r))
    env_stores = [n_ for n_ in ast.walk(gl.node) if isinstance(n_, ast.Attribute) and isinstance(n_.ctx, (ast.Store, ast.Del)) and ast.unparse(n_.value) == "environment"] + [c for c in astq.calls(gl.node) if astq.callee(c) in ("setattr", "object.__setattr__", "environment.__dict__.update", "environment.extend")]
    ctx.check(not env_stores, "key:no-memo-on-environment", "lexer:get_lexer", "stores on the environment", "get_lexer must not store anything on the environment (overlay() copies __dict__)", gl.loc(env_stores[0]) if env_stores else gl.loc())
    # options the tokenizer uses at run time must be captured at construction
    lm = LexModel(repo, configs()[0])
    ti = repo.func("lexer:Lexer.tokeniter")
    for attr in ("lstrip_blocks", "keep_trailing_newline"):
        ctx.check(f"self.{attr}" in ast.unparse(ti.node) and ("self." + attr) in lm.locals, f"captured:{attr}", "lexer:Lexer.__init__", f"{attr} captured", f"Lexer no longer captures environment.{attr} at construction", ti.loc())


def check(ctx: Ctx) -> str:
    ctx.use("environment", "lexer", "ext")
    repo = ctx.repo
    init = repo.func("environment:Environment.__init__")
    ip = params(init.node)[1:]
    ctx.rule("R1", "Template.__new__ passes its options to get_spontaneous_environment in the positional order of Environment.__init__")
    tn = repo.func("environment:Template.__new__")
    calls = [c for c in astq.calls(tn.node) if astq.callee(c) == "get_spontaneous_environment"]
    ctx.need(len(calls) == 1, "Template.__new__ no longer calls get_spontaneous_environment")
    def _arg(a: ast.AST) -> str:
        # a local that only names the argument's value (hoisted out of the call) is looked through
        if isinstance(a, ast.Name):
            src_ = [x for x in ast.walk(tn.node) if isinstance(x, ast.Assign) and len(x.targets) == 1 and isinstance(x.targets[0], ast.Name) and x.targets[0].id == a.id]
            params_ = {p_.arg for p_ in tn.node.args.args + tn.node.args.kwonlyargs}  # type: ignore[attr-defined]
            if len(src_) == 1 and a.id not in params_:
                return ast.unparse(src_[0].value)
        return ast.unparse(a)

    args = [_arg(a) for a in calls[0].args]
    ctx.check(args[0] == "cls.environment_class", "new:class", "environment:Template.__new__", "environment class", "the first argument must be cls.environment_class", tn.loc())
    pos = args[1:]
    ctx.check(len(pos) == len(ip), "new:arity", "environment:Template.__new__", "argument count", f"{len(pos)} positional arguments for {len(ip)} parameters of Environment.__init__", tn.loc())
    literal_rows = {"loader": "None", "cache_size": "0", "auto_reload": "False", "bytecode_cache": "None"}
    for p, a in zip(ip, pos):
        want = {p, f"frozenset({p})"} if p not in literal_rows else {literal_rows[p]}
        ctx.check(a in want, f"new:{p}", "environment:Template.__new__", f"slot {p}",
                  f"Environment.__init__ parameter {p!r} receives `{a}` (expected {sorted(want)}): the Template constructor configures a different option", tn.loc(calls[0]), detail={"parameter": p, "argument": a})
    tp = params(tn.node)[2:]
    ctx.check(set(tp) == set(ip) - set(literal_rows), "new:params", "environment:Template.__new__", "parameter set", f"Template.__new__ options {sorted(set(tp) ^ (set(ip) - set(literal_rows)))} differ from Environment.__init__", tn.loc())
    # defaults agree
    def defaults(fn):  # type: ignore[no-untyped-def]
        a = fn.args
        names = [x.arg for x in a.args]
        return dict(zip(names[len(names) - len(a.defaults):], [ast.unparse(d) for d in a.defaults]))

    di, dt = defaults(init.node), defaults(tn.node)
    for p in tp:
        ctx.check(di.get(p) == dt.get(p), f"new:default:{p}", "environment:Template.__new__", f"default of {p}", f"default of {p} is {dt.get(p)} in Template.__new__ but {di.get(p)} in Environment.__init__", tn.loc())
    gse = repo.func("environment:get_spontaneous_environment")
    s = ast.unparse(gse.node)
    made_ = [a for a in ast.walk(gse.node) if isinstance(a, ast.Assign) and len(a.targets) == 1 and isinstance(a.targets[0], ast.Name) and ast.unparse(a.value) == "cls(*args)"]
    ev_ = made_[0].targets[0].id if len(made_) == 1 else "env"  # type: ignore[attr-defined]
    ctx.check(len(made_) == 1 and f"{ev_}.shared = True" in s and f"return {ev_}" in s and "lru_cache" in " ".join(gse.decorators()), "spontaneous", "environment:get_spontaneous_environment", "shared cached environment", "spontaneous environments must be built with cls(*args), marked shared and memoised", gse.loc())

    ctx.rule("R2", "overlay accepts exactly __init__'s parameters and applies each one (generic setattr loop, or its explicit branch for cache_size / extensions / enable_async)")
    ov = repo.func("environment:Environment.overlay")
    op = params(ov.node)[1:]
    ctx.check(op == ip, "overlay:params", "environment:Environment.overlay", "parameter list", f"overlay parameters differ from __init__: {sorted(set(op) ^ set(ip))} / order", ov.loc(), detail={"overlay": op, "init": ip})
    dels: set[str] = set()
    for n in ast.walk(ov.node):
        if isinstance(n, ast.Delete):
            for tg in n.targets:
                if isinstance(tg, ast.Subscript) and ast.unparse(tg.value) == "args" and isinstance(tg.slice, ast.Constant):
                    dels.add(tg.slice.value)
    dels.discard("self")
    src = ast.unparse(ov.node)
    ctx.check("args = dict(locals())" in src and "setattr(rv, key, value)" in src, "overlay:generic", "environment:Environment.overlay", "generic application loop", "the generic `for key, value in args.items(): setattr(rv, key, value)` loop is gone", ov.loc())
    explicit = {"cache_size": "rv.cache = create_cache(cache_size)", "extensions": "load_extensions(rv, extensions)", "enable_async": "rv.is_async = enable_async"}
    for p in sorted(dels):
        ctx.check(p in explicit and explicit[p] in src and any((f"{p} is missing", False) in astq.guard_atoms(ov.node, n) for n in ast.walk(ov.node) if isinstance(n, (ast.Assign, ast.Expr)) and explicit[p] in ast.unparse(n)),
                  f"overlay:explicit:{p}", "environment:Environment.overlay", f"explicit branch for {p}", f"{p} is removed from the generic loop but has no `if {p} is not missing:` branch applying it", ov.loc())
    # attribute names of the generic loop equal the attribute names __init__ stores
    stored = {n.targets[0].attr: ast.unparse(n.value) for n in ast.walk(init.node) if isinstance(n, ast.Assign) and isinstance(n.targets[0], ast.Attribute) and ast.unparse(n.targets[0].value) == "self"}
    for n in ast.walk(init.node):
        if isinstance(n, ast.AnnAssign) and isinstance(n.target, ast.Attribute) and ast.unparse(n.target.value) == "self" and n.value is not None:
            stored[n.target.attr] = ast.unparse(n.value)
    for p in ip:
        if p in dels:
            continue
        ctx.check(stored.get(p) == p, f"overlay:attr:{p}", "environment:Environment.__init__", f"attribute {p}", f"__init__ stores parameter {p} as {[k for k, v in stored.items() if v == p]}, overlay's generic loop sets attribute {p!r}", init.loc())
    ctx.check(stored.get("is_async") == "enable_async", "init:is_async", "environment:Environment.__init__", "is_async", "__init__ must store enable_async as is_async", init.loc())

    lexer_key_rule(ctx, "R3")

    ctx.rule("R4", "compile_rules returns the start delimiters longest first (so that '<%=' wins over '<%')")
    cr = repo.func("lexer:compile_rules")
    rets = astq.returns(cr.nnode)  # normal form: a local naming the sorted list is inlined
    ok = len(rets) == 1 and "sorted(rules, reverse=True)" in ast.unparse(rets[0].value)
    ctx.check(ok, "compile_rules:order", "lexer:compile_rules", "sorted longest first", "compile_rules must return sorted(rules, reverse=True) with the delimiter length as the first tuple component", cr.loc())
    tuples = [n for n in ast.walk(cr.node) if isinstance(n, ast.Tuple) and len(n.elts) == 3 and isinstance(n.elts[0], ast.Call) and astq.callee(n.elts[0]) == "len"]
    ctx.floor("rule tuples in compile_rules", len(tuples), 5)
    def _res(e: ast.AST) -> ast.AST:
        # follow a local temporary to its (last preceding) definition
        if isinstance(e, ast.Name):
            defs = [a for a in ast.walk(cr.node) if isinstance(a, ast.Assign) and len(a.targets) == 1 and isinstance(a.targets[0], ast.Name) and a.targets[0].id == e.id and a.lineno <= e.lineno]
            if defs:
                return max(defs, key=lambda a: a.lineno).value
        return e

    for tpl in tuples:
        lenarg = ast.unparse(tpl.elts[0].args[0])  # type: ignore[attr-defined]
        ctx.check(lenarg in ast.unparse(tpl.elts[2]), f"compile_rules:{lenarg}", "lexer:compile_rules", f"length of {lenarg}", f"the sort length is taken from {lenarg} but the pattern is built from another string", cr.loc(tpl))
        # one measure for all rules: the length of the delimiter as it is written in a template
        # (environment.<x>_string / _prefix), not of its regex-escaped form - mixed measures let
        # '#' (escaped '\#', 2) tie with or beat the longer '#*'
        measured = _res(tpl.elts[0].args[0])  # type: ignore[attr-defined]
        raw = isinstance(measured, ast.Attribute) and ast.unparse(measured.value) == "environment"
        ctx.check(raw, f"compile_rules:measure:{ast.unparse(tpl.elts[1])}", "lexer:compile_rules", f"{ast.unparse(tpl.elts[1])} sorted by len({ast.unparse(measured)[:40]})",
                  f"the rule {ast.unparse(tpl.elts[1])} is ordered by len({ast.unparse(measured)[:60]}) instead of the length of the delimiter itself: escaping lengthens delimiters with regex-special characters, so a shorter prefix ('#') can sort before a longer delimiter that starts with it ('#*') and the same template lexes differently from an equivalent configuration", cr.loc(tpl))
    # the lexer sees the same order in both model configurations
    for cfg in configs()[:2]:
        lm = LexModel(repo, dict(cfg, __len__={"block_start_string": 2, "variable_start_string": 3, "comment_start_string": 2}))
        root = lm.rules["root"][0].pat.pattern
        ctx.check(root.index("(?P<variable_begin>") < root.index("(?P<block_begin>"), f"root-order:{sorted(cfg)}", "lexer:Lexer.__init__", "longer delimiter first in root pattern", "with a 3-character variable start and 2-character block start the variable alternative must come first", "src/jinja2/lexer.py")

    ctx.rule("R5", "babel_extract's positional Environment(...) call lines up with Environment.__init__")
    be = repo.func("ext:babel_extract")
    ec = [c for c in astq.calls(be.node) if astq.callee(c) == "Environment"]
    ctx.need(len(ec) == 1, "babel_extract no longer constructs an Environment")
    for i, a in enumerate(ec[0].args):
        p = ip[i]
        txt = ast.unparse(a)
        ok = (f"'{p}'" in txt or f'"{p}"' in txt) or (p == "newline_sequence" and "NEWLINE_SEQUENCE" in txt) or (p == "extensions" and "extensions" in txt)
        ctx.check(ok, f"babel:{p}", "ext:babel_extract", f"slot {p}", f"positional slot {i} ({p}) receives `{txt[:60]}`", be.loc(a), detail={"parameter": p, "argument": txt[:80]})
    ctx.floor("positional arguments in babel_extract", len(ec[0].args), 13)

    ctx.rule("R6", "overlays get their own cache, re-bound extensions and a link to the parent; the configuration check runs on them")
    for frag, what in (("rv.cache = copy_cache(self.cache)", "fresh cache"), ("rv.extensions[key] = value.bind(rv)", "extensions re-bound to the overlay"), ("rv.overlayed = True", "overlay flag"), ("rv.linked_to = self", "link"), ("_environment_config_check(rv)", "config check")):
        ctx.check(frag in src, f"overlay:{what}", "environment:Environment.overlay", what, f"overlay no longer does `{frag}`", ov.loc())
    # overlay copies the instance __dict__: nothing derived from the configuration may be memoised there
    for ci in repo.classes():
        if not any(c.name == "Environment" and c.module.name == "environment" for c in repo.mro(ci)):
            continue
        for name, fn in ci.methods.items():
            decos = [ast.unparse(d) for d in fn.decorator_list]
            memo = [d for d in decos if "cached_property" in d or "lru_cache" in d or d.endswith("cache")]
            ctx.check(not memo, f"memo:{ci.name}.{name}", f"{ci.module.name}:{ci.name}.{name}", f"memoised on the instance ({', '.join(memo)})",
                      f"{ci.name}.{name} is memoised ({memo}); overlay() copies the instance __dict__ before applying the overridden options, so the overlay keeps the parent's cached value (e.g. its lexer)", ci.loc(fn)) if memo or name == "lexer" else None
    lx = repo.func("environment:Environment.lexer")
    ctx.check(lx.decorators() == ["property"] and "get_lexer(self)" in ast.unparse(lx.node), "lexer:property", "environment:Environment.lexer", "lexer resolved per access", "Environment.lexer must be a plain property returning get_lexer(self)", lx.loc())
    ctx.check("rv.__dict__.update(self.__dict__)" in src and "object.__new__(self.__class__)" in src, "overlay:copy", "environment:Environment.overlay", "shallow copy of the parent", "the overlay must start as a copy of the parent's attributes", ov.loc())
    # a line statement and the same tag written as a block on its own line are equivalent only
    # because lstrip_blocks / trim_blocks strip exactly the line's indentation and newline:
    # the tokeniter rules (shared with C11 / C12 / C39) are part of this property
    from ..lexrules import end_rule_siblings
    from ..lexrules import lstrip_rules

    lstrip_rules(ctx, "R7")
    end_rule_siblings(ctx, "R8")
    # ... and because both forms see the same lines: every line-oriented rule (trim_blocks'
    # `\n?`, lstrip_blocks' search for the last "\n", the line-statement `^` / `(\n|$)`) works
    # on a source whose \r\n / \r / \n breaks were all normalised to "\n"
    from ..lexrules import newline_rules
    from ..lexrules import whitespace_notion_rule

    newline_rules(ctx, "R9")
    whitespace_notion_rule(ctx, "R10")
    from ..lexrules import delimiters_escaped_rule

    delimiters_escaped_rule(ctx, "R11")
    return __doc__ or ""
