"""C30 - template compilation is deterministic.

Decided statically: on the compile path (lexer, parser, nodes, idtracking, optimizer,
compiler, ext, meta) every iteration over a value of set / frozenset type - found by a local
type inference over literals, constructors, annotations, attribute declarations and return
annotations - is wrapped in ``sorted`` or is one of the reviewed order-insensitive uses
(membership, set algebra, writes to keys that already exist); ``next(iter(s))`` only on
singletons; no id(), hash() or random on the compile path.
Also: the reviewed order-insensitive iteration in branch_update is re-checked against its premise.  
Also: a folded output constant is written only when has_safe_repr holds (no memory addresses in the source); no class-level container of a compile-path class is filled through self.  
Not decided: determinism of user-supplied extensions and filters.
"""

from __future__ import annotations

import ast

from .. import astq
from ..cfg import guards_of
from ..core import Ctx
from ..srcmodel import walk_no_nested

# filters / tests / utils belong to the compile path too: a filter or test applied to constant
# operands is evaluated by the optimizer and the repr() of its result is written into the source
# environment: extension loading / iteration order decides the order of preprocess and
# filter_stream hooks, i.e. the token stream the parser sees
MODULES = ("lexer", "parser", "nodes", "idtracking", "optimizer", "compiler", "ext", "meta", "visitor", "filters", "tests", "utils", "environment")
SET_CTORS = ("set", "frozenset")
# reviewed order-insensitive iterations over sets: (module, function, iterable) -> why
ORDER_FREE = {
    ("idtracking", "Symbols.branch_update", "stores"): "only overwrites self.loads[target] for targets that are already keys (inserted by the preceding loads.update), so no insertion order is created",
    ("compiler", "CodeGenerator.pop_assign_tracking", "vars"): "list comprehension result `public_names` is only used through len() / sorted() / [0] when it has one element",
    ("parser", "Parser._fail_ut_eof", "expected"): "membership test only",
    ("parser", "Parser.__init__", "extension.tags"): "fills the tag -> parse function lookup table; the table is only used through .get(tag)",
}
# the same rows keyed by where the iterated local comes from (its first binding), so that the
# name of the local does not matter
ORDER_FREE.update({
    ("idtracking", "Symbols.branch_update", "=set()"): ORDER_FREE[("idtracking", "Symbols.branch_update", "stores")],
    ("compiler", "CodeGenerator.pop_assign_tracking", "=self._assign_stack.pop()"): ORDER_FREE[("compiler", "CodeGenerator.pop_assign_tracking", "vars")],
    ("parser", "Parser._fail_ut_eof", "=set()"): ORDER_FREE[("parser", "Parser._fail_ut_eof", "expected")],
    ("parser", "Parser.__init__", "<in environment.iter_extensions()>.tags"): ORDER_FREE[("parser", "Parser.__init__", "extension.tags")],
})


def _origin(fn: ast.AST, e: ast.expr) -> str:
    if isinstance(e, ast.Attribute):
        return _origin(fn, e.value) + "." + e.attr
    if isinstance(e, ast.Name):
        params = {a.arg for a in fn.args.posonlyargs + fn.args.args + fn.args.kwonlyargs}  # type: ignore[attr-defined]
        if e.id in params:
            return e.id
        first: tuple[int, str] | None = None
        for n in ast.walk(fn):
            o = None
            if isinstance(n, ast.Assign) and any(isinstance(t_, ast.Name) and t_.id == e.id for t_ in n.targets):
                o = "=" + ast.unparse(n.value)
            elif isinstance(n, ast.AnnAssign) and isinstance(n.target, ast.Name) and n.target.id == e.id and n.value is not None:
                o = "=" + ast.unparse(n.value)
            elif isinstance(n, (ast.For, ast.AsyncFor, ast.comprehension)) and isinstance(n.target, ast.Name) and n.target.id == e.id:
                o = f"<in {ast.unparse(n.iter)}>"
            if o is not None and (first is None or getattr(n, "lineno", 10**9) < first[0]):
                first = (getattr(n, "lineno", 10**9), o)
        if first is not None:
            return first[1]
    return ast.unparse(e)


# attributes / functions known to be sets (declared with annotations or constructed with set())
def _is_set_ann(ann: ast.expr | None) -> bool:
    if ann is None:
        return False
    t_ = ast.unparse(ann).replace("t.", "").replace("typing.", "").replace("'", "").replace('"', "")
    return t_.startswith(("set[", "Set[", "frozenset[", "FrozenSet[", "MutableSet[", "AbstractSet[")) or t_ in ("set", "frozenset")


def _is_set_expr(e: ast.expr, env: dict[str, bool], attrs: set[str], funcs: set[str], listsets: set[str]) -> bool:
    if isinstance(e, (ast.Set, ast.SetComp)):
        return True
    if isinstance(e, ast.Call):
        f = ast.unparse(e.func)
        if f in SET_CTORS:
            return True
        tail = f.split(".")[-1]
        if tail in funcs:
            return True
        if tail in ("copy", "union", "intersection", "difference", "symmetric_difference") and isinstance(e.func, ast.Attribute):
            return _is_set_expr(e.func.value, env, attrs, funcs, listsets)
        if tail == "pop" and isinstance(e.func, ast.Attribute) and ast.unparse(e.func.value).split(".")[-1] in listsets:
            return True
        return False
    if isinstance(e, ast.Name):
        return env.get(e.id, False)
    if isinstance(e, ast.Attribute):
        return e.attr in attrs
    if isinstance(e, ast.BinOp) and isinstance(e.op, (ast.BitOr, ast.BitAnd, ast.Sub, ast.BitXor)):
        return _is_set_expr(e.left, env, attrs, funcs, listsets)
    if isinstance(e, ast.Subscript) and isinstance(e.slice, ast.Constant) and e.slice.value == -1:
        return ast.unparse(e.value).split(".")[-1] in listsets
    if isinstance(e, ast.BoolOp):
        return any(_is_set_expr(v, env, attrs, funcs, listsets) for v in e.values)
    return False


def check(ctx: Ctx) -> str:
    ctx.use(*MODULES)
    repo = ctx.repo
    # package-wide declarations
    attrs: set[str] = set()
    funcs: set[str] = set()
    listsets: set[str] = set()
    for mod in MODULES:
        m = repo.module(mod)
        for n in ast.walk(m.tree):
            if isinstance(n, ast.AnnAssign) and isinstance(n.target, ast.Attribute):
                if _is_set_ann(n.annotation):
                    attrs.add(n.target.attr)
                if ast.unparse(n.annotation).replace("t.", "").startswith(("list[set[", "List[Set[")):
                    listsets.add(n.target.attr)
            elif isinstance(n, ast.AnnAssign) and isinstance(n.target, ast.Name) and isinstance(getattr(n, "_parent", None), ast.ClassDef) and _is_set_ann(n.annotation):
                attrs.add(n.target.id)
            elif isinstance(n, ast.Assign) and isinstance(n.targets[0], ast.Attribute) and isinstance(n.value, (ast.Call, ast.Set)) and (isinstance(n.value, ast.Set) or ast.unparse(n.value.func) in SET_CTORS):
                attrs.add(n.targets[0].attr)
            elif isinstance(n, (ast.FunctionDef, ast.AsyncFunctionDef)) and _is_set_ann(n.returns):
                funcs.add(n.name)
    # node fields are declared in nodes.py; a field that is not a set there never is one
    for ci in repo.classes("nodes"):
        for fname, ann in ci.annotations.items():
            if not _is_set_ann(ann):
                attrs.discard(fname)
    ctx.rule("R1", "every iteration over a set-typed value on the compile path is sorted or a reviewed order-insensitive use")
    ctx.need({"stores", "filters", "tests", "undeclared"} <= attrs and "find_undeclared" in funcs and "_assign_stack" in listsets, f"set-typed declarations not recognised: attrs={sorted(attrs)} funcs={sorted(funcs)} listsets={sorted(listsets)}")
    n_sites = 0
    n_sorted = 0
    for mod in MODULES:
        m = repo.module(mod)
        for fn in astq.all_funcdefs(m.tree):
            q = astq.qualname(fn)
            env: dict[str, bool] = {}
            for p in fn.args.args + fn.args.kwonlyargs:
                if _is_set_ann(p.annotation):
                    env[p.arg] = True
            # two passes for simple propagation
            for _ in range(2):
                for n in walk_no_nested(fn):
                    if isinstance(n, ast.Assign) and isinstance(n.targets[0], ast.Name):
                        env[n.targets[0].id] = env.get(n.targets[0].id, False) or _is_set_expr(n.value, env, attrs, funcs, listsets)
                    elif isinstance(n, ast.AnnAssign) and isinstance(n.target, ast.Name):
                        env[n.target.id] = env.get(n.target.id, False) or _is_set_ann(n.annotation) or (n.value is not None and _is_set_expr(n.value, env, attrs, funcs, listsets))
                    elif isinstance(n, ast.Assign) and isinstance(n.targets[0], ast.Tuple) and isinstance(n.value, ast.Tuple):
                        for tg, v in zip(n.targets[0].elts, n.value.elts):
                            if isinstance(tg, ast.Name):
                                env[tg.id] = env.get(tg.id, False) or _is_set_expr(v, env, attrs, funcs, listsets)
                    elif isinstance(n, ast.For) and isinstance(n.target, ast.Tuple) and isinstance(n.iter, ast.Tuple):
                        # `for id_map, names, dependency in ((..., visitor.filters, ...), ...)`
                        for row in n.iter.elts:
                            if isinstance(row, ast.Tuple):
                                for tg, v in zip(n.target.elts, row.elts):
                                    if isinstance(tg, ast.Name) and _is_set_expr(v, env, attrs, funcs, listsets):
                                        env[tg.id] = True
            sites: list[tuple[ast.AST, ast.expr, str]] = []
            for n in walk_no_nested(fn):
                if isinstance(n, (ast.For, ast.AsyncFor)):
                    sites.append((n, n.iter, "for"))
                elif isinstance(n, ast.comprehension):
                    sites.append((n, n.iter, "comprehension"))
                elif isinstance(n, ast.Call):
                    f = ast.unparse(n.func)
                    tail = f.split(".")[-1]
                    if (tail == "join" or f in ("list", "tuple", "enumerate", "iter", "zip", "map", "dict.fromkeys")) and n.args:
                        sites.append((n, n.args[0], f"{tail}()"))
            for node, it, kind in sites:
                inner = it
                if isinstance(inner, ast.Call) and ast.unparse(inner.func) in ("enumerate", "iter", "list", "tuple", "reversed") and inner.args:
                    inner = inner.args[0]
                is_sorted = isinstance(inner, ast.Call) and ast.unparse(inner.func) == "sorted"
                target = inner.args[0] if is_sorted and inner.args else inner  # type: ignore[union-attr]
                if isinstance(target, ast.GeneratorExp):
                    continue
                if not _is_set_expr(target, env, attrs, funcs, listsets):
                    continue
                n_sites += 1
                txt = ast.unparse(target)
                if is_sorted:
                    n_sorted += 1
                    ctx.ok(f"{mod}:{q}:{txt}:sorted", detail={"site": f"{mod}:{q}", "iterates": txt, "how": "sorted"} if n_sorted <= 3 else None)
                    continue
                # next(iter(s)) guarded by len(s) == 1
                par = getattr(node, "_parent", None)
                if kind == "iter()" and isinstance(par, ast.Call) and ast.unparse(par.func) == "next":
                    gs = astq.guard_texts(fn, node)
                    ok = any(g == f"len({txt}) == 1" and pol for g, pol in gs)
                    ctx.check(ok, f"{mod}:{q}:next(iter({txt}))", f"{mod}:{q}", f"next(iter({txt})) on a non-singleton", f"next(iter({txt})) picks an arbitrary element unless len({txt}) == 1", f"{m.rel}:{node.lineno}")
                    continue
                why = ORDER_FREE.get((mod, q, txt)) or ORDER_FREE.get((mod, q, _origin(fn, target)))
                if why is not None and (mod, q) == ("idtracking", "Symbols.branch_update") and isinstance(node, ast.For):
                    # the reviewed reason has a premise: every key this loop writes was inserted
                    # before, in branch order, by `self.loads.update(<branch>.loads)` - and the
                    # loop itself only assigns self.loads[...] (no other ordered structure)
                    pre = [c for c in astq.calls(fn) if astq.callee(c) == "self.loads.update" and c.args and ast.unparse(c.args[0]).endswith(".loads") and (c.lineno, c.col_offset) < (node.lineno, node.col_offset)]
                    pre_loop = False
                    for c_ in pre:
                        p_ = getattr(c_, "_parent", None)
                        while p_ is not None and p_ is not fn:
                            if isinstance(p_, ast.For) and not any(isinstance(x, (ast.Break, ast.Continue)) for x in ast.walk(p_)):
                                pre_loop = True
                            p_ = getattr(p_, "_parent", None)
                    other_writes = [c for c in astq.calls(node) if isinstance(c.func, ast.Attribute) and c.func.attr in ("append", "add", "setdefault", "update", "insert", "extend", "write", "writeline")]
                    if not (pre_loop and not other_writes):
                        why = None
                        txt = txt + " (keys not inserted beforehand)"
                ctx.check(why is not None, f"{mod}:{q}:{txt}", f"{mod}:{q}", f"unsorted iteration over the set `{txt}` ({kind})",
                          f"{mod}.{q} iterates the set `{txt}` ({kind}) in hash order: the order depends on PYTHONHASHSEED, and what is derived from it (dict insertion order, emitted text) makes the generated source differ between processes",
                          f"{m.rel}:{getattr(node, 'lineno', fn.lineno)}", detail={"site": f"{mod}:{q}", "iterates": txt, "why_order_free": why})
    ctx.floor("set iterations on the compile path", n_sites, 7)
    ctx.floor("sorted set iterations", n_sorted, 4)

    ctx.rule("R2", "no id() / hash() / random / time on the compile path")
    for mod in ("lexer", "parser", "idtracking", "optimizer", "compiler", "meta", "visitor"):
        m = repo.module(mod)
        for c in astq.calls(m.tree):
            f = astq.callee(c)
            bad = f in ("id", "hash", "time.time", "os.urandom", "uuid.uuid4") or f.startswith("random.")
            if bad:
                ctx.bad(f"{mod}:{astq.enclosing_qual(c)}", f"{f}() on the compile path", f"{mod}.{astq.enclosing_qual(c)} calls {f}(): the generated source can differ between runs", f"{m.rel}:{c.lineno}")
    ctx.ok("scan", trivial=True)
    # identifiers are numbered by a counter
    ti = repo.func("compiler:CodeGenerator.temporary_identifier")
    incs = [a for a in ast.walk(ti.node) if isinstance(a, ast.AugAssign) and isinstance(a.op, ast.Add) and isinstance(a.value, ast.Constant) and isinstance(a.value.value, int) and a.value.value > 0 and ast.unparse(a.target).startswith("self.")]
    rets = [r for r in ast.walk(ti.nnode) if isinstance(r, ast.Return) and r.value is not None]
    ok_ti = len(incs) == 1 and len(rets) == 1
    if ok_ti:
        ctr = ast.unparse(incs[0].target)
        v_ = rets[0].value
        # the returned text depends on nothing but the counter: every attribute / name read is the
        # counter itself, and the only calls are the text conversions str() / "..".format()
        reads = {ast.unparse(x) for x in ast.walk(v_) if isinstance(x, ast.Attribute) and not (isinstance(x.value, ast.Constant))} | {x.id for x in ast.walk(v_) if isinstance(x, ast.Name)}
        calls_ = {astq.callee(c) for c in astq.calls(v_)}
        ok_ti = ctr in reads and reads <= {ctr, "self", "str"} and all(f == "str" or f.endswith(".format") for f in calls_)
    ctx.check(ok_ti, "temporary_identifier", "compiler:CodeGenerator.temporary_identifier", "counter based", "temporary identifiers must be numbered by a counter", ti.loc())
    ctx.rule("R3", "a folded output constant is written into the source only when it has a stable text: in _output_child_to_const every return that converts the folded value lies under has_safe_repr(<that value>)")
    oc = repo.func("compiler:CodeGenerator._output_child_to_const")
    folded_ = [a for a in ast.walk(oc.node) if isinstance(a, ast.Assign) and isinstance(a.value, ast.Call) and astq.attr_tail(a.value) == "as_const" and isinstance(a.targets[0], ast.Name)]
    ctx.need(len(folded_) == 1, "_output_child_to_const: the folded value (`x = node.as_const(...)`) was not found")
    fv = folded_[0].targets[0].id  # type: ignore[attr-defined]
    n_r = 0
    for r_ in astq.returns(oc.node):
        if r_.value is None or fv not in astq.names_in(r_.value):
            continue
        n_r += 1
        at_ = astq.guard_atoms(oc.node, r_)
        ctx.check((f"has_safe_repr({fv})", True) in at_, f"fold-text:{n_r}", "compiler:CodeGenerator._output_child_to_const", "folded value converted to text without has_safe_repr" if (f"has_safe_repr({fv})", True) not in at_ else "guarded by has_safe_repr",
                  f"`{ast.unparse(r_)[:60]}` writes the text of any folded object into the generated source: for an object whose str() contains a memory address (`{{{{ 'abc'.upper }}}}`, `{{{{ 'abc'|batch(2) }}}}`) the source differs between compilations and between processes",
                  oc.loc(r_))
    ctx.floor("returns of the folded output value", n_r, 1)

    # output is a function of template and context only: no filter writes into a shared
    # policy / argument object, which would make a render depend on the renders before it
    # (rule owned by C29)
    from . import c29

    ctx.run_imported("C29", {"R1"}, c29.check)
    ctx.rule("R4", "no compilation state shared between compilations: a class of the compile path does not bind a mutable container at class level that its methods fill through self")
    MUT = {"add", "append", "update", "extend", "insert", "setdefault", "appendleft"}
    n_cls = 0
    for mod in ("compiler", "idtracking", "optimizer", "visitor", "parser", "lexer", "meta"):
        for ci in repo.classes(mod):
            n_cls += 1
            for name, val in ci.assigns.items():
                fresh_ = isinstance(val, (ast.Set, ast.List, ast.Dict, ast.ListComp, ast.SetComp, ast.DictComp)) or (isinstance(val, ast.Call) and astq.callee(val) in ("set", "list", "dict", "deque", "collections.deque", "defaultdict"))
                if not fresh_:
                    continue
                inits = {ast.unparse(t_) for fn in ci.methods.values() for a in ast.walk(fn) if isinstance(a, (ast.Assign, ast.AnnAssign)) for t_ in (a.targets if isinstance(a, ast.Assign) else [a.target])}
                muts = [c for fn in ci.methods.values() for c in astq.calls(fn) if isinstance(c.func, ast.Attribute) and c.func.attr in MUT and ast.unparse(c.func.value) == f"self.{name}"]
                muts += [s_ for fn in ci.methods.values() for s_ in ast.walk(fn) if isinstance(s_, ast.Subscript) and isinstance(s_.ctx, ast.Store) and ast.unparse(s_.value) == f"self.{name}"]
                shared_ = bool(muts) and f"self.{name}" not in inits
                ctx.check(not shared_, f"class-state:{mod}:{ci.name}.{name}", f"{mod}:{ci.name}", f"class-level container `{name}` is filled through self" if shared_ else "not shared",
                          f"{mod}.{ci.name}.{name} is one container for the whole process (bound in the class body, never per instance) and methods add to it through self: what one compilation collects leaks into the next, so the generated source of a template depends on which templates were compiled before it",
                          ci.loc())
    ctx.floor("classes of the compile path", n_cls, 20)

    return __doc__ or ""
