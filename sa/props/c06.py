"""C06 - macro argument binding follows the documented macro calling rules.

Decided statically: the compiler and the runtime agree on the calling convention - the order
of the implicit parameters appended by macro_body (caller, kwargs, varargs) equals the order
appended by Macro.__call__; the positional arguments of the emitted ``Macro(...)`` match
Macro.__init__ (catch_kwargs <-> accesses_kwargs, catch_varargs <-> accesses_varargs, caller
<-> accesses_caller); every default is indexed ``node.defaults[idx - len(node.args)]`` (the
declared parameters, never the emitted signature); Macro.__call__'s consumption protocol
(positional slice, keyword fill with ``missing``, surplus keyword / positional -> TypeError
unless caught); both call paths end in Macro.__call__.  Also: (skeletons) emitted calls pass every operand and the compiler's extra keywords as the bound names; keyword pass-through callables have no keyword-bindable parameter.  
Not decided: the binding result over
all signatures and call shapes - that is value arithmetic.
"""

from __future__ import annotations

import ast

from .. import astq
from ..core import Ctx
from ..emitrules import get_paths


def check(ctx: Ctx) -> str:
    ctx.use("compiler", "runtime", "parser")
    repo = ctx.repo
    mb = repo.func("compiler:CodeGenerator.macro_body")
    mc = repo.func("runtime:Macro.__call__")
    ctx.rule("R1", "implicit parameter order: macro_body appends caller, kwargs, varargs to the emitted signature in the order Macro.__call__ appends their values")
    comp_order = []
    for c in sorted([c for c in astq.calls(mb.node) if astq.callee(c) == "args.append" and "declare_parameter" in ast.unparse(c)], key=lambda c: c.lineno):
        comp_order.append(ast.unparse(c.args[0]).split("'")[1])
    rt_order = []
    for c in sorted([c for c in astq.calls(mc.node) if astq.callee(c) == "arguments.append"], key=lambda c: c.lineno):
        a = ast.unparse(c.args[0])
        if a == "caller":
            rt_order.append("caller")
        elif a == "kwargs":
            rt_order.append("kwargs")
        elif a.startswith("args["):
            rt_order.append("varargs")
    ctx.check(comp_order == ["caller", "kwargs", "varargs"] and rt_order == comp_order, "order", "runtime:Macro.__call__", "implicit parameter order",
              f"the compiler appends implicit parameters as {comp_order}, Macro.__call__ passes them as {rt_order}: values end up in the wrong parameters", mc.loc(), detail={"compiler": comp_order, "runtime": rt_order})
    # the guards agree: compiler adds X iff it sets accesses_X, runtime appends iff catch_X / caller
    for name, flag in (("caller", "accesses_caller"), ("kwargs", "accesses_kwargs"), ("varargs", "accesses_varargs")):
        sets = [n for n in ast.walk(mb.node) if isinstance(n, ast.Assign) and ast.unparse(n.targets[0]) == f"macro_ref.{flag}" and ast.unparse(n.value) == "True"]
        ctx.check(len(sets) == 1, f"flag:{flag}", "compiler:CodeGenerator.macro_body", f"{flag} set once", f"macro_body must set macro_ref.{flag} exactly where it declares the implicit parameter {name}", mb.loc())
    rt_guards = {"caller": "self.caller and (not found_caller)", "kwargs": "self.catch_kwargs", "varargs": "self.catch_varargs"}
    rt_atoms = {"caller": [("self.caller", True), ("found_caller", False)], "kwargs": [("self.catch_kwargs", True)], "varargs": [("self.catch_varargs", True)]}
    for c in [c for c in astq.calls(mc.node) if astq.callee(c) == "arguments.append"]:
        a = ast.unparse(c.args[0])
        key = "caller" if a == "caller" else "kwargs" if a == "kwargs" else "varargs" if a.startswith("args[") else None
        if key:
            gs = [g for g, pol in astq.guard_texts(mc.node, c) if pol]
            at_ = astq.guard_atoms(mc.node, c)
            ctx.check(rt_guards[key] in gs or all(a_ in at_ for a_ in rt_atoms[key]), f"rt-guard:{key}", "runtime:Macro.__call__", f"{key} appended under {gs}", f"Macro.__call__ must pass {key} exactly when `{rt_guards[key]}`", mc.loc(c))

    ctx.rule("R2", "emitted Macro(environment, macro, name, arguments, accesses_kwargs, accesses_varargs, accesses_caller, autoescape) lines up with Macro.__init__(environment, func, name, arguments, catch_kwargs, catch_varargs, caller, default_autoescape)")
    init = repo.func("runtime:Macro.__init__")
    ctx.check(init.params()[1:] == ["environment", "func", "name", "arguments", "catch_kwargs", "catch_varargs", "caller", "default_autoescape"], "init:params", "runtime:Macro.__init__", "parameter order", f"Macro.__init__ parameters: {init.params()[1:]}", init.loc())
    res = get_paths(ctx, ["macro_def"])
    n = 0
    for p, sk in res["macro_def"]:
        if p.outcome != "normal":
            continue
        n += 1
        try:
            call = ast.parse(sk.text.strip(), mode="eval").body
        except SyntaxError:
            ctx.bad("compiler:CodeGenerator.macro_def", "unparseable", sk.text[:100], "src/jinja2/compiler.py")
            continue
        args = [ast.unparse(a) for a in call.args] if isinstance(call, ast.Call) else []
        labels = [h.label for h in sk.holes]
        ok = isinstance(call, ast.Call) and ast.unparse(call.func) == "Macro" and len(args) == 8 and args[0] == "environment" and args[1] == "macro" and args[7] == "context.eval_ctx.autoescape"
        order = [l for l in labels if "accesses_" in l]
        ok = ok and [l.split(".")[-1] for l in order] == ["accesses_kwargs", "accesses_varargs", "accesses_caller"]
        ctx.check(ok, f"macro_def:{n}", "compiler:CodeGenerator.macro_def", "Macro(...) argument order", f"macro_def emits `{sk.text.strip()[:120]}` with flags {order}: positional slots of Macro.__init__ are (…, catch_kwargs, catch_varargs, caller, default_autoescape)", "src/jinja2/compiler.py", detail={"emitted": sk.text.strip()[:140], "holes": labels})
    ctx.floor("macro_def paths", n, 2)
    s = ast.unparse(repo.func("compiler:CodeGenerator.macro_def").node)
    ctx.check("if len(macro_ref.node.args) == 1:" in s and "arg_tuple += ','" in s, "macro_def:tuple", "compiler:CodeGenerator.macro_def", "one-element tuple", "a single parameter must still be emitted as a tuple", "src/jinja2/compiler.py")

    ctx.rule("R3", "defaults are indexed relative to the *declared* parameters: every node.defaults[...] in macro_body uses index <position> - len(node.args)")
    subs = [n_ for n_ in ast.walk(mb.nnode) if isinstance(n_, ast.Subscript) and ast.unparse(n_.value) == "node.defaults"]  # normal form: a local naming len(node.args) is inlined
    ctx.floor("node.defaults subscripts", len(subs), 2)
    for sub in subs:
        lin = astq.linear(sub.slice)
        ok = lin is not None and lin.get("len(node.args)") == -1 and len([k for k in lin if k]) == 2 and all(v in (1, -1) for v in lin.values())
        ctx.check(ok, f"defaults:{ast.unparse(sub.slice)}", "compiler:CodeGenerator.macro_body", f"node.defaults[{ast.unparse(sub.slice)}]",
                  f"a default is looked up with index `{ast.unparse(sub.slice)}`; it must be <parameter position> - len(node.args) - the emitted signature `args` also contains the implicit caller/kwargs/varargs parameters and shifts the defaults", mb.loc(sub), detail={"index": ast.unparse(sub.slice), "normal_form": lin})
    # a parameter without default is bound to undefined, one with default evaluates it at call time inside `if ref is missing`
    s = ast.unparse(mb.node)
    ctx.check("if {ref} is missing:" in s and "undefined(\"parameter {arg.name!r} was not provided\"" in s.replace("'parameter", '"parameter').replace("provided',", 'provided",') or "was not provided" in s, "defaults:missing", "compiler:CodeGenerator.macro_body", "missing parameters", "unfilled parameters must be tested with `is missing` and become undefined or their default", mb.loc())

    ctx.rule("R4", "Macro.__call__ consumption protocol: positional args fill the first parameters, keywords fill the rest by name (missing otherwise), leftovers go to kwargs/varargs or raise TypeError; the result comes from _invoke")
    s = ast.unparse(mc.node)
    # the by-name loop: over self.arguments[<number of positionals consumed>:], whatever the
    # loop variable (and a local holding that number) is called
    def _res(e: ast.AST) -> str:
        if isinstance(e, ast.Name):
            src = [a for a in ast.walk(mc.node) if isinstance(a, ast.Assign) and len(a.targets) == 1 and isinstance(a.targets[0], ast.Name) and a.targets[0].id == e.id]
            if len(src) == 1:
                return ast.unparse(src[0].value)
        return ast.unparse(e)

    by_name = [l for l in ast.walk(mc.node) if isinstance(l, ast.For) and isinstance(l.iter, ast.Subscript) and ast.unparse(l.iter.value) == "self.arguments" and isinstance(l.iter.slice, ast.Slice) and l.iter.slice.lower is not None and l.iter.slice.upper is None and _res(l.iter.slice.lower) == "len(arguments)" and isinstance(l.target, ast.Name)]
    pv = by_name[0].target.id if len(by_name) == 1 else "name"  # type: ignore[attr-defined]
    # inside that loop the keyword of the same name is consumed, `missing` when absent: either
    # `try: V = kwargs.pop(p) except KeyError: V = missing` or `V = kwargs.pop(p, missing)`,
    # and V is what is appended
    ok_pop = ok_miss = False
    if len(by_name) == 1:
        for a_ in ast.walk(by_name[0]):
            if isinstance(a_, ast.Assign) and len(a_.targets) == 1 and isinstance(a_.targets[0], ast.Name) and isinstance(a_.value, ast.Call) and astq.callee(a_.value) == "kwargs.pop" and a_.value.args and ast.unparse(a_.value.args[0]) == pv:
                vn_ = a_.targets[0].id
                ok_pop = f"arguments.append({vn_})" in ast.unparse(by_name[0])
                if len(a_.value.args) == 2:
                    ok_miss = ast.unparse(a_.value.args[1]) == "missing"
                else:
                    tr_ = getattr(a_, "_parent", None)
                    ok_miss = isinstance(tr_, ast.Try) and a_ in tr_.body and any(h.type is not None and ast.unparse(h.type) == "KeyError" and [ast.unparse(x) for x in h.body] == [f"{vn_} = missing"] for h in tr_.handlers)
    ctx.check(ok_pop, "call:keyword consumed", "runtime:Macro.__call__", "keyword consumed", "Macro.__call__ lost the step `value = kwargs.pop(<parameter>)` / `arguments.append(value)` in the by-name loop", mc.loc())
    ctx.check(ok_miss, "call:unfilled -> missing", "runtime:Macro.__call__", "unfilled -> missing", "a parameter without positional or keyword value must be passed as `missing` (so that its default applies)", mc.loc())
    ctx.check(len(by_name) == 1, "call:remaining parameters by name", "runtime:Macro.__call__", "remaining parameters by name", "Macro.__call__ lost the step `for <param> in self.arguments[len(arguments):]`", mc.loc())
    for frag, what in (
        ("arguments = list(args[:self._argument_count])", "positional slice"),
        ("arguments.append(args[self._argument_count:])", "surplus positional -> varargs"),
        ("return self._invoke(arguments, autoescape)", "invoke"),
    ):
        ctx.check(frag in s, f"call:{what}", "runtime:Macro.__call__", what, f"Macro.__call__ lost the step `{frag}`", mc.loc())
    rs = [r for r in astq.raises(mc.node) if astq.raise_type(r) == "TypeError"]
    gts = [" & ".join(g for g, pol in astq.guard_texts(mc.node, r) if pol) for r in rs]
    ctx.check(len(rs) == 3 and any("len(args) > self._argument_count" in g for g in gts) and sum("kwargs" in g for g in gts) == 2, "call:typeerrors", "runtime:Macro.__call__", "TypeError paths",
              f"surplus keyword arguments (without kwargs) and surplus positional arguments (without varargs) must raise TypeError; guards found: {gts}", mc.loc())
    # elif kwargs / elif len(args) > count: only when not caught
    for test, catch in (("kwargs", "self.catch_kwargs"), ("len(args) > self._argument_count", "self.catch_varargs")):
        hit = [n_ for n_ in ast.walk(mc.node) if isinstance(n_, ast.If) and ast.unparse(n_.test) == catch]
        ok = len(hit) == 1 and len(hit[0].orelse) == 1 and isinstance(hit[0].orelse[0], ast.If) and ast.unparse(hit[0].orelse[0].test) == test
        ctx.check(ok, f"call:else:{catch}", "runtime:Macro.__call__", f"{catch} else-branch", f"the TypeError for `{test}` must be the else-branch of `{catch}`", mc.loc())
    ci = repo.func("runtime:Macro.__init__")
    ctx.check("self._argument_count = len(arguments)" in ast.unparse(ci.node) and "self.explicit_caller = 'caller' in arguments" in ast.unparse(ci.node), "init:counts", "runtime:Macro.__init__", "argument count", "Macro must derive its argument count and explicit caller flag from the declared arguments", ci.loc())
    # both call paths end in Macro.__call__: templates call the Macro object, modules export the same object
    vm = repo.func("compiler:CodeGenerator.visit_Macro")
    s = ast.unparse(vm.node)
    ctx.check("context.vars[{node.name!r}] = " in s and "self.macro_def(macro_ref, macro_frame)" in s, "export:macro-object", "compiler:CodeGenerator.visit_Macro", "module exports the Macro object", "a top-level macro must be stored in context.vars as the same Macro object the template calls", vm.loc())
    # which implicit parameters (caller / kwargs / varargs) a macro receives is decided by
    # find_undeclared over its body: it must see every reference
    from .c07 import undeclared_visitor_rule

    undeclared_visitor_rule(ctx, "R5")
    # a macro / call block receives exactly what the call site wrote: every operand, and the
    # caller / loop variables under their own names
    from .c02 import call_emission_rule

    call_emission_rule(ctx, "R6")

    ctx.rule("R7", "keyword pass-through: a callable that forwards the template's keyword arguments through **kwargs has no other parameter a keyword could bind to - they are positional-only or name-mangled (__x)")
    proxies = ("runtime:Macro.__call__", "runtime:Context.call", "sandbox:SandboxedEnvironment.call", "utils:Namespace.__init__")
    for spec in proxies:
        fi = repo.func(spec)
        a = fi.node.args
        ctx.need(a.kwarg is not None, f"{spec} no longer takes **kwargs")
        clash = [x.arg for x in a.args + a.kwonlyargs if not x.arg.startswith("__")]
        ctx.check(not clash, f"proxy:{spec}", spec, f"parameters {clash} can be bound by a template keyword",
                  f"{spec} takes the template's keyword arguments in **{a.kwarg.arg} but also has the keyword-bindable parameters {clash}: `{{{{ m({clash[0] if clash else 'x'}=1) }}}}` raises TypeError (multiple values for argument) instead of reaching the macro's kwargs - make them positional-only (`/`) or name-mangled",
                  fi.loc(), detail={"function": spec, "positional_only": [x.arg for x in a.posonlyargs], "clash": clash})
    # the defaults of a `{% call(...) %}` signature are analysed into the frame they are compiled
    # in, like a macro's (rule owned by C03)
    from . import c03

    ctx.run_imported("C03", {"R7"}, c03.check)
    return __doc__ or ""
