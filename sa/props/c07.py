"""C07 - the loop variable reports correct iteration state for every iterable.

Decided statically: AsyncLoopContext's members equal LoopContext's under erasure of the async
decoration (length, revindex0, revindex, _peek_next, last, nextitem, __next__/__anext__);
the index arithmetic as linear forms (index = index0 + 1, revindex0 = length - index,
revindex = length - index0, depth = depth0 + 1, first: index0 == 0, and the length of an
unsized iterable = consumed so far + remaining + the look-ahead item); the look-ahead
protocol (only length/_peek_next/__next__ touch the iterator, __next__ consumes the buffered
look-ahead item before advancing, then shifts previtem/current); (skeletons) the emitted
``[Async]LoopContext(iter, undefined[, loop_render_func, depth])`` call matches __init__, the
else indicator is set before the loop, cleared as the last body statement and tested after.
Also: loop(children) always delegates to the loop function.  
Not decided: the values over all iterables when both twins are edited alike beyond these forms.
"""

from __future__ import annotations

import ast

from .. import astq
from ..core import Ctx
from ..emitrules import get_paths
from ..emitrules import reparse
from ..erase import body_same

TWINS = [("length", "length"), ("revindex0", "revindex0"), ("revindex", "revindex"), ("_peek_next", "_peek_next"), ("last", "last"), ("nextitem", "nextitem"), ("__next__", "__anext__"), ("__iter__", "__aiter__")]


def check(ctx: Ctx) -> str:
    ctx.use("runtime", "compiler", "async_utils")
    loop_twins(ctx, "R1")
    rest(ctx)
    undeclared_visitor_rule(ctx, "R6")

    ctx.rule("R7", "recursion: loop(children) always runs the loop function for the nested level (whatever the iterable - an empty level still renders its else branch); the only other exit is the TypeError for a non-recursive loop")
    lcall = ctx.repo.func("runtime:LoopContext.__call__")
    rets = [r for r in astq.returns(lcall.nnode) if r.value is not None]  # a local naming self._recurse is inlined
    par = lcall.node.args.args[1].arg if len(lcall.node.args.args) > 1 else "iterable"
    ok = len(rets) == 1 and ast.unparse(rets[0].value) == f"self._recurse({par}, self._recurse, depth=self.depth)" and astq.guard_atoms(lcall.nnode, rets[0]) == [("self._recurse is None", False)]
    ctx.check(ok, "loop-call:delegates", "runtime:LoopContext.__call__", f"returns {[ast.unparse(r.value)[:40] for r in rets]}",
              f"LoopContext.__call__ must return self._recurse({par}, self._recurse, depth=self.depth) on every path of a recursive loop (found {[(ast.unparse(r.value)[:40], astq.guard_atoms(lcall.nnode, r)) for r in rets]}): a shortcut for an empty / falsy level skips the nested loop, so its `{{% else %}}` branch is not rendered",
              lcall.loc())
    ctx.check("__call__" not in ctx.repo.cls("runtime:AsyncLoopContext").methods, "loop-call:async-inherits", "runtime:AsyncLoopContext", "async loop call", "AsyncLoopContext must inherit __call__ (the recursive render function is awaited by the caller)", lcall.loc())
    # loop attributes of the async loop context are coroutine properties: whatever syntax reads
    # them (`loop.length`, `loop['length']`) is awaited in async mode (rule owned by C09)
    from .c09 import async_awaits_rule

    async_awaits_rule(ctx, "R8")
    return __doc__ or ""


# node classes at which UndeclaredNameVisitor may stop, with the reason
UNDECLARED_STOPS = {
    "visit_Block": "a block body is compiled as its own function, which runs find_undeclared for self / super itself; `loop` and macro specials are not visible in an unscoped block",
}


def undeclared_visitor_rule(ctx: Ctx, rid: str) -> None:
    """``find_undeclared`` decides whether a loop gets a LoopContext (``loop``) and which
    implicit parameters a macro receives (caller / kwargs / varargs).  It must
    over-approximate: a reference it does not see is compiled against a name that is never
    bound.  So the visitor may only *stop* at the reviewed classes; every other method has to
    continue into all children."""
    ctx.use("compiler")
    repo = ctx.repo
    ctx.rule(rid, "find_undeclared over-approximates: UndeclaredNameVisitor handles Name itself, stops only at the reviewed node classes, and any other visit_* method continues with generic_visit on every path; all callers pass whole statement lists")
    ci = repo.cls("compiler:UndeclaredNameVisitor")
    n = 0
    for name, fn in sorted(ci.methods.items()):
        if not name.startswith("visit_") or name == "visit_Name":
            continue
        n += 1
        body = [s for s in fn.body if not (isinstance(s, ast.Expr) and isinstance(s.value, ast.Constant))]
        if name in UNDECLARED_STOPS:
            ctx.check(not body or all(isinstance(s, ast.Pass) for s in body), f"stop:{name}", f"compiler:UndeclaredNameVisitor.{name}", "reviewed stop", f"{name} is expected to be an empty stop", ci.loc(fn))
            continue
        top = [s for s in body if isinstance(s, (ast.Expr, ast.Return)) and s.value is not None and isinstance(s.value, ast.Call) and ast.unparse(s.value.func) in ("self.generic_visit", "super().generic_visit")]
        ctx.check(bool(top), f"descend:{name}", f"compiler:UndeclaredNameVisitor.{name}", f"{name} does not visit all children unconditionally",
                  f"UndeclaredNameVisitor.{name} does not call generic_visit unconditionally: references inside the skipped children (a nested loop's else branch or filter, a call block's arguments) are not seen, the enclosing loop is compiled without its LoopContext / the macro without its implicit parameter, and the name is undefined (or bound to an outer loop) at run time", ci.loc(fn))
    vn = ci.methods.get("visit_Name")
    ctx.need(vn is not None, "UndeclaredNameVisitor.visit_Name vanished")
    adds = [c for c in ast.walk(vn) if isinstance(c, ast.Call) and ast.unparse(c.func) == "self.undeclared.add"]
    ok = len(adds) == 1 and sorted(astq.guard_atoms(vn, adds[0])) == [("node.ctx == 'load'", True), ("node.name in self.names", True)]
    ctx.check(ok, "visit_Name:records", "compiler:UndeclaredNameVisitor.visit_Name", "records every load of a watched name", "visit_Name must record every load of a watched name, under no further condition", ci.loc(vn))
    ctx.floor("UndeclaredNameVisitor methods besides visit_Name", n, 1)
    # when is a loop compiled with a LoopContext?  recursive, `loop` referenced anywhere in the
    # body, or a scoped block anywhere below (its function receives the loop's variables
    # through the derived context, so `loop` must exist even if only the block - or a child
    # template's override - mentions it).  "anywhere" = a deep search, not the direct children.
    vf = repo.func("compiler:CodeGenerator.visit_For")
    ext = [a for a in ast.walk(vf.node) if isinstance(a, ast.Assign) and ast.unparse(a.targets[0]) == "extended_loop"]
    ctx.need(len(ext) == 1 and isinstance(ext[0].value, ast.BoolOp) and isinstance(ext[0].value.op, ast.Or), "extended_loop is no longer a disjunction assigned once in visit_For")
    disj = [ast.unparse(v) for v in ext[0].value.values]
    ctx.check("node.recursive" in disj, "extended:recursive", "compiler:CodeGenerator.visit_For", "recursive loops are extended", f"extended_loop lost the `node.recursive` alternative: {disj}", vf.loc(ext[0]))
    ctx.check(any(d.startswith("'loop' in find_undeclared(") for d in disj), "extended:reference", "compiler:CodeGenerator.visit_For", "loops whose body mentions `loop` are extended", f"extended_loop lost the find_undeclared alternative: {disj}", vf.loc(ext[0]))
    gens = [g for v in ext[0].value.values for g in ast.walk(v) if isinstance(g, ast.GeneratorExp)]
    deep = [g for g in gens if any(isinstance(c, ast.Call) and ast.unparse(c.func) == "node.find_all" and "nodes.Block" in ast.unparse(c) for c in ast.walk(g.generators[0].iter))]
    ctx.check(len(deep) == 1 and "scoped" in ast.unparse(deep[0].elt), "extended:scoped-block-deep", "compiler:CodeGenerator.visit_For", "scoped blocks are searched in the whole subtree",
              f"extended_loop must hold when a scoped block occurs anywhere below the loop (node.find_all(nodes.Block)); found {[ast.unparse(g)[:80] for g in gens]}: a scoped block nested in an if / with inside the loop body then sees no `loop` (UndefinedError) or the enclosing loop's", vf.loc(ext[0]))
    # callers hand over complete bodies
    cg = repo.cls("compiler:CodeGenerator")
    want = {"macro_body": "node.body", "visit_Template": "node.body", "visit_For": "node.iter_child_nodes(only=('body',))"}
    for meth, arg in want.items():
        fn = cg.methods[meth]
        cs = [c for c in ast.walk(fn) if isinstance(c, ast.Call) and ast.unparse(c.func) == "find_undeclared"]
        okc = bool(cs) and any(ast.unparse(c.args[0]) in (arg, "block.body") for c in cs)
        ctx.check(okc, f"caller:{meth}", f"compiler:CodeGenerator.{meth}", f"find_undeclared over {arg}", f"{meth} must run find_undeclared over {arg}", ci.loc(fn))


def loop_twins(ctx: Ctx, rid: str) -> None:
    repo = ctx.repo
    lc = repo.cls("runtime:LoopContext")
    ac = repo.cls("runtime:AsyncLoopContext")
    ctx.rule(rid, "AsyncLoopContext members are LoopContext's members under erasure of await / async / __anext__ / auto_aiter")
    for s, a in TWINS:
        sf, af = lc.methods.get(s), ac.methods.get(a)
        ctx.need(sf is not None and af is not None, f"twin {s}/{a} vanished")
        ok, diff = body_same(sf, af)
        ctx.check(ok, f"{s}~{a}", f"runtime:AsyncLoopContext.{a}", f"differs from LoopContext.{s}",
                  f"AsyncLoopContext.{a} is not LoopContext.{s} under erasure: {diff} - async loops report different loop state than sync loops", ac.loc(af), detail={"sync": s, "async": a})
    overridden = set(ac.methods) - {a for _, a in TWINS} - {"_to_iterator"}
    ctx.check(not overridden, "no-extra-overrides", "runtime:AsyncLoopContext", f"unpaired overrides {sorted(overridden)}", f"AsyncLoopContext overrides {sorted(overridden)} without a registered twin rule", ac.loc())
    ti = ac.methods.get("_to_iterator")
    ctx.check(ti is not None and "auto_aiter(iterable)" in ast.unparse(ti), "async:_to_iterator", "runtime:AsyncLoopContext._to_iterator", "iterator source", "AsyncLoopContext must iterate through auto_aiter(iterable)", ac.loc())
    si = lc.methods.get("_to_iterator")
    ctx.check(si is not None and "iter(iterable)" in ast.unparse(si), "sync:_to_iterator", "runtime:LoopContext._to_iterator", "iterator source", "LoopContext must iterate through iter(iterable)", lc.loc())


def rest(ctx: Ctx) -> None:
    repo = ctx.repo
    lc = repo.cls("runtime:LoopContext")
    ac = repo.cls("runtime:AsyncLoopContext")
    ctx.rule("R5", "index arithmetic as linear forms")
    forms = {
        "index": {"self.index0": 1, "": 1}, "depth": {"self.depth0": 1, "": 1},
        "revindex0": {"self.length": 1, "self.index": -1}, "revindex": {"self.length": 1, "self.index0": -1},
    }
    for name, want in forms.items():
        fn = lc.methods[name]
        from ..normalize import norm as _norm

        r = astq.returns(_norm(fn))  # locals naming self.length / self.index are inlined
        got = astq.linear(r[0].value) if len(r) == 1 and r[0].value is not None else None
        ctx.check(got == want, f"form:{name}", f"runtime:LoopContext.{name}", f"{name} formula", f"LoopContext.{name} returns `{ast.unparse(r[0].value) if r else ''}` (normal form {got}), documented {want}", lc.loc(fn), detail={"name": name, "normal_form": got})
    fn = lc.methods["first"]
    r = astq.returns(fn)
    ctx.check(len(r) == 1 and astq.linear_cmp(r[0].value) == ({"self.index0": 1}, "=="), "form:first", "runtime:LoopContext.first", "first", "loop.first must be index0 == 0", lc.loc(fn))
    for cls in (lc, ac):
        from ..normalize import norm as _norm

        fn = _norm(cls.methods["length"])  # a local naming len(<drained list>) is inlined
        # the local holding the drained items (whatever it is called)
        drains = [n for n in ast.walk(fn) if isinstance(n, ast.Assign) and isinstance(n.targets[0], ast.Name) and ast.unparse(n.value) in ("list(self._iterator)", f"[{'x'} async for x in self._iterator]") or (isinstance(n, ast.Assign) and isinstance(n.targets[0], ast.Name) and isinstance(n.value, ast.ListComp) and "self._iterator" in ast.unparse(n.value.generators[0].iter) and ast.unparse(n.value.elt) == ast.unparse(n.value.generators[0].target))]
        dv = drains[0].targets[0].id if len(drains) == 1 else "iterable"  # type: ignore[attr-defined]
        asg = [n for n in ast.walk(fn) if isinstance(n, ast.Assign) and ast.unparse(n.targets[0]) == "self._length" and f"len({dv})" in ast.unparse(n.value)]
        got = astq.linear(asg[0].value) if len(asg) == 1 else None
        want = {f"len({dv})": 1, "self.index": 1, "self._after is not missing": 1}
        ctx.check(got == want, f"form:length:{cls.name}", f"runtime:{cls.name}.length", "length of an unsized iterable",
                  f"{cls.name}.length computes `{ast.unparse(asg[0].value) if asg else ''}` for unsized iterables; it must count the remaining items, the items consumed so far (index) and a buffered look-ahead item", cls.loc(fn), detail={"normal_form": got})
        s = ast.unparse(fn)
        ctx.check("self._length = len(self._iterable)" in s and "except TypeError" in s and f"self._iterator = self._to_iterator({dv})" in s, f"length:shape:{cls.name}", f"runtime:{cls.name}.length", "sized first, then drain and re-wrap",
                  "length must use len() when available, otherwise drain the iterator into a list and keep iterating over that list", cls.loc(fn))
    cy = lc.methods["cycle"]
    r = astq.returns(_norm(cy))
    ctx.check(len(r) == 1 and ast.unparse(r[0].value) == "args[self.index0 % len(args)]", "cycle", "runtime:LoopContext.cycle", "cycle index", "loop.cycle must pick args[index0 % len(args)]", lc.loc(cy))
    ch = lc.methods["changed"]
    s = ast.unparse(_norm(ch))  # a local naming the previous value is inlined; `!=` is `==` with the branches swapped
    ctx.check(("self._last_changed_value != value" in s or "self._last_changed_value == value" in s) and "self._last_changed_value = value" in s, "changed", "runtime:LoopContext.changed", "changed protocol", "loop.changed must compare with and then store the last value", lc.loc(ch))

    ctx.rule("R4", "look-ahead protocol: only length / _peek_next / __next__ read the iterator; __next__ takes the buffered look-ahead item first, then advances index0 and shifts previtem <- current <- item; _peek_next caches one item")
    for cls, nxt in ((lc, "__next__"), (ac, "__anext__")):
        readers = {name for name, fn in cls.methods.items() if any(isinstance(n, ast.Attribute) and n.attr == "_iterator" and isinstance(n.ctx, ast.Load) for n in ast.walk(fn))}
        ctx.check(readers <= {"length", "_peek_next", nxt}, f"{cls.name}:readers", f"runtime:{cls.name}", f"iterator read in {sorted(readers - {'length', '_peek_next', nxt})}", f"{cls.name} reads the iterator outside length/_peek_next/{nxt}: querying a loop attribute would consume items", cls.loc())
        fn = cls.methods[nxt]
        body = [s_ for s_ in fn.body if not (isinstance(s_, ast.Expr) and isinstance(s_.value, ast.Constant))]
        # facts, independent of how the branches are written and what the local is called
        rets_ = astq.returns(fn)
        item = None
        if len(rets_) == 1 and isinstance(rets_[0].value, ast.Tuple) and len(rets_[0].value.elts) == 2 and ast.unparse(rets_[0].value.elts[1]) == "self" and isinstance(rets_[0].value.elts[0], ast.Name):
            item = rets_[0].value.elts[0].id
        ok = item is not None and not astq.guard_atoms(fn, rets_[0])
        why = "returns (item, self) on every path" if ok else "must return (item, self) unconditionally"
        if ok:
            srcs = {ast.unparse(a.value).replace("await ", ""): (a, astq.guard_atoms(fn, a)) for a in ast.walk(fn) if isinstance(a, ast.Assign) and ast.unparse(a.targets[0]) == item}
            pull = "next(self._iterator)" if nxt == "__next__" else "self._iterator.__anext__()"
            ok = set(srcs) == {"self._after", pull} and srcs["self._after"][1] == [("self._after is missing", False)] and srcs[pull][1] == [("self._after is missing", True)]
            why = f"item sources {sorted(srcs)} with guards {[g for _, g in srcs.values()]}"
            clears = [a for a in ast.walk(fn) if isinstance(a, ast.Assign) and ast.unparse(a) == "self._after = missing"]
            ok = ok and len(clears) == 1 and astq.guard_atoms(fn, clears[0]) == [("self._after is missing", False)]
            incs_ = [a for a in ast.walk(fn) if isinstance(a, ast.AugAssign) and ast.unparse(a.target) == "self.index0"]
            ok = ok and len(incs_) == 1 and isinstance(incs_[0].op, ast.Add) and ast.unparse(incs_[0].value) == "1" and not astq.guard_atoms(fn, incs_[0])
            shift = [a for a in ast.walk(fn) if isinstance(a, ast.Assign) and ast.unparse(a) in ("self._before = self._current", f"self._current = {item}")]
            ok = ok and [ast.unparse(a) for a in sorted(shift, key=lambda a: a.lineno)] == ["self._before = self._current", f"self._current = {item}"] and not any(astq.guard_atoms(fn, a) for a in shift)
        ctx.check(ok, f"{cls.name}.{nxt}:protocol", f"runtime:{cls.name}.{nxt}", "advance protocol",
                  f"{cls.name}.{nxt} must: use and clear the buffered look-ahead item if present, else pull from the iterator; then index0 += 1; _before = _current; _current = item; return (item, self) [{why}]", cls.loc(fn),
                  detail={"statements": [ast.unparse(x)[:60] for x in body]})
        pk = cls.methods["_peek_next"]
        reads = [a for a in ast.walk(pk) if isinstance(a, ast.Attribute) and a.attr == "_iterator" and isinstance(a.ctx, ast.Load)]
        cached = bool(reads) and all(("self._after is missing", True) in astq.guard_atoms(pk, r_) for r_ in reads) and all(ast.unparse(r_.value) == "self._after" for r_ in astq.returns(pk))
        ctx.check(cached, f"{cls.name}._peek_next:cache", f"runtime:{cls.name}._peek_next", "cached look-ahead", "_peek_next must return the cached look-ahead item without touching the iterator again (the iterator is read only while self._after is missing; every return is self._after)", cls.loc(pk))
    pv = lc.methods["previtem"]
    pv_rets = {ast.unparse(r_.value): astq.guard_atoms(pv, r_) for r_ in astq.returns(pv) if r_.value is not None}
    ctx.check(("self.first", False) in pv_rets.get("self._before", []) and any(("self.first", True) in g_ and "_undefined(" in v_ for v_, g_ in pv_rets.items()), "previtem", "runtime:LoopContext.previtem", "previtem", "previtem must be undefined on the first iteration and _before afterwards", lc.loc(pv))

    ctx.rule("R2", "(skeletons) the loop context is constructed as [Async]LoopContext(<iter>, undefined[, loop_render_func, depth]) - matching LoopContext.__init__(iterable, undefined, recurse, depth0) - exactly for extended loops")
    init = repo.func("runtime:LoopContext.__init__")
    ctx.check(init.params()[1:] == ["iterable", "undefined", "recurse", "depth0"], "init:params", "runtime:LoopContext.__init__", "parameter order", f"LoopContext.__init__ parameters are {init.params()[1:]}", init.loc())
    res = get_paths(ctx, ["visit_For"])
    n = 0
    for p, sk in res["visit_For"]:
        if p.outcome != "normal" or sk.error:
            continue
        tree = reparse(sk, "visit_For", "stmt")
        assert tree is not None
        is_async = bool(p.decisions.get("self.environment.is_async"))
        calls = [c for c in ast.walk(tree) if isinstance(c, ast.Call) and isinstance(c.func, ast.Name) and c.func.id in ("LoopContext", "AsyncLoopContext")]
        rec = bool(p.decisions.get("node.recursive"))
        n += 1
        for c in calls:
            args = [ast.unparse(a) for a in c.args]
            ok = c.func.id == ("AsyncLoopContext" if is_async else "LoopContext") and len(args) in (2, 4) and args[1] == "undefined" and (len(args) == 2 or args[2:] == ["loop_render_func", "depth"]) and (len(args) == 4) == rec
            ctx.check(ok, f"loopctx:{n}", "compiler:CodeGenerator.visit_For", f"{c.func.id}({', '.join(a[:12] for a in args)})", f"visit_For (async={is_async}, recursive={rec}) constructs `{ast.unparse(c)[:100]}`", "src/jinja2/compiler.py")
        # R3 else indicator
        has_else = p.decisions.get("len(node.else_)")
        if has_else:
            loops = [x for x in ast.walk(tree) if isinstance(x, (ast.For, ast.AsyncFor)) and not any(isinstance(y, (ast.FunctionDef, ast.AsyncFunctionDef)) and y.name.startswith("t_") and x in ast.walk(y) for y in ast.walk(tree))]
            main = [x for x in loops if any("_loop_vars = {}" == ast.unparse(s_) for s_ in x.body)]
            ok = False
            if len(main) == 1:
                last = ast.unparse(main[0].body[-1])
                ind = last.split(" = ")[0] if last.endswith(" = 0") else None
                if ind:
                    txt = sk.text
                    ok = f"{ind} = 1" in txt and txt.index(f"{ind} = 1") < txt.index("_loop_vars = {}") and f"if {ind}:" in txt and txt.index(f"if {ind}:") > txt.index(f"{ind} = 0")
            ctx.check(ok, f"else-indicator:{n}", "compiler:CodeGenerator.visit_For", "else indicator protocol", f"for-else: the iteration indicator must be set to 1 before the loop, to 0 as the last statement of the loop body, and tested after the loop:\n{sk.text[:400]}", "src/jinja2/compiler.py")
    ctx.floor("visit_For skeletons", n, 100)
