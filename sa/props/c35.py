"""C35 - errors point at the template line that caused them.

Decided statically: (emission model) in every statement visitor, on every path, a generated
line carrying a template node is started before the statement's first expression is emitted,
so the expression's generated line has its own debug-info entry; the debug-info writer
(template line, code line pairs joined as ``k=v&...``) and reader (split on & and =, int)
agree, and get_corresponding_lineno scans it from the end for the last entry at or before
the failing code line; the line bookkeeping of write/newline (code_lineno advances by the
pending newlines, an entry is written when the node's line changes); Parser.fail and the
token stream default to the current token's line; the lexer's line accounting (C39).
Also: emitted stub functions carry @internalcode; compile_templates writes the generated text verbatim.  
Also: in a multi-token lexer rule every part that can consume a line break lies inside a capture group; the bytecode bucket key depends on the file name.  
Not decided: traceback rewriting at run time (frame surgery in debug.py).
"""

from __future__ import annotations

import ast

from .. import astq
from ..core import Ctx
from ..emitrules import c35_marker_rule
from ..lexrules import token_line_rules


def check(ctx: Ctx) -> str:
    ctx.use("compiler", "environment", "debug", "parser", "lexer")
    repo = ctx.repo
    c35_marker_rule(ctx, "R1")

    ctx.rule("R2", "debug info: writer and reader agree on the format and on the pair order (template line, generated line)")
    vt = repo.func("compiler:CodeGenerator.visit_Template")
    s = ast.unparse(vt.node)
    ctx.check("debug_kv_str = '&'.join((f'{k}={v}' for k, v in self.debug_info))" in s and "debug_info = {debug_kv_str!r}" in s, "writer:format", "compiler:CodeGenerator.visit_Template", "debug_info serialisation", "debug_info must be written as '&'-joined k=v pairs", vt.loc())
    di = repo.func("environment:Template.debug_info")
    comps = [c for c in ast.walk(di.node) if isinstance(c, (ast.ListComp, ast.GeneratorExp)) and len(c.generators) == 1 and ast.unparse(c.generators[0].iter) == "self._debug_info.split('&')"]
    rd_ok = len(comps) == 1 and ast.unparse(comps[0].elt).replace(ast.unparse(comps[0].generators[0].target), "x") == "tuple(map(int, x.split('=')))"
    ctx.check(rd_ok, "reader:format", "environment:Template.debug_info", "debug_info parsing", "Template.debug_info must split on '&' and '=' and convert to int", di.loc())
    wr = repo.func("compiler:CodeGenerator.write")
    s = ast.unparse(wr.node)
    ctx.check("self.debug_info.append((self._write_debug_info, self.code_lineno))" in s, "writer:pair-order", "compiler:CodeGenerator.write", "pair order", "entries must be (template line, generated line)", wr.loc())
    ctx.check("self.code_lineno += self._new_lines" in s and s.index("self.code_lineno += self._new_lines") < s.index("self.debug_info.append("), "writer:lineno-first", "compiler:CodeGenerator.write", "line counter advanced before the entry", "the generated line counter must be advanced by the pending newlines before the entry is recorded", wr.loc())
    ctx.check("self._write_debug_info = None" in s, "writer:consumed", "compiler:CodeGenerator.write", "marker consumed", "a pending marker must be consumed when written", wr.loc())
    nl = repo.func("compiler:CodeGenerator.newline")
    s = nl.ntext  # nested ifs are one conjunction in normal form
    ctx.check("self._new_lines = max(self._new_lines, 1 + extra)" in s and "if node is not None and node.lineno != self._last_line:" in s and "self._write_debug_info = node.lineno" in s and "self._last_line = node.lineno" in s, "newline:marker", "compiler:CodeGenerator.newline", "marker set when the template line changes", "newline(node) must schedule a debug entry whenever the node's line differs from the last recorded one", nl.loc())
    gl = repo.func("environment:Template.get_corresponding_lineno")
    s = ast.unparse(gl.node)
    lk = [l for l in ast.walk(gl.node) if isinstance(l, ast.For) and ast.unparse(l.iter) == "reversed(self.debug_info)" and isinstance(l.target, ast.Tuple) and len(l.target.elts) == 2]
    lk_ok = False
    if len(lk) == 1:
        tl, cl = (ast.unparse(e_) for e_ in lk[0].target.elts)
        hits = [r_ for r_ in astq.returns(lk[0]) if r_.value is not None and ast.unparse(r_.value) == tl]
        # `code_line <= lineno`, written either way round
        lk_ok = len(hits) == 1 and any(astq.linear_cmp(ast.parse(g, mode="eval").body) in (({cl: 1, "lineno": -1}, "<="), ({"lineno": 1, cl: -1}, ">=")) and pol for g, pol in astq.guard_atoms(lk[0], hits[0]))
    dflt_ok = astq.returns(gl.node)[-1].value is not None and ast.unparse(astq.returns(gl.node)[-1].value) == "1"
    # the same search written as next(<generator>, 1)
    for c_ in astq.calls(gl.node):
        if astq.callee(c_) == "next" and len(c_.args) == 2 and isinstance(c_.args[0], ast.GeneratorExp) and len(c_.args[0].generators) == 1:
            g_ = c_.args[0].generators[0]
            if ast.unparse(g_.iter) == "reversed(self.debug_info)" and isinstance(g_.target, ast.Tuple) and len(g_.target.elts) == 2 and len(g_.ifs) == 1:
                tl, cl = (ast.unparse(e_) for e_ in g_.target.elts)
                lk_ok = ast.unparse(c_.args[0].elt) == tl and astq.linear_cmp(g_.ifs[0]) in (({cl: 1, "lineno": -1}, "<="), ({"lineno": 1, cl: -1}, ">="))
                dflt_ok = ast.unparse(c_.args[1]) == "1" and isinstance(getattr(c_, "_parent", None), ast.Return)
    ctx.check(lk_ok and dflt_ok, "reader:lookup", "environment:Template.get_corresponding_lineno", "lookup", "the template line is that of the last entry whose generated line is <= the failing line (default 1)", gl.loc())
    fn = repo.func("environment:Template._from_namespace")
    ctx.check(any(isinstance(a, ast.Assign) and isinstance(a.targets[0], ast.Attribute) and a.targets[0].attr == "_debug_info" and ast.unparse(a.value) == "namespace['debug_info']" for a in ast.walk(fn.node)), "reader:source", "environment:Template._from_namespace", "debug_info taken from the module", "the template must read debug_info from its generated module", fn.loc())
    rt = repo.func("debug:rewrite_traceback_stack")
    s = ast.unparse(rt.node)
    ctx.check("template.get_corresponding_lineno(tb.tb_lineno)" in s and "fake_traceback(exc_value, tb, template.filename, lineno)" in s and "tb.tb_frame.f_globals.get('__jinja_template__')" in s, "traceback:mapping", "debug:rewrite_traceback_stack", "frame mapping", "template frames must be replaced by frames at get_corresponding_lineno(tb_lineno) in template.filename", rt.loc())
    ft = repo.func("debug:fake_traceback")
    ctx.check("'\\n' * (lineno - 1) + 'raise __jinja_exception__'" in ast.unparse(ft.node), "traceback:line", "debug:fake_traceback", "fake frame line", "the fake frame must raise on line `lineno` (lineno - 1 newlines)", ft.loc())

    from .c27 import bucket_key_inputs_rule

    ctx.use("bccache")
    bucket_key_inputs_rule(ctx, "R6")

    from ..lexrules import group_coverage_rule

    group_coverage_rule(ctx, "R7")

    ctx.rule("R4", "syntax errors default to the line of the current token")
    pf = repo.func("parser:Parser.fail")
    s = ast.unparse(pf.node)
    dflt = [a for a in ast.walk(pf.nnode) if isinstance(a, ast.Assign) and ast.unparse(a.targets[0]) == "lineno" and ast.unparse(a.value) == "self.stream.current.lineno"]
    dflt_ok = len(dflt) == 1 and ("lineno is None", True) in astq.guard_atoms(pf.nnode, dflt[0])
    ctx.check(dflt_ok and "raise exc(msg, lineno, self.name, self.filename)" in s, "Parser.fail", "parser:Parser.fail", "default line", "Parser.fail must default to the current token's line", pf.loc())
    ex = repo.func("lexer:TokenStream.expect")
    rs_ = [r.exc for r in astq.raises(ex.node) if isinstance(r.exc, ast.Call) and astq.callee(r.exc) == "TemplateSyntaxError"]
    ctx.check(bool(rs_) and len(rs_) == len(astq.raises(ex.node)) and all(len(c.args) >= 2 and ast.unparse(c.args[1]) == "self.current.lineno" for c in rs_), "TokenStream.expect", "lexer:TokenStream.expect", "error line", "TokenStream.expect must report the current token's line", ex.loc())
    cl = repo.func("lexer:TokenStream.close")
    ctx.check("Token(self.current.lineno, TOKEN_EOF, '')" in cl.ntext, "TokenStream.close", "lexer:TokenStream.close", "eof line", "the EOF token must carry the last line", cl.loc())
    token_line_rules(ctx, "R3")

    ctx.rule("R5", "traceback rewriting: frames of @internalcode functions are dropped *before* a frame is looked at as a template frame (the generated module defines @internalcode stubs, e.g. for unknown filters - their frames carry __jinja_template__ too and sit on the def line); template frames are replaced by a fake frame at get_corresponding_lineno(tb.tb_lineno)")
    ctx.use("debug")
    rw = repo.func("debug:rewrite_traceback_stack")
    loops = [n_ for n_ in ast.walk(rw.node) if isinstance(n_, ast.While) and "tb is not None" in ast.unparse(n_.test)]
    ctx.need(len(loops) == 1, "rewrite_traceback_stack: frame loop not found")
    loop = loops[0]
    tmpl_reads = [n_ for n_ in ast.walk(loop) if isinstance(n_, ast.Call) and "__jinja_template__" in ast.unparse(n_)]
    ctx.need(len(tmpl_reads) >= 1, "rewrite_traceback_stack: __jinja_template__ lookup not found")
    fakes = [c for c in astq.calls(loop) if astq.callee(c) == "fake_traceback"]
    ctx.need(len(fakes) == 1, "rewrite_traceback_stack: fake_traceback call not found in the loop")
    gs = astq.guard_texts(loop, fakes[0])
    skipped_first = any(g == "tb.tb_frame.f_code in internal_code" and not pol for g, pol in gs)
    ctx.check(skipped_first, "rewrite:internal-first", "debug:rewrite_traceback_stack", "template frame handling not guarded by the @internalcode test",
              f"a frame is turned into a template frame on a path where `tb.tb_frame.f_code in internal_code` was not excluded (guards: {[('' if p else 'not ') + g for g, p in gs]}): the @internalcode stub the compiler emits for an unknown filter / test becomes the innermost template frame and the error is reported at the line of the enclosing root / block / macro instead of the failing line", rw.loc(fakes[0]))
    # ... and the compiler marks the helper functions it defines inside the generated module
    # that way: every `def` emitted by pull_dependencies (the stub raising "No filter named
    # ...") carries @internalcode - it runs in the module prologue, before any line mark, so
    # an unmarked stub frame becomes the innermost template frame and names line 1
    from ..emitrules import get_paths

    ndef = 0
    unmarked: list[str] = []
    for p_, sk in get_paths(ctx).get("pull_dependencies", []):
        if p_.outcome != "normal":
            continue
        lines_ = [ln.strip() for ln in sk.text.splitlines()]
        for i_, ln in enumerate(lines_):
            if ln.startswith(("def ", "async def ")):
                ndef += 1
                if not (i_ > 0 and lines_[i_ - 1] == "@internalcode"):
                    unmarked.append(ln)
    ctx.check(not unmarked, "stub:internalcode", "compiler:CodeGenerator.pull_dependencies", "emitted stub function lacks @internalcode",
              f"pull_dependencies emits `{unmarked[0][:50] if unmarked else ''}` without the @internalcode decorator: the frame of that stub (raised from when an unknown filter / test inside a conditional is evaluated) is kept by the traceback rewriter and the error is reported at the line the module prologue maps to instead of the expression's line",
              "src/jinja2/compiler.py", detail={"stub_definitions": ndef, "unmarked": len(unmarked)})
    ctx.floor("stub definitions emitted by pull_dependencies", ndef, 1)
    lin = [c for c in astq.calls(loop) if astq.callee(c).endswith("get_corresponding_lineno")]
    ctx.check(len(lin) == 1 and ast.unparse(lin[0].args[0]) == "tb.tb_lineno", "rewrite:lineno", "debug:rewrite_traceback_stack", "line translation", "the fake frame must carry template.get_corresponding_lineno(tb.tb_lineno)", rw.loc())
    # a precompiled module is the generated source, byte for byte: its debug_info maps *its*
    # line numbers - text put in front of the code shifts every mapped line
    ct = repo.func("environment:Environment.compile_templates")
    gen_ = [a for a in ast.walk(ct.node) if isinstance(a, ast.Assign) and isinstance(a.value, ast.Call) and astq.callee(a.value) == "self.compile" and isinstance(a.targets[0], ast.Name)]
    wf_ = [c for c in astq.calls(ct.node) if astq.callee(c) == "write_file" and len(c.args) == 2]
    ctx.check(len(gen_) == 1 and bool(wf_) and all(ast.unparse(c.args[1]) == gen_[0].targets[0].id for c in wf_), "compile_templates:verbatim", "environment:Environment.compile_templates", f"module text written: {[ast.unparse(c.args[1])[:50] for c in wf_]}",
              f"compile_templates must write exactly what self.compile(...) returned ({[ast.unparse(c.args[1]) for c in wf_]}): a header or any other edit of the module text moves the code off the line numbers recorded in its debug_info, and errors in precompiled templates are reported one line off", ct.loc())
    return __doc__ or ""
