"""C36 - async rendering always closes the generators it opens.

Decided statically (pairing rules on the emitted code and the entry points): in every async
skeleton of the code generator an ``async for`` over an engine-created generator iterates a
*named* generator inside ``try/finally: await <name>.aclose()`` - never a generator created
inline in the loop header; the sync forms close with ``.close()``; ``generate_async`` wraps
the root generator in ``aclosing``; the remaining consumers are comprehensions whose bodies
cannot be left early; ``auto_aiter`` hands out the object's own async iterator.
Not decided: scheduling / cancellation points themselves.
"""

from __future__ import annotations

import ast

from .. import astq
from ..core import Ctx
from ..emitrules import c36_skeleton_rules


def check(ctx: Ctx) -> str:
    ctx.use("compiler", "environment", "async_utils", "runtime")
    repo = ctx.repo
    c36_skeleton_rules(ctx)

    ctx.rule("R2", "generate_async iterates the root generator inside `async with aclosing(agen)`; sync generate delegates with `yield from`")
    ga = repo.func("environment:Template.generate_async")
    withs = [n for n in ast.walk(ga.node) if isinstance(n, ast.AsyncWith)]
    ok = len(withs) == 1 and ast.unparse(withs[0].items[0].context_expr) == "aclosing(agen)"
    fors = [n for n in ast.walk(ga.node) if isinstance(n, ast.AsyncFor)]
    ok = ok and len(fors) == 1 and ast.unparse(fors[0].iter) == "agen" and any(fors[0] is x for x in ast.walk(withs[0]))
    ctx.check(ok, "generate_async:aclosing", "environment:Template.generate_async", "root generator closing",
              "generate_async must consume the root render generator inside `async with aclosing(agen)` so that a consumer stopping early closes the whole generator chain", ga.loc())
    asg = [n for n in ast.walk(ga.node) if isinstance(n, (ast.Assign, ast.AnnAssign)) and "agen" in ast.unparse(n.targets[0] if isinstance(n, ast.Assign) else n.target)]
    ctx.check(bool(asg) and "self.root_render_func(ctx)" in ast.unparse(asg[0]), "generate_async:agen", "environment:Template.generate_async", "agen binding", "agen must be the root render generator of this render", ga.loc())

    ctx.rule("R3", "all other consumers of engine generators in the library are comprehensions / list() / concat() (they always run the generator to completion): no `async for` with a suspending body over an inline generator call")
    n = 0
    for mod in ("environment", "runtime", "nativetypes", "filters", "async_utils"):
        m = repo.module(mod)
        for node in ast.walk(m.tree):
            if isinstance(node, ast.AsyncFor):
                n += 1
                it = ast.unparse(node.iter)
                q = astq.enclosing_qual(node)
                suspends = any(isinstance(x, (ast.Yield, ast.YieldFrom, ast.Await)) for b in node.body for x in ast.walk(b))
                engine_gen = "root_render_func(" in it or "_stack[" in it or "blocks[" in it
                protected = False
                cur = getattr(node, "_parent", None)
                while cur is not None:
                    if isinstance(cur, ast.AsyncWith) and "aclosing(" in ast.unparse(cur.items[0].context_expr):
                        protected = True
                    if isinstance(cur, ast.Try) and any("aclose()" in ast.unparse(x) for x in cur.finalbody):
                        protected = True
                    cur = getattr(cur, "_parent", None)
                # a named generator (agen) bound from an engine generator counts as engine_gen
                if it == "agen":
                    engine_gen = True
                ok = not (engine_gen and suspends) or protected
                ctx.check(ok, f"{mod}:{q}:{it[:30]}", f"{mod}:{q}", f"async for over {it[:40]}", f"{mod}.{q} iterates the engine generator `{it}` with a suspending body and without aclosing / finally aclose", f"{m.rel}:{node.lineno}")
    ctx.floor("async for statements in library code", n, 4)
    aa = repo.func("async_utils:auto_aiter")
    s = ast.unparse(aa.node)
    ctx.check("iterable.__aiter__()" in s and "_IteratorToAsyncIterator(iter(iterable))" in s, "auto_aiter", "async_utils:auto_aiter", "iterator source", "auto_aiter must return the object's own async iterator or wrap iter(iterable)", aa.loc())
    ctx.rule("R4", "no awaitable is created and dropped at compile time: in async mode the optimizer refuses to call coroutine filters and tests (they would return a coroutine that is folded into the template and never awaited)")
    from .c08 import async_fold_rule

    ctx.use("nodes")
    async_fold_rule(ctx)
    # the synchronous entry points of an async environment run the async form under
    # asyncio.run, whose teardown closes the async generators still suspended (rule owned by C09)
    from . import c09

    ctx.run_imported("C09", {"R3"}, c09.check)
    # no coroutine is left un-awaited by a lookup or call (rule owned by C09)
    from .c09 import async_awaits_rule

    async_awaits_rule(ctx, "R5")
    return __doc__ or ""
