"""C17 - a sandboxed template cannot obtain private or internal attributes.

Decided statically: in SandboxedEnvironment.getattr/getitem every value obtained with the
builtin getattr is returned only on paths dominated by ``is_safe_attribute(...)`` (else
unsafe_undefined), after wrap_str_format was consulted; is_safe_attribute rejects ``_``
prefixed names and everything is_internal_attribute flags (table of special types and
attribute sets checked); the formatter routes every field hop through the environment's
getattr/getitem and wrap_str_format covers format and format_map of str and Markup; the
attribute helpers of filters (make_attrgetter, make_multi_attrgetter, do_attr) hand out
values only through environment.getitem/getattr; a who-may-getattr inventory over the
modules reachable from templates; the compiler emits attribute access only as
environment.getattr/getitem (engine E1).  Also: is_safe_attribute compared as a truth table; a reviewed inventory of __getitem__ on objects handed to templates.  
Not decided: what data objects themselves expose.
"""

from __future__ import annotations

import ast

from .. import astq
from ..cfg import guards_of
from ..core import Ctx

# builtin getattr/hasattr/getattr_static on values that can be template data: (module, function) -> why it is fine
GETATTR_OK = {
    ("environment", "Environment.getitem"): "the non-sandboxed accessor; overridden (and guarded) in the sandbox",
    ("environment", "Environment.getattr"): "the non-sandboxed accessor; overridden (and guarded) in the sandbox",
    ("sandbox", "SandboxedEnvironment.getitem"): "guarded accessor (R3)",
    ("sandbox", "SandboxedEnvironment.getattr"): "guarded accessor (R3)",
    ("sandbox", "SandboxedEnvironment.is_safe_callable"): "reads the unsafe_callable / alters_data markers only",
    ("filters", "do_attr"): "existence probe only (getattr_static / hasattr); the value is fetched with environment.getattr (R5)",
    ("filters", "do_round"): "getattr(math, method) with method checked against a literal set",
    ("runtime", "markup_join"): "hasattr(arg, '__html__') capability probe",
    ("runtime", "Context.call"): "hasattr(obj, '__call__') / __call__ lookup for pass_context detection",
    ("utils", "_PassArg.from_obj"): "reads the jinja_pass_arg marker",
    ("utils", "import_string"): "import helper, not reachable from template data",
    ("utils", "Environment.extend"): "",
    ("filters", "do_forceescape"): "hasattr(value, '__html__') capability probe",
    ("filters", "do_striptags"): "hasattr(value, '__html__') capability probe",
    ("filters", "do_replace"): "hasattr(x, '__html__') capability probe",
    ("filters", "sync_do_join"): "hasattr(x, '__html__') capability probe",
    ("tests", "test_escaped"): "hasattr(value, '__html__') capability probe",
    ("async_utils", "auto_aiter"): "hasattr(iterable, '__aiter__') capability probe",
    ("nodes", "_FilterTestCommon.as_const"): "reads the jinja_async_variant marker of a registered filter",
    ("nodes", "NodeType.__new__"): "class construction",
    ("compiler", "CodeGenerator.macro_def"): "getattr(node, 'name') on an AST node",
    ("ext", "InternationalizationExtension._install"): "reads gettext callables of a translations object supplied by the application",
    ("environment", "Environment.extend"): "hasattr(self, key) on the environment",
    ("loaders", "ModuleLoader.load"): "getattr(self.module, name) on the loader's module",
    ("loaders", "FileSystemBytecodeCache._get_default_cache_dir"): "",
    ("bccache", "FileSystemBytecodeCache._get_default_cache_dir"): "hasattr(os, 'getuid')",
    ("visitor", "NodeVisitor.get_visitor"): "visitor dispatch on AST node class names",
    ("nodes", "Node.iter_fields"): "getattr(self, name) on AST nodes",
    ("nodes", "Node.__repr__"): "getattr on AST nodes",
    ("nodes", "Node.dump"): "getattr on AST nodes",
    ("parser", "Parser.parse_statement"): "dispatch guarded by _statement_keywords (C01.R1)",
    ("parser", "Parser.parse_from"): "hasattr(node, 'with_context') on an AST node",
    ("sandbox", "is_internal_attribute"): "hasattr(types, ...) feature probes",
    ("utils", "import_string"): "import helper",
    ("environment", "TemplateStream.dump"): "hasattr(fp, 'writelines') on the output file",
    ("debug", "rewrite_traceback_stack"): "",
}


def check(ctx: Ctx) -> str:
    ctx.use("sandbox", "filters", "environment", "runtime", "utils", "tests", "nodes", "compiler", "ext")
    repo = ctx.repo
    ctx.rule("R3", "SandboxedEnvironment.getattr/getitem: a value fetched with builtin getattr is returned only where is_safe_attribute(...) holds, after wrap_str_format; every other path yields undefined / unsafe_undefined")
    for meth, namevar in (("getattr", "attribute"), ("getitem", "argument")):
        fi = repo.func(f"sandbox:SandboxedEnvironment.{meth}")
        ctx.check(fi.cls is not None and fi.cls.name == "SandboxedEnvironment", f"{meth}:override", "sandbox:SandboxedEnvironment", f"{meth} override", f"SandboxedEnvironment no longer overrides {meth}", fi.loc())
        fnode = fi.nnode  # normal form: `return a if c else b` is two guarded returns
        rets = astq.returns(fnode)
        nval = 0
        # the local holding the format wrapper (whatever it is called)
        wraps = [a for a in ast.walk(fi.node) if isinstance(a, ast.Assign) and ast.unparse(a.value) == "self.wrap_str_format(value)" and isinstance(a.targets[0], ast.Name)]
        wvar = wraps[0].targets[0].id if len(wraps) == 1 else "fmt"  # type: ignore[attr-defined]
        for r in rets:
            txt = ast.unparse(r.value) if r.value is not None else "None"
            if txt == "value":
                nval += 1
                gs = astq.guard_atoms(fnode, r)
                ok = any(g.startswith("self.is_safe_attribute(obj, ") and g.endswith(", value)") and pol for g, pol in gs)
                # ... and only after the format wrapper was ruled out for this value
                ok = ok and (f"{wvar} is None", True) in gs
                ctx.check(ok, f"{meth}:return value", f"sandbox:SandboxedEnvironment.{meth}", "value returned without is_safe_attribute",
                          f"`return value` in {meth} is not dominated by self.is_safe_attribute(obj, {namevar}, value): private / internal attributes reach the template", fi.loc(r), detail={"guards": gs})
            elif txt.startswith("getattr(") or (".__" in txt and "self." not in txt):
                ctx.bad(f"sandbox:SandboxedEnvironment.{meth}", f"return {txt[:40]}", f"{meth} returns `{txt}` directly, bypassing is_safe_attribute", fi.loc(r))
            else:
                ok = txt in (wvar, f"obj[{namevar}]", f"self.unsafe_undefined(obj, {namevar})", f"self.undefined(obj=obj, name={namevar})")
                if txt == wvar:
                    ok = (f"{wvar} is None", False) in astq.guard_atoms(fnode, r)
                ctx.check(ok, f"{meth}:return {txt[:30]}", f"sandbox:SandboxedEnvironment.{meth}", f"return {txt[:40]}", f"unexpected return `{txt}` in the sandboxed accessor", fi.loc(r))
        ctx.check(nval == 1, f"{meth}:one value return", f"sandbox:SandboxedEnvironment.{meth}", "value returns", f"{nval} `return value` statements (expected exactly one, guarded)", fi.loc())
        # the attribute value comes from builtin getattr on obj and nothing else
        gets = [c for c in astq.calls(fi.node) if astq.callee(c) == "getattr"]
        ctx.check(len(gets) == 1 and ast.unparse(gets[0].args[0]) == "obj", f"{meth}:single getattr", f"sandbox:SandboxedEnvironment.{meth}", "builtin getattr sites", "exactly one builtin getattr(obj, ...) expected in the sandboxed accessor", fi.loc())
        # wrap_str_format consulted before the safety verdict on the same value
        src = ast.unparse(fi.node)
        ctx.check(len(wraps) == 1 and src.index("self.wrap_str_format(value)") < src.index("self.is_safe_attribute("), f"{meth}:format first", f"sandbox:SandboxedEnvironment.{meth}", "format wrapper first",
                  "str.format / format_map must be replaced by the sandboxed wrapper before the attribute is handed out", fi.loc())
        # the unsafe path
        uu = [r for r in rets if r.value is not None and "unsafe_undefined" in ast.unparse(r.value)]
        ctx.check(len(uu) == 1, f"{meth}:unsafe path", f"sandbox:SandboxedEnvironment.{meth}", "unsafe_undefined path", "the rejected case must return self.unsafe_undefined(...)", fi.loc())
    uu = repo.func("sandbox:SandboxedEnvironment.unsafe_undefined")
    ctx.check("exc=SecurityError" in ast.unparse(uu.node), "unsafe_undefined:SecurityError", "sandbox:SandboxedEnvironment.unsafe_undefined", "exception class", "unsafe_undefined must create an undefined raising SecurityError", uu.loc())

    ctx.rule("R1", "is_safe_attribute = not (name starts with '_' or is_internal_attribute(obj, name)); is_internal_attribute covers function/method/type/code/traceback/frame/generator/coroutine/async generator objects and dunder names")
    isa = repo.func("sandbox:SandboxedEnvironment.is_safe_attribute")
    rets = astq.returns(isa.node)
    # truth table of the whole body, however it is split into early returns / nested tests
    tb_ = astq.bool_table(isa.node, ["attr.startswith('_')", "is_internal_attribute(obj, attr)"])
    ok = bool(rets) and all(v == (not (u or i)) for (u, i), v in tb_.items())
    ctx.check(ok, "is_safe_attribute:formula", "sandbox:SandboxedEnvironment.is_safe_attribute", "formula", f"is_safe_attribute returns `{ast.unparse(rets[0].value) if rets else None}`; it must be false whenever attr starts with '_' or is_internal_attribute(obj, attr)", isa.loc(),
              detail={"returns": ast.unparse(rets[0].value) if rets else None})
    iia = repo.func("sandbox:is_internal_attribute")
    src = ast.unparse(iia.node)
    last = astq.returns(iia.node)[-1]
    ctx.check(ast.unparse(last.value) == "attr.startswith('__')", "internal:dunder", "sandbox:is_internal_attribute", "dunder default", "is_internal_attribute must flag every dunder name by default", iia.loc(last))
    arms = {
        "types.FunctionType": "UNSAFE_FUNCTION_ATTRIBUTES", "types.MethodType": "UNSAFE_METHOD_ATTRIBUTES", "type": "'mro'",
        "(types.CodeType, types.TracebackType, types.FrameType)": "return True", "types.GeneratorType": "UNSAFE_GENERATOR_ATTRIBUTES",
        "types.CoroutineType": "UNSAFE_COROUTINE_ATTRIBUTES", "types.AsyncGeneratorType": "UNSAFE_ASYNC_GENERATOR_ATTRIBUTES",
    }
    for n in ast.walk(iia.node):
        pass
    for typ, need in arms.items():
        hit = None
        for n in ast.walk(iia.node):
            if isinstance(n, ast.If) and f"isinstance(obj, {typ})" in ast.unparse(n.test):
                hit = n
                break
        ok = hit is not None and (need in ast.unparse(ast.Module(body=hit.body, type_ignores=[])) or (need != "return True" and need in ast.unparse(hit.test)))
        ctx.check(ok, f"internal:{typ}", "sandbox:is_internal_attribute", f"arm {typ}", f"is_internal_attribute no longer handles {typ} with {need}", iia.loc(hit) if hit else iia.loc())
    for const, members in (("UNSAFE_GENERATOR_ATTRIBUTES", {"gi_frame", "gi_code"}), ("UNSAFE_COROUTINE_ATTRIBUTES", {"cr_frame", "cr_code"}), ("UNSAFE_ASYNC_GENERATOR_ATTRIBUTES", {"ag_code", "ag_frame"})):
        got = repo.const(f"sandbox:{const}")
        ctx.check(members <= set(got), f"internal:{const}", "sandbox:<module>", const, f"{const} lost {sorted(members - set(got))}", "src/jinja2/sandbox.py")

    ctx.rule("R4", "format strings: get_field resolves every hop through the environment's getattr/getitem; wrap_str_format wraps format and format_map of str and Markup and formats through the sandboxed formatter")
    gf = repo.func("sandbox:SandboxedFormatter.get_field")
    src = ast.unparse(gf.node)
    loops = [n for n in ast.walk(gf.node) if isinstance(n, ast.For)]
    ok = False
    if len(loops) == 1 and isinstance(loops[0].target, ast.Tuple) and len(loops[0].target.elts) == 2 and ast.unparse(loops[0].iter) == "rest":
        flag, keyv = (ast.unparse(e_) for e_ in loops[0].target.elts)
        hops = [a for a in ast.walk(loops[0]) if isinstance(a, ast.Assign) and ast.unparse(a.targets[0]) == "obj"]
        forms = {ast.unparse(a.value): astq.guard_atoms(loops[0], a) for a in hops}
        # every rebinding of obj inside the loop is one of the two sandboxed accessors, chosen by the hop kind
        ok = set(forms) == {f"self._env.getattr(obj, {keyv})", f"self._env.getitem(obj, {keyv})"} and (flag, True) in forms[f"self._env.getattr(obj, {keyv})"] and (flag, False) in forms[f"self._env.getitem(obj, {keyv})"]
        if not ok and len(hops) == 1 and isinstance(hops[0].value, ast.Call) and [ast.unparse(a_) for a_ in hops[0].value.args] == ["obj", keyv]:
            # the accessor is chosen first (a conditional expression, possibly named), then applied
            fexpr = hops[0].value.func
            if isinstance(fexpr, ast.Name):
                src_ = [a for a in ast.walk(loops[0]) if isinstance(a, ast.Assign) and len(a.targets) == 1 and isinstance(a.targets[0], ast.Name) and a.targets[0].id == fexpr.id]
                fexpr = src_[0].value if len(src_) == 1 else fexpr
            if isinstance(fexpr, ast.IfExp):
                ok = (ast.unparse(fexpr.test), ast.unparse(fexpr.body), ast.unparse(fexpr.orelse)) in ((flag, "self._env.getattr", "self._env.getitem"), (f"not {flag}", "self._env.getitem", "self._env.getattr"))
        if not ok and len(hops) == 1 and isinstance(hops[0].value, ast.IfExp):
            # ... or the two accessor calls are the arms of one conditional expression
            ie = hops[0].value
            ok = (ast.unparse(ie.test), ast.unparse(ie.body), ast.unparse(ie.orelse)) in ((flag, f"self._env.getattr(obj, {keyv})", f"self._env.getitem(obj, {keyv})"), (f"not {flag}", f"self._env.getitem(obj, {keyv})", f"self._env.getattr(obj, {keyv})"))
    ctx.check(ok, "get_field:hops", "sandbox:SandboxedFormatter.get_field", "field hops", "every attribute / item hop of a format field must go through self._env.getattr / getitem", gf.loc())
    bad = [c for c in astq.calls(gf.node) if astq.callee(c) in ("getattr", "super().get_field")]
    ctx.check(not bad, "get_field:no-builtin", "sandbox:SandboxedFormatter.get_field", "builtin access", "get_field uses builtin getattr / the unsandboxed base implementation", gf.loc())
    hops_ok = ok  # (the hop rule above already ties attribute hops to getattr and index hops to getitem)
    for n in loops:
        ctx.check(hops_ok, "get_field:kind", "sandbox:SandboxedFormatter.get_field", "attr vs item", "attribute hops must use getattr and index hops getitem", gf.loc(n))
    wf = repo.func("sandbox:SandboxedEnvironment.wrap_str_format")
    src = ast.unparse(wf.node)
    ctx.check("('format', 'format_map')" in src, "wrap:names", "sandbox:SandboxedEnvironment.wrap_str_format", "wrapped names", "both format and format_map must be wrapped", wf.loc())
    ctx.check("(types.MethodType, types.BuiltinMethodType)" in src and "isinstance(f_self, str)" in src, "wrap:kinds", "sandbox:SandboxedEnvironment.wrap_str_format", "method kinds", "bound methods of str (builtin) and of str subclasses (Python level) must both be recognised", wf.loc())
    ctx.check("SandboxedEscapeFormatter(self, escape=f_self.escape)" in src and "isinstance(f_self, Markup)" in src and "SandboxedFormatter(self)" in src, "wrap:formatters", "sandbox:SandboxedEnvironment.wrap_str_format", "formatter choice", "Markup must format through the escaping sandboxed formatter, str through the sandboxed formatter", wf.loc())
    ctx.check("vformat(f_self, args, kwargs)" in src, "wrap:vformat", "sandbox:SandboxedEnvironment.wrap_str_format", "vformat call", "the wrapper must format f_self through the sandboxed formatter's vformat", wf.loc())
    esc = repo.cls("sandbox:SandboxedEscapeFormatter")
    ctx.check(esc.base_names()[0] == "SandboxedFormatter", "escape-formatter:mro", "sandbox:SandboxedEscapeFormatter", "MRO", "SandboxedFormatter must come first in SandboxedEscapeFormatter's bases (its get_field wins)", esc.loc())

    ctx.rule("R5", "attribute helpers of filters hand out values only through environment.getitem / environment.getattr")
    for spec in ("filters:make_attrgetter", "filters:make_multi_attrgetter"):
        fi = repo.func(spec)
        subs = [n for n in ast.walk(fi.node) if isinstance(n, ast.Subscript) and isinstance(n.ctx, ast.Load) and ast.unparse(n.value) in ("item", "item_i")]
        gets = [c for c in astq.calls(fi.node) if astq.callee(c) in ("getattr", "operator.attrgetter", "attrgetter", "operator.itemgetter")]
        via = [c for c in astq.calls(fi.node) if astq.callee(c) == "environment.getitem"]
        ctx.check(not subs and not gets and len(via) == 1, spec, spec, "lookup route", f"{spec} must resolve every attribute part with environment.getitem(item, part) and nothing else", fi.loc())
    da = repo.func("filters:do_attr")
    rets = astq.returns(da.node)
    for r in rets:
        txt = ast.unparse(r.value)
        ok = txt in ("environment.getattr(obj, name)", "environment.undefined(obj=obj, name=name)")
        ctx.check(ok, f"do_attr:return:{txt[:30]}", "filters:do_attr", f"return {txt[:40]}", f"the attr filter returns `{txt}`: a value that did not pass through environment.getattr reaches the template unchecked by the sandbox", da.loc(r), detail={"return": txt})
    ctx.floor("returns of do_attr", len(rets), 2)

    ctx.rule("R2", "who-may-getattr: builtin getattr / hasattr / getattr_static / operator.attrgetter calls in the package occur only in the reviewed functions")
    n = 0
    for mod in sorted(repo.modules):
        m = repo.module(mod)
        for c in astq.calls(m.tree):
            f = astq.callee(c)
            if f not in ("getattr", "hasattr", "getattr_static", "inspect.getattr_static", "operator.attrgetter", "attrgetter", "setattr", "delattr", "object.__getattribute__", "vars"):
                continue
            if f in ("setattr", "delattr", "vars", "object.__getattribute__"):
                continue
            q = astq.enclosing_qual(c)
            top = ".".join(q.split(".")[:2]) if q != "<module>" else q
            n += 1
            key = (mod, top)
            ok = key in GETATTR_OK or (mod, q) in GETATTR_OK or (mod, q.split(".")[0]) in GETATTR_OK
            ctx.check(ok, f"{mod}:{q}:{f}", f"{mod}:{q}", f"{f} in unreviewed function",
                      f"builtin {f}(...) in {mod}.{q} is not in the reviewed list: if its object can be template data the sandbox is bypassed", f"{m.rel}:{c.lineno}", detail={"call": ast.unparse(c)[:70]})
    ctx.floor("builtin attribute-access calls", n, 24)
    from ..emitrules import c17_skeleton_rules

    c17_skeleton_rules(ctx)

    ctx.rule("R6", "`{% from t import name %}` compiles to a raw getattr(included_template, name, missing) that bypasses environment.getattr: the parser is the only guard, it must reject every *imported* name (not the alias) that starts with an underscore before recording it")
    pf = repo.func("parser:Parser.parse_from")
    apps = [c for c in astq.calls(pf.node) if astq.callee(c) == "node.names.append" and c.args]
    ctx.floor("node.names.append sites in parse_from", len(apps), 2)
    for c in apps:
        a = c.args[0]
        imported = a.elts[0] if isinstance(a, ast.Tuple) and a.elts else a
        itxt = ast.unparse(imported)
        gs = astq.guard_texts(pf.node, c)
        ok = any(g == f"{itxt}.startswith('_')" and not pol for g, pol in gs)
        ctx.check(ok, f"parse_from:{ast.unparse(a)}", "parser:Parser.parse_from", f"`{itxt}` recorded without the underscore check",
                  f"parse_from records the imported name `{itxt}` on a path where `{itxt}.startswith('_')` was not rejected (guards: {[g for g, p in gs]}): `{{% from 'lib' import __dict__ as d %}}` then reads a private attribute of the template module with a raw getattr, also in the sandbox", pf.loc(c))
    vf = repo.func("compiler:CodeGenerator.visit_FromImport")
    ctx.check("getattr(included_template, {name!r}, missing)" in ast.unparse(vf.node), "from-import:emission", "compiler:CodeGenerator.visit_FromImport", "raw getattr emission", "visit_FromImport is expected to emit getattr(included_template, <name>, missing) (the rule above guards exactly this)", vf.loc())

    ctx.rule("R7", "subscript surface: the sandbox returns `obj[key]` unchecked (only the attribute fallback asks is_safe_attribute), so every __getitem__ of an object the engine hands to templates is a reviewed one")
    reviewed = {
        ("runtime", "TemplateReference"): "blocks by name (BlockReference objects)",
        ("runtime", "Context"): "template variables by name",
        ("runtime", "Undefined"): "always fails with UndefinedError",
        ("runtime", "ChainableUndefined"): "returns itself",
        ("utils", "LRUCache"): "internal cache, never handed to templates",
    }
    n_gi = 0
    for mod in ("runtime", "utils", "ext", "environment", "nativetypes"):
        for ci in repo.classes(mod):
            defines = "__getitem__" in ci.methods
            for st in ci.node.body:
                if isinstance(st, ast.Assign) and any(isinstance(t_, ast.Name) and t_.id in ("__getitem__", "__class_getitem__") for t_ in st.targets):
                    defines = True
            if not defines:
                continue
            n_gi += 1
            ctx.check((mod, ci.name) in reviewed, f"getitem:{mod}:{ci.name}", f"{mod}:{ci.name}", f"{ci.name} defines __getitem__",
                      f"{mod}.{ci.name} defines (or aliases) __getitem__: SandboxedEnvironment.getitem returns `obj[key]` without asking is_safe_attribute, so `ns['__class__']` / `ns['_Namespace__attrs']` (also through `map(attribute=...)` and format fields `{{0[__class__]}}`) hands a sandboxed template whatever that method returns for an underscore name",
                      ci.loc(), detail={"class": f"{mod}.{ci.name}", "reviewed": reviewed.get((mod, ci.name))})
    ctx.floor("classes with __getitem__", n_gi, 4)
    # the immutable sandbox only ever *adds* refusals: its is_safe_attribute is the base
    # decision AND NOT modifies_known_mutable (rule owned by C19)
    from . import c19

    ctx.run_imported("C19", {"R2"}, c19.check)
    return __doc__ or ""


def _is_safe_formula(e: ast.expr | None) -> bool:
    """Truth table: result is False whenever underscore or internal is True, True otherwise."""
    if e is None:
        return False

    def ev(x: ast.expr, u: bool, i: bool) -> bool | None:
        if isinstance(x, ast.UnaryOp) and isinstance(x.op, ast.Not):
            v = ev(x.operand, u, i)
            return None if v is None else not v
        if isinstance(x, ast.BoolOp):
            vs = [ev(v, u, i) for v in x.values]
            if any(v is None for v in vs):
                return None
            return all(vs) if isinstance(x.op, ast.And) else any(vs)
        t_ = ast.unparse(x)
        if t_ == "attr.startswith('_')":
            return u
        if t_ == "is_internal_attribute(obj, attr)":
            return i
        return None

    for u in (True, False):
        for i in (True, False):
            if ev(e, u, i) != (not (u or i)):
                return False
    return True
