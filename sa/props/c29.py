"""C29 - rendering is repeatable and does not modify its inputs.

Decided statically: no filter / test / helper mutates an object owned by its caller (effect
flow, engine E3); building a render context never stores into a caller-owned dict
(new_context split on shared/locals); the *shared-state write inventory*: during a render
the only writes to objects that outlive the render (self.* of Template / Environment /
loaders / caches, module globals) are the reviewed ones - the idempotent Template._module
memo, the locked template and lexer caches, globals updated only in the template's own
ChainMap front; the generated code writes only render-local state (context.vars /
exported_vars / blocks of the per-render Context, locals); cached template globals never
reach environment.globals.  Not decided: thread schedules, callables supplied by the data.
"""

from __future__ import annotations

import ast

from .. import astq
from ..core import Ctx
from ..effects import no_argument_mutation
from .c05 import new_context_rule

# functions reachable from a render (entry points + runtime support) and the writes to
# longer-lived state they may perform: (module, function) -> {target: reason}
RENDER_FUNCS = {
    "environment": ["Template.render", "Template.render_async", "Template.generate", "Template.generate_async", "Template.stream", "Template.new_context", "Template.make_module",
                    "Template.make_module_async", "Template._get_default_module", "Template._get_default_module_async", "Template.module", "Template.is_up_to_date", "Template.debug_info",
                    "Template.get_corresponding_lineno", "Environment.getitem", "Environment.getattr", "Environment.call_filter", "Environment.call_test", "Environment._filter_test_common",
                    "Environment.get_template", "Environment.select_template", "Environment.get_or_select_template", "Environment._load_template", "Environment.make_globals",
                    "Environment.handle_exception", "Environment.join_path", "TemplateModule.__init__", "TemplateModule.__html__", "TemplateModule.__str__", "TemplateExpression.__call__"],
    "runtime": None,  # all
    "sandbox": None,
    "async_utils": None,
    "filters": None,
    "tests": None,
}
ALLOWED_WRITES = {
    ("environment", "Template._get_default_module", "self._module"): "idempotent memo of the default module (same value whoever wins)",
    ("environment", "Template._get_default_module_async", "self._module"): "idempotent memo of the default module (check-then-set across an await; both writers store an equivalent module)",
    ("environment", "Environment._load_template", "self.cache[cache_key]"): "template cache (LRUCache is locked; dict store is atomic)",
    ("environment", "TemplateModule.__init__", "self._body_stream"): "fresh object under construction",
    ("environment", "TemplateModule.__init__", "self.__name__"): "fresh object under construction",
}


def check(ctx: Ctx) -> str:
    ctx.use("environment", "runtime", "filters", "tests", "sandbox", "async_utils", "compiler")
    no_argument_mutation(ctx, "R1")
    new_context_rule(ctx, "R2")
    shared_state_rule(ctx, "R3")
    repo = ctx.repo
    ctx.rule("R4", "template globals: a cached template's globals are updated only in the front mapping of its own ChainMap(d, environment.globals); environment.globals is never written on the load / render path")
    mg = repo.func("environment:Environment.make_globals")
    r = astq.returns(mg.nnode)
    # ChainMap(<front>, self.globals) where <front> is the caller's dict, or a new {} when it is None
    layered = len(r) == 1 and isinstance(r[0].value, ast.Call) and astq.callee(r[0].value) == "ChainMap" and len(r[0].value.args) == 2 and ast.unparse(r[0].value.args[1]) == "self.globals"
    ctx.check(layered, "make_globals", "environment:Environment.make_globals", "ChainMap layering", "template globals must be ChainMap(<own dict>, environment.globals) so that updates never reach the environment", mg.loc())
    fresh = False
    if layered:
        front = r[0].value.args[0]  # type: ignore[union-attr]
        fv = ast.unparse(front)
        asg = [(ast.unparse(a.value), astq.guard_atoms(mg.nnode, a)) for a in ast.walk(mg.nnode) if isinstance(a, ast.Assign) and ast.unparse(a.targets[0]) == fv]
        new_when_none = any(v == "{}" and ("d is None", True) in g for v, g in asg)
        if isinstance(front, ast.IfExp):
            fresh = ast.unparse(front.test) == "d is None" and ast.unparse(front.body) == "{}" and ast.unparse(front.orelse) == "d"
        elif fv == "d":
            fresh = new_when_none and all(v == "{}" for v, g in asg)
        else:
            fresh = new_when_none and any(v == "d" and ("d is None", False) in g for v, g in asg) and len(asg) == 2
    ctx.check(fresh, "make_globals:fresh", "environment:Environment.make_globals", "fresh front dict", "a template without own globals must get a fresh front dict", mg.loc())
    lt = repo.func("environment:Environment._load_template")
    ups = [c for c in astq.calls(lt.node) if astq.callee(c).endswith(".update")]
    ctx.check(len(ups) == 1 and astq.callee(ups[0]) == "template.globals.update", "load:globals-update", "environment:Environment._load_template", "globals update target", "only the cached template's own globals (ChainMap front) may be updated", lt.loc())
    for spec in ("environment:Environment._load_template", "environment:Environment.get_template", "environment:Environment.from_string", "loaders:BaseLoader.load"):
        fi = repo.func(spec)
        bad = [n for n in ast.walk(fi.node) if isinstance(n, (ast.Subscript, ast.Attribute)) and isinstance(getattr(n, "ctx", None), (ast.Store, ast.Del)) and "self.globals" in ast.unparse(n)]
        bad += [c for c in astq.calls(fi.node) if astq.callee(c).startswith("self.globals.") and astq.attr_tail(c) in ("update", "setdefault", "pop", "clear")]
        ctx.check(not bad, f"{spec}:env-globals", spec, "environment.globals written", "environment.globals is modified on the load path", fi.loc())
    nc = repo.func("environment:Template.new_context")
    ctx.check("new_context(self.environment, self.name, self.blocks, vars, shared, self.globals, locals)" in ast.unparse(nc.node), "Template.new_context", "environment:Template.new_context", "argument order", "Template.new_context must pass (environment, name, blocks, vars, shared, globals, locals)", nc.loc())
    rc = repo.func("runtime:Context.__init__")
    s = ast.unparse(rc.node)
    ctx.check("self.vars: dict[str, t.Any] = {}" in s and "self.exported_vars: set[str] = set()" in s and "self.blocks = {k: [v] for k, v in blocks.items()}" in s, "Context:fresh-state", "runtime:Context.__init__", "per-render state", "vars, exported_vars and the block stacks must be fresh objects per context (the template's blocks dict is shared between renders)", rc.loc())
    scoped_revert_rule(ctx, "R5")
    # `{% set obj.attr = ... %}` is the one statement that stores into an object the template
    # did not create: the Namespace check (C03.R5) is what keeps it away from the render data
    from . import c03

    ctx.run_imported("C03", {"R5", "R8"}, c03.check)
    from .c22 import fresh_list_rule

    fresh_list_rule(ctx, "R6")
    # "the same output as an isolated render" across environments: an overlay must not serve
    # templates compiled for its parent (own cache: C25.R4, own lexer: C13.R6)
    from . import c13
    from . import c25

    ctx.run_imported("C25", {"R4"}, c25.check)
    ctx.run_imported("C13", {"R6"}, c13.check)
    return __doc__ or ""


def scoped_revert_rule(ctx: Ctx, rid: str) -> None:
    """The context of a memoised template module outlives the render that uses its macros
    (Template._module), so a *scoped* change of context.eval_ctx has to be undone on every
    exit - a render failing inside the block must not change what later renders see."""
    from ..emitrules import get_paths
    from ..emitrules import reparse

    ctx.rule(rid, "(skeletons) scoped eval-context changes are exception safe: everything emitted between `<tmp> = context.eval_ctx.save()` and `context.eval_ctx.revert(<tmp>)` lies in a try whose finally holds the revert")
    res = get_paths(ctx, ["visit_ScopedEvalContextModifier"])
    n = 0
    for p, sk in res["visit_ScopedEvalContextModifier"]:
        if p.outcome != "normal" or sk.error:
            continue
        tree = reparse(sk, "visit_ScopedEvalContextModifier", "stmt")
        if tree is None:
            continue
        n += 1
        body = list(tree.body)  # type: ignore[attr-defined]
        if len(body) == 1 and isinstance(body[0], (ast.FunctionDef, ast.AsyncFunctionDef)) and body[0].name == "__w__":
            body = list(body[0].body)  # statement skeletons are parsed inside a wrapper function
        saves = [i for i, st in enumerate(body) if isinstance(st, ast.Assign) and ast.unparse(st.value) == "context.eval_ctx.save()"]
        ok = False
        why = "no save found"
        if len(saves) == 1:
            tmp = ast.unparse(body[saves[0]].targets[0])  # type: ignore[attr-defined]
            rest = body[saves[0] + 1:]
            why = f"after the save the visitor emits {[type(x).__name__ for x in rest]}"
            if len(rest) == 1 and isinstance(rest[0], ast.Try) and not rest[0].handlers:
                fin = [ast.unparse(x) for x in rest[0].finalbody]
                ok = fin == [f"context.eval_ctx.revert({tmp})"]
                why = f"finally holds {fin}"
        ctx.check(ok, f"scoped:{n}", "compiler:CodeGenerator.visit_ScopedEvalContextModifier", "revert not in a finally covering the block",
                  f"{why}: an exception raised inside `{{% autoescape %}}...` in a macro of an imported template leaves the memoised module's eval context modified - every later render using that module is escaped differently\n{sk.text[:300]}",
                  "src/jinja2/compiler.py", detail={"skeleton": sk.text[:300]} if n == 1 else None)
    ctx.floor("visit_ScopedEvalContextModifier skeletons", n, 2)


def shared_state_rule(ctx: Ctx, rid: str) -> None:
    ctx.rule(rid, "shared-state write inventory: on the render path, writes to self.<attr> of long-lived objects (or to module globals) occur only at the reviewed sites")
    repo = ctx.repo
    n = 0
    for mod, names in RENDER_FUNCS.items():
        m = repo.module(mod)
        for fn in astq.all_funcdefs(m.tree):
            q = astq.qualname(fn)
            if names is not None and q not in names:
                continue
            if q.split(".")[-1] in ("__init__", "__new__", "__setstate__", "_postinit") and (mod, q) != ("environment", "TemplateModule.__init__"):
                continue  # object construction
            cls = q.split(".")[0] if "." in q else None
            # per-render / per-loop objects own their state
            # (Macro is *not* per render: the macros of an imported template live in the module
            # memoised on the Template object and are called by every render importing it)
            if mod == "runtime" and cls in ("Context", "LoopContext", "AsyncLoopContext", "BlockReference", "TemplateReference", "Undefined"):
                per_render = True
            elif mod in ("async_utils",) and cls == "_IteratorToAsyncIterator":
                per_render = True
            elif mod == "sandbox" and cls in ("SandboxedFormatter",):
                per_render = True
            else:
                per_render = False
            for node in ast.walk(fn):
                tgt = None
                if isinstance(node, (ast.Assign, ast.AugAssign, ast.AnnAssign)):
                    tgts = node.targets if isinstance(node, ast.Assign) else [node.target]
                    for t_ in tgts:
                        base = t_
                        while isinstance(base, (ast.Subscript, ast.Attribute)):
                            if isinstance(base, ast.Attribute) and isinstance(base.value, ast.Name) and base.value.id in ("self", "__self", "cls"):
                                tgt = ast.unparse(t_)
                                break
                            base = base.value
                elif isinstance(node, ast.Global):
                    tgt = "global " + ",".join(node.names)
                if tgt is None:
                    continue
                if astq.enclosing_qual(node) != q and not astq.enclosing_qual(node).startswith(q + "."):
                    continue
                n += 1
                if per_render:
                    ctx.ok(f"{mod}:{q}:{tgt}", trivial=True)
                    continue
                ok = (mod, q, tgt) in ALLOWED_WRITES
                ctx.check(ok, f"{mod}:{q}:{tgt}", f"{mod}:{q}", f"write to {tgt}",
                          f"{mod}.{q} writes `{tgt}` while rendering: state shared between renders (and threads / tasks) changes, so a later or concurrent render can observe it",
                          f"{m.rel}:{node.lineno}", detail={"site": f"{mod}:{q}", "target": tgt, "why": ALLOWED_WRITES.get((mod, q, tgt))})
    ctx.floor("state writes on the render path", n, 20)
    # class-level mutable defaults of per-render classes would be shared too
    lc = repo.cls("runtime:LoopContext")
    for name, val in lc.assigns.items():
        ok = isinstance(val, ast.Constant) or ast.unparse(val) in ("missing", "-1") or (isinstance(val, ast.UnaryOp) and isinstance(val.operand, ast.Constant))
        ctx.check(ok, f"LoopContext.{name}", "runtime:LoopContext", f"class attribute {name}", f"LoopContext.{name} has a mutable class-level default shared by all loops", lc.loc())
