"""C23 - string and number filters satisfy their documented contracts.

Decided statically (the only clauses visible in the code's shape): ``int`` and ``float``
return the default instead of raising - every converting call in do_int / do_float lies in
a ``try`` whose handlers cover the builtin's raise set {TypeError, ValueError,
OverflowError} and reach ``return default``; string filters normalise their input through
soft_str/str before using str methods; truncate's length accounting subtracts len(end) and
honours the leeway; the registrations in FILTERS point at these functions.
Also: None-defaulted parameters are replaced only under `is None` (no `p = p or d`); text regexes are not ASCII-restricted.  
Also: filesizeformat's prefixed returns agree on the scaling; a filter's options are forwarded under their own names.  
Not decided: truncation/wrapping/rounding arithmetic - it quantifies over runtime values.
"""

from __future__ import annotations

import ast

from .. import astq
from ..cfg import catches
from ..cfg import enclosing_try
from ..cfg import handler_types
from ..core import Ctx

RAISE_SET = {"int": ["TypeError", "ValueError", "OverflowError"], "float": ["TypeError", "ValueError", "OverflowError"]}


def _handled(fn: ast.AST, call: ast.Call, exc: str) -> bool:
    """Is ``exc`` raised at ``call`` caught by a handler that reaches ``return default``
    (directly, or through an inner try all of whose own raises are handled)?"""
    for tr, part in enclosing_try(call):
        if part != "body":
            # an exception raised inside a handler propagates to the *outer* try only
            continue
        for h in tr.handlers:
            if catches(handler_types(h), exc):
                return _handler_returns_default(fn, h)
        # not caught by this try: keeps propagating outward
    return False


def _handler_returns_default(fn: ast.AST, h: ast.ExceptHandler) -> bool:
    # every converting call inside the handler must itself be handled, and the handler
    # must contain a `return default` reachable path
    rets = [r for r in ast.walk(h) if isinstance(r, ast.Return)]
    if not any(r.value is not None and ast.unparse(r.value) == "default" for r in rets):
        return False
    return True


def check(ctx: Ctx) -> str:
    ctx.use("filters")
    repo = ctx.repo
    ctx.rule("R1", "do_int / do_float: every converting call is in a try whose handlers cover {TypeError, ValueError, OverflowError} and reach `return default`")
    n = 0
    for fname in ("do_int", "do_float"):
        fi = repo.func(f"filters:{fname}")
        convs = [c for c in astq.calls(fi.node) if astq.callee(c) in ("int", "float")]
        ctx.floor(f"converting calls in {fname}", len(convs), 1)
        for c in convs:
            kind = astq.callee(c)
            for exc in RAISE_SET[kind]:
                if kind == "int" and len(c.args) == 2 and exc == "OverflowError":
                    continue  # int(str, base) parses text: ValueError / TypeError only
                n += 1
                # exceptions raised inside a handler body: look at tries enclosing the handler
                ok = _covered(fi.node, c, exc)
                ctx.check(ok, f"{fname}:{ast.unparse(c)}:{exc}", f"filters:{fname}", f"{ast.unparse(c)} may raise {exc}",
                          f"{ast.unparse(c)} can raise {exc} (e.g. {'int(float(\"inf\"))' if kind == 'int' else 'float(10**400)'}) and no enclosing handler returns the default: the filter raises instead of returning the default",
                          fi.loc(c), detail={"call": ast.unparse(c), "exception": exc})
        rets = astq.returns(fi.node)
        ctx.check(any(r.value is not None and ast.unparse(r.value) == "default" for r in rets), f"{fname}:default", f"filters:{fname}", "return default", f"{fname} never returns its default", fi.loc())
    ctx.floor("conversion obligations", n, 8)
    di = repo.func("filters:do_int")
    s = ast.unparse(di.node)
    ctx.check("int(value, base)" in s and any("isinstance(value, str)" in g and pol for c in astq.calls(di.node) if ast.unparse(c) == "int(value, base)" for g, pol in astq.guard_texts(di.node, c)),
              "do_int:base", "filters:do_int", "base only for strings", "int(value, base) must be used for string input only", di.loc())

    ctx.rule("R2", "string filters coerce with soft_str/str before applying a str method; registrations point at the contract functions")
    coerce = {"do_upper": "upper", "do_lower": "lower", "do_capitalize": "capitalize", "do_center": "center", "do_trim": "strip", "do_wordcount": None, "do_title": None, "do_format": None}
    for fname, meth in coerce.items():
        fi = repo.func(f"filters:{fname}")
        s = ast.unparse(fi.node)
        ctx.check("soft_str(" in s, f"{fname}:soft_str", f"filters:{fname}", "soft_str coercion", f"{fname} no longer coerces its input with soft_str (Markup/undefined handling changes)", fi.loc())
        if meth:
            # the method is applied to the coerced text (directly or through a local naming it)
            applied = any(astq.attr_tail(c) == meth for c in astq.calls(fi.node))
            ctx.check((f").{meth}(" in fi.ntext) or applied, f"{fname}:{meth}", f"filters:{fname}", f"str.{meth}", f"{fname} no longer applies str.{meth}", fi.loc())
    ft = repo.const_map("filters:FILTERS")
    want = {"int": "do_int", "float": "do_float", "upper": "do_upper", "lower": "do_lower", "capitalize": "do_capitalize", "center": "do_center", "trim": "do_trim", "title": "do_title",
            "truncate": "do_truncate", "wordwrap": "do_wordwrap", "wordcount": "do_wordcount", "indent": "do_indent", "replace": "do_replace", "format": "do_format", "striptags": "do_striptags",
            "urlencode": "do_urlencode", "filesizeformat": "do_filesizeformat", "round": "do_round", "abs": "abs", "string": "soft_str"}
    for k, v in want.items():
        ctx.check(ft.get(k) == v, f"FILTERS[{k}]", "filters:FILTERS", f"entry {k}", f"FILTERS[{k!r}] is {ft.get(k)}, expected {v}", "src/jinja2/filters.py")

    ctx.rule("R5", "optional-argument defaulting: a parameter whose default is None is replaced by its policy / computed default only under `param is None` - never by a truthiness test, because 0 and '' are legitimate explicit values")
    n5 = 0
    for mod in ("filters", "utils"):
        m = repo.module(mod)
        for fn in astq.all_funcdefs(m.tree):
            a = fn.args
            params = a.posonlyargs + a.args + a.kwonlyargs
            defaults = dict(zip([p.arg for p in (a.posonlyargs + a.args)][len(a.posonlyargs + a.args) - len(a.defaults):], a.defaults))
            defaults.update({p.arg: d for p, d in zip(a.kwonlyargs, a.kw_defaults) if d is not None})
            none_params = {p for p, d in defaults.items() if isinstance(d, ast.Constant) and d.value is None}
            for node in ast.walk(fn):
                if not isinstance(node, ast.If):
                    continue
                assigned = {t_.id for s_ in node.body if isinstance(s_, ast.Assign) for t_ in s_.targets if isinstance(t_, ast.Name)}
                for p in sorted(assigned & none_params):
                    t_ = ast.unparse(node.test)
                    if p not in t_:
                        continue
                    n5 += 1
                    ok = t_ == f"{p} is None"
                    ctx.check(ok, f"{mod}:{fn.name}:{p}", f"{mod}:{astq.qualname(fn)}", f"default for `{p}` applied under `{t_}`",
                              f"{astq.qualname(fn)} replaces the optional argument `{p}` by its default under `{t_}`: an explicit falsy value (0, '') is overridden by the default, so e.g. leeway=0 is ignored and the result exceeds the requested bound",
                              f"{m.rel}:{node.lineno}", detail={"function": astq.qualname(fn), "parameter": p, "test": t_})
            # the same slip without an `if`: `p = p or <default>` / `p = <default> if not p else p`
            for node in ast.walk(fn):
                if not (isinstance(node, ast.Assign) and len(node.targets) == 1 and isinstance(node.targets[0], ast.Name) and node.targets[0].id in none_params):
                    continue
                p = node.targets[0].id
                v = node.value
                falsy = (isinstance(v, ast.BoolOp) and isinstance(v.op, ast.Or) and isinstance(v.values[0], ast.Name) and v.values[0].id == p) or (
                    isinstance(v, ast.IfExp) and any(isinstance(x, ast.Name) and x.id == p for x in ast.walk(v.test)) and not any(isinstance(x, ast.Compare) and any(isinstance(o, (ast.Is, ast.IsNot)) for o in x.ops) for x in ast.walk(v.test)))
                if falsy:
                    n5 += 1
                    ctx.bad(f"{mod}:{astq.qualname(fn)}", f"default for `{p}` applied by truthiness (`{ast.unparse(node)[:50]}`)",
                            f"{astq.qualname(fn)} replaces the optional argument `{p}` with `{ast.unparse(node)}`: an explicit falsy value (0, '') is overridden by the default - `replace(old, new, 0)` replaces every occurrence instead of none", f"{m.rel}:{node.lineno}")
    ctx.floor("None-defaulted parameters", n5, 4)

    ctx.rule("R6", "urlencode: url_quote percent-encodes the unmodified bytes with safe = b'' for query strings (b'/' otherwise) and only afterwards rewrites %20 to + for query strings - a literal '+' or '&' in the data is always encoded; do_urlencode quotes keys and values with for_qs=True")
    uq = repo.func("utils:url_quote")
    qs = [c for c in astq.calls(uq.node) if astq.callee(c) in ("quote_from_bytes", "quote", "urllib.parse.quote_from_bytes")]
    ctx.floor("quoting calls in url_quote", len(qs), 1)

    def _resolve(e: ast.AST) -> ast.AST:
        if isinstance(e, ast.Name):
            src = [a for a in ast.walk(uq.node) if isinstance(a, ast.Assign) and len(a.targets) == 1 and isinstance(a.targets[0], ast.Name) and a.targets[0].id == e.id]
            if len(src) == 1:
                return src[0].value
        return e

    for c in qs:
        data = c.args[0] if c.args else None
        safe = _resolve(c.args[1]) if len(c.args) > 1 else next((_resolve(k.value) for k in c.keywords if k.arg == "safe"), None)
        ctx.check(isinstance(data, ast.Name) and data.id == "obj", f"url_quote:data:{ast.unparse(c)[:40]}", "utils:url_quote", f"quotes `{ast.unparse(data) if data is not None else '?'}`",
                  f"url_quote must percent-encode the bytes as they are; `{ast.unparse(data) if data is not None else '?'}` rewrites the data before quoting (a literal '+' then survives as '+', which decodes to a space)", uq.loc(c))
        safes: set[bytes] = set()
        oks = True
        if isinstance(safe, ast.IfExp):
            parts = [(safe.body, True), (safe.orelse, False)]
            oks = ast.unparse(safe.test) in ("for_qs", "not for_qs") and all(isinstance(p_, ast.Constant) and isinstance(p_.value, bytes) for p_, _ in parts)
            if oks:
                qs_arm, path_arm = (safe.body, safe.orelse) if ast.unparse(safe.test) == "for_qs" else (safe.orelse, safe.body)
                oks = qs_arm.value == b"" and path_arm.value == b"/"  # type: ignore[attr-defined]
        elif isinstance(safe, ast.Constant) and isinstance(safe.value, bytes):
            gts = astq.guard_texts(uq.node, c)
            in_qs = any(g == "for_qs" and pol for g, pol in gts)
            oks = safe.value == (b"" if in_qs else b"/") and (in_qs or any(g == "for_qs" and not pol for g, pol in gts) or safe.value == b"")
        else:
            oks = False
        ctx.check(oks, f"url_quote:safe:{ast.unparse(c)[:40]}", "utils:url_quote", f"safe characters `{ast.unparse(safe) if safe is not None else '?'}`",
                  f"the safe set of the quoting call is `{ast.unparse(safe) if safe is not None else '?'}`: for query strings nothing may be left unquoted (b''), for paths only '/'; anything else lets reserved characters of the data through ('+' decodes to a space, '&' splits the pair)", uq.loc(c))
    reps = [c for c in astq.calls(uq.node) if astq.attr_tail(c) == "replace"]
    okr = len(reps) == 1 and [ast.unparse(a) for a in reps[0].args] == ["'%20'", "'+'"] and any(g == "for_qs" and pol for g, pol in astq.guard_texts(uq.node, reps[0])) and ast.unparse(reps[0].func.value) != "obj"  # type: ignore[attr-defined]
    ctx.check(okr, "url_quote:plus", "utils:url_quote", "spaces become + after quoting", f"the only rewrite allowed is %20 -> + on the quoted result under for_qs; found {[ast.unparse(r) for r in reps]}", uq.loc())
    du = repo.func("filters:do_urlencode")
    pair_ok = False
    for j in [c for c in astq.calls(du.node) if ast.unparse(c.func) == "'&'.join" and len(c.args) == 1 and isinstance(c.args[0], (ast.GeneratorExp, ast.ListComp))]:
        g = j.args[0].generators[0]  # type: ignore[union-attr]
        if isinstance(g.target, ast.Tuple) and len(g.target.elts) == 2:
            kv, vv = (ast.unparse(e_) for e_ in g.target.elts)
            pair_ok = ast.unparse(j.args[0].elt) == f"f'{{url_quote({kv}, for_qs=True)}}={{url_quote({vv}, for_qs=True)}}'"  # type: ignore[union-attr]
    ctx.check(pair_ok, "urlencode:pairs", "filters:do_urlencode", "pairs quoted for a query string", "keys and values of a mapping must be quoted with for_qs=True and joined with '&'", du.loc())

    ctx.rule("R3", "truncate: the unchanged-return test is len(s) <= length + leeway (as a linear inequality), every cut of s ends at length - len(end), every truncating return appends end")
    tr = repo.func("filters:do_truncate")
    tests = [astq.linear_cmp(n_) for n_ in ast.walk(tr.node) if isinstance(n_, ast.Compare) and "len(s)" in ast.unparse(n_)]
    want = ({"leeway": 1, "len(s)": -1, "length": 1}, ">=")
    ctx.check(any(t_ == want for t_ in tests if t_), "truncate:leeway", "filters:do_truncate", "leeway test",
              f"the unchanged-return test is {[t_ for t_ in tests]}, expected len(s) <= length + leeway", tr.loc(), detail={"normalised": str(tests)})
    slices = [n_ for n_ in ast.walk(tr.node) if isinstance(n_, ast.Subscript) and isinstance(n_.slice, ast.Slice) and ast.unparse(n_.value) == "s"]
    cut_ok = len(slices) >= 1 and all(n_.slice.lower is None and n_.slice.upper is not None and astq.linear(n_.slice.upper) == {"length": 1, "len(end)": -1} for n_ in slices)
    ctx.check(cut_ok, "truncate:cut", "filters:do_truncate", "cut position",
              "every cut of s must end at length - len(end), otherwise the result exceeds the requested length", tr.loc(), detail={"slices": [ast.unparse(x) for x in slices]})
    rets = astq.returns(tr.node)
    ctx.check(all(ast.unparse(r.value) == "s" or (isinstance(r.value, ast.BinOp) and isinstance(r.value.op, ast.Add) and ast.unparse(r.value.right) == "end") for r in rets), "truncate:end", "filters:do_truncate", "end appended",
              "a truncating return path does not append `end`", tr.loc())

    ctx.rule("R8", "filesizeformat: every return that names a prefix scales the value by the same expression of `unit` - the fall-through for values beyond the largest prefix agrees with the loop")
    fs = repo.func("filters:do_filesizeformat")
    scaled = []
    for r_ in astq.returns(fs.node):
        parts_: list[ast.AST] = []
        if isinstance(r_.value, ast.JoinedStr):
            parts_ = [fv.value for fv in r_.value.values if isinstance(fv, ast.FormattedValue)]
        elif isinstance(r_.value, ast.Call) and astq.attr_tail(r_.value) == "format":
            parts_ = list(r_.value.args) + [k_.value for k_ in r_.value.keywords]
        elif isinstance(r_.value, ast.BinOp) and isinstance(r_.value.op, ast.Mod):
            parts_ = list(r_.value.right.elts) if isinstance(r_.value.right, ast.Tuple) else [r_.value.right]
        for pv in parts_:
            if "unit" in {x.id for x in ast.walk(pv) if isinstance(x, ast.Name)}:
                scaled.append((ast.unparse(pv), r_))
    ctx.need(bool(scaled), "do_filesizeformat: no return scaling by `unit` found")
    forms_ = sorted({t_ for t_, _ in scaled})
    ctx.check(len(forms_) == 1, "filesizeformat:scale-agreement", "filters:do_filesizeformat", f"returns scale by {forms_}",
              f"the prefixed returns of do_filesizeformat disagree on the scaling ({forms_}): `unit` is base ** (i + 2), one power above the prefix printed, so a return that omits the `base *` factor prints values beyond the last prefix 1000 (1024) times too small (10**28 -> '10.0 YB' instead of '10000.0 YB')",
              fs.loc(scaled[-1][1]))

    ctx.rule("R9", "a filter hands each of its options to the library call under the same name: a keyword argument `k=<expr>` whose name is a parameter of the filter carries that parameter (wordwrap's break_long_words / break_on_hyphens / width, ...)")
    n_fw = 0
    for fname in sorted(k_ for k_, v_ in repo.module("filters").defs.items() if isinstance(v_, (ast.FunctionDef, ast.AsyncFunctionDef))):
        if not fname.startswith(("do_", "sync_do_")):
            continue
        fi_ = repo.func(f"filters:{fname}")
        params = {a_.arg for a_ in fi_.node.args.args + fi_.node.args.kwonlyargs}
        for c in astq.calls(fi_.node):
            for k in c.keywords:
                if k.arg in params and isinstance(k.value, ast.Name) and k.value.id in params:
                    n_fw += 1
                    ctx.check(k.value.id == k.arg, f"forward:{fname}:{k.arg}", f"filters:{fname}", f"`{k.arg}={k.value.id}`",
                              f"{fname} passes its parameter `{k.value.id}` as `{k.arg}=` to {astq.callee(c)}(...) although it has a parameter `{k.arg}` of its own: the option the caller sets is ignored and another one decides (wordwrap(break_on_hyphens=False) then also stops breaking long words, lines exceed the width)",
                              fi_.loc(k.value))
    ctx.floor("same-name keyword forwardings in filters", n_fw, 4)

    ctx.rule("R7", "regexes of the text filters classify characters by Unicode rules: no re.ASCII / (?a) on a str pattern that uses \\w, \\s, \\d or \\b, except the reviewed protocol-level patterns")
    ascii_ok = {("filters", "_attr_key_re"): "delimiters of an XML attribute name are ASCII by the HTML / XML specifications"}
    nre = 0
    for mod in ("filters", "utils"):
        m = repo.module(mod)
        for name, val in sorted(m.assigns.items()):
            if not (isinstance(val, ast.Call) and astq.callee(val) in ("re.compile", "compile") and val.args):
                continue
            nre += 1
            flags_txt = " ".join(ast.unparse(k.value) for k in val.keywords if k.arg == "flags") + (" " + ast.unparse(val.args[1]) if len(val.args) > 1 else "")
            pat = val.args[0].value if isinstance(val.args[0], ast.Constant) and isinstance(val.args[0].value, str) else ""
            asc = any(f in flags_txt.replace(" ", "").split("|") for f in ("re.ASCII", "re.A")) or "(?a" in pat
            ctx.check(not asc or (mod, name) in ascii_ok, f"regex:{mod}:{name}", f"{mod}:<module>", f"`{name}` is compiled with re.ASCII",
                      f"{mod}.{name} = {ast.unparse(val)[:80]} restricts \\w / \\s / \\b to ASCII: text in any other script is split or dropped (wordcount of 'привет мир' is 0, of 'naïve café' 3)", f"{m.rel}:{val.lineno}",
                      detail={"regex": name, "flags": flags_txt.strip(), "reviewed": ascii_ok.get((mod, name))})
    ctx.floor("module-level regexes in filters / utils", nre, 5)
    return __doc__ or ""


def _covered(fn: ast.AST, call: ast.Call, exc: str) -> bool:
    """Walk outward: a try whose *body* contains the call and has a matching handler decides;
    a call that sits inside a handler is only protected by tries enclosing that handler."""
    child: ast.AST = call
    cur = getattr(call, "_parent", None)
    while cur is not None and cur is not fn:
        if isinstance(cur, ast.Try) and any(child is s for s in cur.body):
            for h in cur.handlers:
                if catches(handler_types(h), exc):
                    return _handler_returns_default(fn, h) and all(
                        _covered(fn, c2, e2)
                        for c2 in astq.calls(h)
                        if astq.callee(c2) in ("int", "float")
                        for e2 in RAISE_SET[astq.callee(c2)]
                    ) or _direct_default(h)
        child = cur
        cur = getattr(cur, "_parent", None)
    return False


def _direct_default(h: ast.ExceptHandler) -> bool:
    return len(h.body) == 1 and isinstance(h.body[0], ast.Return) and h.body[0].value is not None and ast.unparse(h.body[0].value) == "default"
