"""C03 - statements and variable scoping follow Jinja's scoping rules.

Decided statically: the compiler and the symbol analysis agree on scope boundaries (node
classes for which a visitor opens ``frame.inner()`` = classes at which FrameSymbolVisitor
stops; every analysed class has a RootVisitor method); *field coverage* - every node field a
compiler visitor visits with frame F is analysed into F's own symbol table (RootVisitor) or,
for the enclosing frame, by the enclosing pass (FrameSymbolVisitor), otherwise
``Symbols.ref`` raises at compile time; frame life cycle on every path of the emission model
(created -> analyze_node -> enter_frame -> visits -> leave_frame; the for_branch analysed is
the branch visited); assignment tracking is balanced; enclosing scopes are always searched
transitively (find_ref / find_load), never through a parent's tables directly; namespace
stores are preceded by the emitted Namespace check; an unresolved load never leaks the
``missing`` sentinel; template identifiers reach Python identifiers unnormalised (finding).
Also: the Namespace guard covers dotted references inside tuple targets of both set forms; a namespace owns a fresh dict; a macro parameter counts as bound only after its default was emitted.  
Also: pop_assign_tracking writes the render context only on paths that decided frame.toplevel; visit_Name records stored names only in toplevel / loop / block frames.  
Not decided: the load/alias decisions of Symbols on arbitrary program shapes.
"""

from __future__ import annotations

import ast

from .. import astq
from ..core import Ctx
from ..emitrules import get_paths
from ..emitrules import short_flags

ALL = "*"


def _fields_of(ctx: Ctx, cls: str) -> list[str]:
    ci = ctx.repo.cls(f"nodes:{cls}")
    out: list[str] = []
    for c in reversed(ctx.repo.mro(ci)):
        f = c.assigns.get("fields")
        if isinstance(f, ast.Tuple):
            out += [e.value for e in f.elts if isinstance(e, ast.Constant)]
    return out


def _node_fields_mentioned(fn: ast.AST) -> set[str]:
    return {n.attr for n in ast.walk(fn) if isinstance(n, ast.Attribute) and isinstance(n.value, ast.Name) and n.value.id == "node"}


def root_coverage(ctx: Ctx) -> dict[str, dict[str, set[str]]]:
    """class -> for_branch ('' when none) -> fields analysed into the frame's own table."""
    rv = ctx.repo.cls("idtracking:RootVisitor")
    out: dict[str, dict[str, set[str]]] = {}

    def simple_cov(fn: ast.AST, cls: str) -> set[str]:
        fields = set(_fields_of(ctx, cls))
        for c in astq.calls(fn):
            if astq.callee(c).endswith("iter_child_nodes"):
                ex = [k for k in c.keywords if k.arg == "exclude"]
                only = [k for k in c.keywords if k.arg == "only"]
                if ex:
                    return fields - (astq.const_str_set(ex[0].value) or set())
                if only:
                    return astq.const_str_set(only[0].value) or set()
                return fields
        return _node_fields_mentioned(fn) & fields

    for name, val in rv.assigns.items():
        if name.startswith("visit_") and isinstance(val, ast.Name) and val.id in rv.methods:
            out[name[6:]] = {"": simple_cov(rv.methods[val.id], name[6:])}
    for name, fn in rv.methods.items():
        if not name.startswith("visit_"):
            continue
        cls = name[6:]
        if cls == "For":
            arms: dict[str, set[str]] = {}
            for n in ast.walk(fn):
                if isinstance(n, ast.If) and isinstance(n.test, ast.Compare) and ast.unparse(n.test.left) == "for_branch" and isinstance(n.test.comparators[0], ast.Constant):
                    arm = n.test.comparators[0].value
                    fields = set()
                    for s in n.body:
                        fields |= _node_fields_mentioned(s)
                    arms[arm] = fields
            out[cls] = arms
        else:
            out[cls] = {"": simple_cov(fn, cls)}
    return out


def outer_coverage(ctx: Ctx) -> dict[str, set[str] | str]:
    """class -> fields the enclosing pass (FrameSymbolVisitor) analyses; ALL when it has no
    method for the class (generic_visit) or calls generic_visit."""
    fsv = ctx.repo.cls("idtracking:FrameSymbolVisitor")
    out: dict[str, set[str] | str] = {}
    for name, fn in fsv.methods.items():
        if not name.startswith("visit_"):
            continue
        if any(astq.callee(c) == "self.generic_visit" for c in astq.calls(fn)):
            out[name[6:]] = ALL
        else:
            out[name[6:]] = _node_fields_mentioned(fn)
    return out


def check(ctx: Ctx) -> str:
    ctx.use("compiler", "idtracking", "nodes", "parser", "utils", "lexer")
    repo = ctx.repo
    rootcov = root_coverage(ctx)
    outcov = outer_coverage(ctx)
    res = get_paths(ctx)
    # which node classes can the parser (and the bundled extensions) build?
    built: set[str] = set()
    for mod in ("parser", "ext"):
        for c in astq.calls(repo.module(mod).tree):
            f = astq.callee(c)
            if f.startswith("nodes."):
                built.add(f[6:])
    stmt_visitors = {e: items for e, items in res.items() if e.startswith("visit_") or e == "macro_body"}

    # collect facts per visitor from the emission events
    opens: dict[str, set[str]] = {}  # visitor -> node classes for which an inner frame is created
    analyses: dict[str, set[tuple[str, str]]] = {}
    facts: dict[str, list[dict]] = {}
    for entry, items in stmt_visitors.items():
        for p, sk in items:
            if p.outcome != "normal":
                continue
            frames: dict[str, dict] = {}
            for ev in p.events:
                if ev[0] == "frame" and ev[2] == "inner":
                    frames[ev[1]] = {"branch": None, "analyzed": False, "entered": False, "left": False, "visits": [], "order": []}
                elif ev[0] == "analyze":
                    fl = ev[1].rsplit(".symbols", 1)[0]
                    if fl in frames:
                        frames[fl]["analyzed"] = True
                        frames[fl]["branch"] = (ev[3] or {}).get("for_branch")
                        frames[fl]["order"].append("analyze")
                        frames[fl]["node"] = ev[2]
                elif ev[0] == "summary" and ev[1] in ("enter_frame", "leave_frame") and ev[2] and ev[2][0] in frames:
                    frames[ev[2][0]]["order"].append(ev[1])
                elif ev[0] == "visit" and ev[2] in frames:
                    frames[ev[2]]["order"].append("visit")
                    frames[ev[2]]["visits"].append(ev[1])
            facts.setdefault(entry, []).append({"frames": frames, "path": p, "events": p.events})

    ctx.rule("R1", "scope boundaries agree: node classes whose compiler visitor opens frame.inner() = classes at which FrameSymbolVisitor stops descending (own method without generic_visit); every class passed to analyze_node has a RootVisitor method")
    comp_inner: set[str] = set()
    for entry, fl in facts.items():
        for f in fl:
            if f["frames"]:
                if entry == "macro_body":
                    comp_inner |= {"Macro", "CallBlock"}
                elif entry.startswith("visit_") and entry not in ("visit_Macro", "visit_CallBlock"):
                    comp_inner.add(entry[6:])
    fsv_stops = {c for c, cov in outcov.items() if cov != ALL and c not in ("Name", "NSRef", "If", "Assign")}
    # Block / Template are root frames (Frame(eval_ctx)), not inner frames
    ctx.check(comp_inner | {"Block"} == fsv_stops, "boundary sets", "idtracking:FrameSymbolVisitor", "scope boundary sets differ",
              f"compiler opens inner frames for {sorted(comp_inner)} (+ root frames for Block) but FrameSymbolVisitor stops at {sorted(fsv_stops)}: symbols of {sorted((comp_inner | {'Block'}) ^ fsv_stops)} are analysed in the wrong scope",
              "src/jinja2/idtracking.py", detail={"compiler_inner": sorted(comp_inner), "symbol_visitor_stops": sorted(fsv_stops)})
    for cls in sorted(comp_inner | {"Block", "Template"}):
        ctx.check(cls in rootcov, f"root:{cls}", "idtracking:RootVisitor", f"visit_{cls} missing", f"frames are analysed for {cls} nodes but RootVisitor has no visit_{cls} (NotImplementedError at compile time)", "src/jinja2/idtracking.py")
    # If / CondExpr are soft frames, not boundaries
    for v in ("visit_If", "visit_CondExpr"):
        fi = repo.func(f"compiler:CodeGenerator.{v}")
        s = ast.unparse(fi.node)
        ctx.check("frame.soft()" in s and ".inner(" not in s, f"soft:{v}", f"compiler:CodeGenerator.{v}", "soft frame", f"{v} must use frame.soft(): if-branches share the enclosing scope", fi.loc())

    ctx.rule("R7", "field coverage: each node field a visitor visits with an inner frame is analysed into that frame by RootVisitor (honouring for_branch); each field visited with the enclosing frame is analysed by the enclosing pass (FrameSymbolVisitor)")
    n = 0
    for entry, fl in sorted(facts.items()):
        cls = entry[6:] if entry.startswith("visit_") else None
        classes = [cls] if cls else ["Macro", "CallBlock"]
        if cls in ("Macro", "CallBlock"):
            continue
        seen: set[tuple] = set()
        for f in fl:
            for flabel, fr in f["frames"].items():
                for v in fr["visits"]:
                    if not v.startswith("node.") and not v.startswith("folded(node."):
                        continue
                    field = v.replace("folded(", "").split(".")[1].split("[")[0].rstrip(")")
                    for c in classes:
                        if c not in built:
                            continue
                        if field not in _fields_of(ctx, c):
                            continue
                        key = (c, field, fr["branch"] or "")
                        if key in seen:
                            continue
                        seen.add(key)
                        n += 1
                        cov = rootcov.get(c, {})
                        br = (fr["branch"] or "").strip("'")
                        have = cov.get(br if br in cov else ("body" if c == "For" and not br else ""), set())
                        ctx.check(field in have, f"{c}.{field}@{br or '-'}", f"idtracking:RootVisitor.visit_{c}", f"{c}.{field} visited with the inner frame but not analysed into it",
                                  f"compiler.{entry} visits node.{field} with the frame analysed by RootVisitor.visit_{c}({('for_branch=' + br) if br else ''}), which only covers {sorted(have)}: a name inside `{field}` is unknown to the frame and Symbols.ref raises AssertionError at compile time",
                                  "src/jinja2/idtracking.py", detail={"class": c, "field": field, "branch": br, "covered": sorted(have)})
            # visits with the outer frame
            for ev in f["events"]:
                if ev[0] == "visit" and ev[2] == "frame" and (ev[1].startswith("node.") or ev[1].startswith("folded(node.")):
                    field = ev[1].replace("folded(", "").split(".")[1].split("[")[0].rstrip(")")
                    for c in classes:
                        if c not in built or c not in outcov or field not in _fields_of(ctx, c):
                            continue
                        key = (c, field, "outer")
                        if key in seen:
                            continue
                        seen.add(key)
                        n += 1
                        cov = outcov[c]
                        ctx.check(cov == ALL or field in cov, f"{c}.{field}@outer", f"idtracking:FrameSymbolVisitor.visit_{c}", f"{c}.{field} visited with the enclosing frame but skipped by the enclosing analysis",
                                  f"compiler.{entry} visits node.{field} with the enclosing frame, but FrameSymbolVisitor.visit_{c} only analyses {sorted(cov) if cov != ALL else cov}", "src/jinja2/idtracking.py")
    ctx.floor("field coverage obligations", n, 15)

    ctx.rule("R2", "frame life cycle on every emission path: inner frame -> analyze_node -> enter_frame -> visits -> leave_frame (macro bodies and loop-filter functions leave with a Python scope)")
    n = 0
    for entry, fl in sorted(facts.items()):
        bad = None
        for f in fl:
            for flabel, fr in f["frames"].items():
                n += 1
                order = fr["order"]
                if not order:
                    continue
                if "visit" in order or "enter_frame" in order:
                    if order[0] != "analyze":
                        bad = (flabel, "used before analyze_node", f["path"])
                    if "visit" in order and "enter_frame" in order and order.index("visit") < order.index("enter_frame") and entry not in ("visit_For",):
                        bad = (flabel, "visited before enter_frame", f["path"])
                    if "enter_frame" in order and "leave_frame" not in order:
                        bad = (flabel, "entered but never left", f["path"])
                    if "visit" in order and "enter_frame" not in order and entry != "visit_For":
                        bad = (flabel, "visited without enter_frame", f["path"])
        ctx.check(bad is None, entry, f"compiler:CodeGenerator.{entry}", f"frame life cycle: {bad[1] if bad else ''}",
                  f"{entry}: frame {bad[0] if bad else ''} is {bad[1] if bad else ''} [{short_flags(bad[2], 5) if bad else ''}]", "src/jinja2/compiler.py")
    ctx.floor("inner frames on emission paths", n, 200)
    # for_branch agreement in visit_For
    vf = repo.func("compiler:CodeGenerator.visit_For")
    want = {"loop_frame": "'body'", "else_frame": "'else'", "test_frame": "'test'"}
    for c in astq.calls(vf.node):
        if astq.callee(c).endswith(".symbols.analyze_node"):
            fr = astq.callee(c).split(".")[0]
            br = [ast.unparse(k.value) for k in c.keywords if k.arg == "for_branch"]
            ctx.check(br == [want.get(fr, "?")], f"for_branch:{fr}", "compiler:CodeGenerator.visit_For", f"{fr} analysed with for_branch={br}", f"{fr} must be analysed with for_branch={want.get(fr)}", vf.loc(c))
    uses = {"loop_frame": "node.body", "else_frame": "node.else_", "test_frame": "node.test"}
    for fr, field in uses.items():
        cs = [c for c in astq.calls(vf.node) if astq.callee(c) in ("self.blockvisit", "self.visit") and len(c.args) == 2 and ast.unparse(c.args[1]) == fr]
        ctx.check(bool(cs) and all(ast.unparse(c.args[0]) in (field, "node.target") for c in cs), f"for_use:{fr}", "compiler:CodeGenerator.visit_For", f"{fr} visits {field}", f"{fr} must be used to visit {field} (and the loop target)", vf.loc())

    ctx.rule("R9", "(skeletons) every loop iteration is a fresh scope: in each visit_For skeleton the body frame's name initialisation (enter_frame) and `_loop_vars = {}` are emitted inside the `for` statement that iterates, once, before the body")
    nfor = 0
    for p, sk in res["visit_For"]:
        if p.outcome != "normal" or sk.error:
            continue
        lines = sk.text.splitlines()
        lv = [i for i, ln in enumerate(lines) if ln.strip() == "_loop_vars = {}"]
        if not lv:
            continue
        nfor += 1
        ok = len(lv) == 1
        why = f"{len(lv)} `_loop_vars = {{}}` lines"
        if ok:
            i = lv[0]
            ind = len(lines[i]) - len(lines[i].lstrip())
            hdr = next((j for j in range(i - 1, -1, -1) if len(lines[j]) - len(lines[j].lstrip()) < ind), None)
            is_for = hdr is not None and lines[hdr].strip().startswith(("for ", "async for "))
            between = [ln.strip() for ln in lines[(hdr or 0) + 1:i]]
            enters = [j for j, ln in enumerate(lines) if ln.strip() == "pass  # enter_frame"]
            inside = [j for j in enters if hdr is not None and hdr < j < i]
            # the loop-filter function has its own enter_frame; apart from that one, none may precede the header
            filt = [j for j in enters if hdr is not None and j < hdr and any(lines[k].strip().startswith(("def t_", "async def t_")) for k in range(j - 1, max(j - 3, -1), -1))]
            stray = [j for j in enters if hdr is not None and j < hdr and j not in filt]
            ok = bool(is_for and len(inside) == 1 and not stray and all(b == "pass  # enter_frame" for b in between))
            why = f"header `{lines[hdr].strip() if hdr is not None else None}`, enter_frame inside the loop: {len(inside)}, before the loop: {len(stray)}, other statements before the scope setup: {[b for b in between if b != 'pass  # enter_frame']}"
        ctx.check(ok, f"for-scope:{nfor}", "compiler:CodeGenerator.visit_For", "loop body scope not set up per iteration",
                  f"visit_For [{short_flags(p, 6)}]: {why} - names assigned in one iteration stay bound in the next one (`{{% set n = n + x %}}` accumulates, a set under `loop.first` is visible in later iterations)\n{sk.text[:400]}", "src/jinja2/compiler.py",
                  detail={"flags": short_flags(p, 6)} if nfor == 1 else None)
    ctx.floor("visit_For skeletons with a body", nfor, 20)

    ctx.rule("R3", "assignment tracking is balanced: every path of visit_Assign / visit_AssignBlock pushes once and pops once, push first")
    for entry in ("visit_Assign", "visit_AssignBlock"):
        ok = True
        for p, sk in res[entry]:
            if p.outcome != "normal":
                continue
            seq = [ev[1] for ev in p.events if ev[0] == "call" and ev[1] in ("push_assign_tracking", "pop_assign_tracking")]
            if seq != ["push_assign_tracking", "pop_assign_tracking"]:
                ok = False
        ctx.check(ok, entry, f"compiler:CodeGenerator.{entry}", "push/pop_assign_tracking unbalanced", f"{entry} does not push and pop the assignment tracking exactly once on every path", "src/jinja2/compiler.py")

    ctx.rule("R8", "enclosing scopes are searched transitively: Symbols reaches a parent's refs/loads only through find_ref / find_load")
    sym = repo.cls("idtracking:Symbols")
    n = 0
    for name, fn in sym.methods.items():
        for node in ast.walk(fn):
            if isinstance(node, ast.Attribute) and node.attr in ("refs", "loads") and "parent" in ast.unparse(node.value):
                n += 1
                ctx.bad(f"idtracking:Symbols.{name}", f"direct access {ast.unparse(node)}",
                        f"Symbols.{name} reads `{ast.unparse(node)}`: only the immediate parent is consulted, a variable defined two or more scopes out is treated as undefined / resolved from the context instead of aliasing the enclosing local",
                        f"src/jinja2/idtracking.py:{node.lineno}")
    for meth, callee in (("store", "self.parent.find_ref"), ("branch_update", "self.parent.find_ref"), ("find_ref", "self.parent.find_ref"), ("find_load", "self.parent.find_load")):
        fi = repo.func(f"idtracking:Symbols.{meth}")
        ctx.check(any(astq.callee(c) == callee for c in astq.calls(fi.node)), f"{meth}:transitive", f"idtracking:Symbols.{meth}", f"outer lookup via {callee}", f"Symbols.{meth} must look outward with {callee}(...)", fi.loc())

    ctx.rule("R5", "namespace attribute stores: visit_Assign emits `if not isinstance(<ref>, Namespace): raise TemplateRuntimeError` for each NSRef before the assignment; visit_NSRef emits an item store on the reference")
    ok_any = False
    for p, sk in res["visit_Assign"]:
        if p.outcome != "normal":
            continue
        k = [v for lab, v in p.decisions.items() if lab.startswith("len(node.find_all(nodes.NSRef))")]
        has = bool(k) and isinstance(k[0], int) and not isinstance(k[0], bool) and k[0] > 0
        if has:
            ok_any = True
            t_ = sk.text
            good = "if not isinstance(" in t_ and ", Namespace):" in t_ and "raise TemplateRuntimeError" in t_ and t_.index("Namespace") < t_.rindex(" = ")
            ctx.check(good, f"nsguard:{short_flags(p, 3)}", "compiler:CodeGenerator.visit_Assign", "namespace guard", f"an assignment with a namespace reference is compiled without the Namespace check:\n{t_[:200]}", "src/jinja2/compiler.py")
    ctx.need(ok_any, "no visit_Assign path with an NSRef found")
    # both statement forms whose target the parser reads with_namespace=True need the guard:
    # `{% set ns.a = v %}` (Assign) and `{% set ns.a %}...{% endset %}` (AssignBlock)
    ps = repo.func("parser:Parser.parse_set")
    built = sorted({astq.callee(c)[6:] for c in astq.calls(ps.node) if astq.callee(c).startswith("nodes.")})
    ns_callers = [q for q in ("parse_set", "parse_for", "parse_with", "parse_import", "parse_from", "parse_macro", "parse_call_block") if any(k.arg == "with_namespace" and ast.unparse(k.value) == "True" for c in astq.calls(repo.func(f"parser:Parser.{q}").node) for k in c.keywords)]
    ctx.check(ns_callers == ["parse_set"], "nsref:producers", "parser:Parser", f"statements accepting dotted targets: {ns_callers}", f"dotted assignment targets are expected from parse_set only, found {ns_callers}: each statement form needs the Namespace check in its visitor", ps.loc())
    for cname in built:
        entry = f"visit_{cname}"
        items = res.get(entry)
        ctx.need(items is not None, f"no emission paths for {entry}")
        guarded = [sk for p, sk in items if p.outcome == "normal" and "if not isinstance(" in sk.text and ", Namespace):" in sk.text and "raise TemplateRuntimeError" in sk.text]
        ctx.check(bool(guarded), f"nsguard:form:{cname}", f"compiler:CodeGenerator.{entry}", "no path emits the Namespace check",
                  f"{entry} compiles a `{{% set %}}` form whose target may be `ns.attr` but never emits `if not isinstance(<ref>, Namespace): raise TemplateRuntimeError`: the store `ref['attr'] = value` then reaches any object of the render data that supports item assignment (a dict passed to render is modified, also in the immutable sandbox)", "src/jinja2/compiler.py")
    # the target parse_set reads may be a tuple (`{% set a, d.x %}ab{% endset %}`,
    # `{% set a, d.x = 1, 2 %}`): the guard must be emitted for every dotted reference inside
    # the target, not only when the target itself is one
    pat_calls = [c for c in astq.calls(ps.node) if astq.callee(c) == "self.parse_assign_target"]
    tuple_ok = any(not any(k.arg == "with_tuple" and ast.unparse(k.value) == "False" for k in c.keywords) for c in pat_calls)
    nsref_inline = any("Namespace" in sk.text for _, sk in res["visit_NSRef"])
    for cname in built:
        vf = repo.func(f"compiler:CodeGenerator.visit_{cname}")
        emits = [c for c in astq.calls(vf.node) if astq.callee(c) == "self.writeline" and c.args and "Namespace" in ast.unparse(c.args[0]) and "isinstance" in ast.unparse(c.args[0])]
        if not emits:
            continue  # (reported by nsguard:form above)
        tuple_cov = bare_cov = False
        for e_ in emits:
            lp = getattr(e_, "_parent", None)
            while lp is not None and lp is not vf.node and not isinstance(lp, (ast.For, ast.AsyncFor)):
                lp = getattr(lp, "_parent", None)
            if isinstance(lp, ast.For):
                cands = [lp.iter]
                if isinstance(lp.iter, ast.Name):
                    cands = [a.value for a in ast.walk(vf.node) if isinstance(a, (ast.Assign, ast.AnnAssign)) and a.value is not None and any(isinstance(t_, ast.Name) and t_.id == lp.iter.id for t_ in (a.targets if isinstance(a, ast.Assign) else [a.target]))]
                # a conditional expression offers both arms
                cands = [arm for c_ in cands for arm in ((c_.body, c_.orelse) if isinstance(c_, ast.IfExp) else (c_,))]
                txts = [ast.unparse(c_) for c_ in cands]
                tuple_cov = tuple_cov or any(".find_all(nodes.NSRef)" in x for x in txts)
                # Node.find_all yields descendants only: the statement's find_all reaches a bare
                # target, the target's own find_all does not
                bare_cov = bare_cov or any(x.startswith("node.find_all(") or x in ("[node.target]", "(node.target,)") for x in txts)
                if cname != "Assign":
                    # same loop discipline as visit_Assign's (below): no early exit, skip only seen
                    exits_ = [n_ for n_ in ast.walk(lp) if isinstance(n_, (ast.Break, ast.Return, ast.Raise))]
                    okc_ = all(len([g for g, pol in astq.guard_atoms(lp, c_) if pol]) == 1 and [g for g, pol in astq.guard_atoms(lp, c_) if pol][0].endswith(".name in seen_refs") for c_ in ast.walk(lp) if isinstance(c_, ast.Continue))
                    ctx.check(not exits_ and not lp.orelse and okc_, f"nsguard:all-targets:{cname}", f"compiler:CodeGenerator.visit_{cname}", "guard loop leaves early or skips unseen references",
                              "the loop emitting the Namespace check must handle every dotted target (skipping only references already checked)", vf.loc(lp))
            else:
                bare_cov = bare_cov or ("isinstance(node.target, nodes.NSRef)", True) in astq.guard_atoms(vf.node, e_)
        ctx.check(bare_cov and (tuple_cov or not tuple_ok), f"nsguard:tuple-targets:{cname}", f"compiler:CodeGenerator.visit_{cname}", "guard does not cover dotted references inside a tuple target",
                  f"visit_{cname} emits the Namespace check {'only when the target itself is a dotted reference' if bare_cov else 'not for a bare dotted target'}; parse_set also accepts a tuple target, so `{{% set a, d.x %}}ab{{% endset %}}` / `{{% set a, d.x = 1, 2 %}}` compiles to `l_a, l_d['x'] = ...` without any check and writes into a dict of the render data (also in the immutable sandbox)", vf.loc(emits[0]))
        # the guard runs before the assignment statement; inside a tuple target a plain name
        # stored *before* the dotted reference rebinds what the reference means
        # (`{% set ns, ns.x = d, 1 %}` checks the old ns, then stores into d): sound only when
        # the check is part of the store itself (visit_NSRef) or such targets are rejected
        rejects = any(astq.callee(c) == "self.fail" for c in astq.calls(vf.node))
        ctx.check(nsref_inline or rejects or not tuple_ok, f"nsguard:rebinding:{cname}", f"compiler:CodeGenerator.visit_{cname}", "guard precedes a tuple target that may rebind the guarded name",
                  f"visit_{cname} checks `isinstance(<ref>, Namespace)` before the assignment statement, but the tuple target is stored left to right: `{{% set ns = namespace() %}}{{% set ns, ns.x = d, 1 %}}` passes the check on the old `ns`, rebinds it to the dict `d` and then executes `d['x'] = 1` - render data is modified, also in the immutable sandbox", vf.loc(emits[0]))
    # the guard is emitted per distinct reference: the emitting loop runs over *all* NSRef
    # nodes and may only skip one already seen (continue) - an early exit leaves the
    # remaining targets unguarded, and `{% set ns.a, ns.b, d.x = ... %}` then stores into a
    # plain dict of the render data
    va = repo.func("compiler:CodeGenerator.visit_Assign")
    loops = [n_ for n_ in ast.walk(va.node) if isinstance(n_, ast.For) and "NSRef" in ast.unparse(n_.iter)]
    ctx.need(len(loops) == 1, "visit_Assign: loop over the NSRef targets not found")
    exits = [n_ for n_ in ast.walk(loops[0]) if isinstance(n_, (ast.Break, ast.Return))]
    raises_ = [n_ for n_ in ast.walk(loops[0]) if isinstance(n_, ast.Raise)]
    ctx.check(not exits and not raises_ and not loops[0].orelse, "nsguard:all-targets", "compiler:CodeGenerator.visit_Assign", f"guard loop leaves early ({[type(e).__name__ for e in exits + raises_]})",
              "the loop emitting the Namespace check stops before all dotted targets were handled: later targets are assigned without the check, so an attribute assignment reaches a non-namespace object from the render data", va.loc(loops[0]))
    conts = [n_ for n_ in ast.walk(loops[0]) if isinstance(n_, ast.Continue)]
    okc = all([g for g, pol in astq.guard_texts(loops[0], c_) if pol] in (["nsref.name in seen_refs"],) for c_ in conts)
    ctx.check(okc, "nsguard:skip-only-seen", "compiler:CodeGenerator.visit_Assign", "skips only references already checked", "a reference may be skipped only because its check was already emitted", va.loc(loops[0]))
    for p, sk in res["visit_NSRef"]:
        ctx.check("[" in sk.text and "." not in sk.text.strip(), "nsref:item", "compiler:CodeGenerator.visit_NSRef", "item store", f"visit_NSRef must emit ref[attr], got {sk.text.strip()}", "src/jinja2/compiler.py")
    ns = repo.cls("utils:Namespace")
    ctx.check("__setitem__" in ns.methods and "self.__attrs[name] = value" in ast.unparse(ns.methods["__setitem__"]).replace("_Namespace__attrs", "__attrs"), "Namespace.__setitem__", "utils:Namespace", "item store writes attrs", "Namespace.__setitem__ must store into the namespace's attribute dict", ns.loc())

    ctx.rule("R8", "a namespace owns its storage: Namespace.__init__ stores a dict created there on every path (`namespace(d)` copies d), so a checked dotted assignment never reaches an object of the render data")
    # the check above keeps dotted assignments on Namespace objects only; that protects the
    # render data only if a namespace stores into a dict of its own: `namespace(d)` copies d
    ni = ns.methods.get("__init__")
    ctx.need(ni is not None, "Namespace.__init__ not found")
    st_ = [a for a in ast.walk(ni) if isinstance(a, ast.Assign) and any(isinstance(t_, ast.Attribute) and t_.attr in ("__attrs", "_Namespace__attrs") for t_ in a.targets)]
    ctx.need(bool(st_), "Namespace.__init__ no longer assigns its attribute dict")
    for a in st_:
        ctx.check(astq.fresh_container(ni, a.value), f"Namespace.__init__:private:{ast.unparse(a.value)[:30]}", "utils:Namespace.__init__", f"attribute dict `{ast.unparse(a.value)[:50]}` may be the caller's object",
                  f"Namespace.__init__ stores `{ast.unparse(a.value)}` as its attribute dict: unless that is a new dict on every path, `{{% set ns = namespace(d) %}}{{% set ns.x = 1 %}}` passes the Namespace check and writes into the dict `d` of the render data (also in the immutable sandbox)",
                  f"src/jinja2/utils.py:{a.lineno}")

    ctx.rule("R6", "missing never escapes: visit_Name writes the bare reference for a load only when it is a declared, already bound parameter; every other load is `undefined(name=...) if ref is missing else ref`; enter_frame initialises every load target")
    n = 0
    for p, sk in res["visit_Name"]:
        if p.outcome != "normal" or not p.decisions.get("node.ctx == 'load'"):
            continue
        n += 1
        bare = "undefined(name=" not in sk.text
        if bare:
            d = p.decisions
            param = any(k.endswith("[0] == 'param'") and v for k, v in d.items())
            found = any(k.endswith("is not None") and "find_load" in k and v for k, v in d.items())
            undeclared = any(("_param_def_block[-1]" in k) and v for k, v in d.items())
            ctx.check(param and found and not undeclared, f"bare:{n}", "compiler:CodeGenerator.visit_Name", "bare load of a non-parameter", f"a load is emitted without the `is missing` check although it is not a bound parameter [{short_flags(p, 8)}]", "src/jinja2/compiler.py")
        else:
            ctx.ok(f"guarded:{n}")
    ctx.floor("visit_Name load paths", n, 4)
    # "already bound": a macro parameter counts as bound only once its own default has been
    # emitted - while `{% macro m(x=x) %}` compiles the default, `x` is still possibly missing
    # and the load needs the check.  In macro_body's loop over the parameters the call that
    # marks the parameter as stored comes after everything that visits its default.
    mbf = repo.func("compiler:CodeGenerator.macro_body")
    ploops = [l_ for l_ in ast.walk(mbf.node) if isinstance(l_, ast.For) and any(astq.callee(c) == "self.mark_parameter_stored" for c in astq.calls(l_))]
    ctx.need(len(ploops) == 1, "macro_body: the loop marking parameters as stored was not found")
    marks = [c for c in astq.calls(ploops[0]) if astq.callee(c) == "self.mark_parameter_stored"]
    visits_ = [c for c in astq.calls(ploops[0]) if astq.callee(c) == "self.visit"]
    ctx.check(len(marks) == 1 and bool(visits_) and all((v_.lineno, v_.col_offset) < (marks[0].lineno, marks[0].col_offset) for v_ in visits_) and not astq.guard_atoms(ploops[0], marks[0]), "macro_body:stored-after-default", "compiler:CodeGenerator.macro_body", "parameter marked as stored before its default is compiled",
              "macro_body calls mark_parameter_stored(ref) before (or only on some path after) the parameter's default expression is visited: inside `{% macro m(x=x) %}` the default then reads the bare local, and a call without that argument passes the internal `missing` sentinel on as the value (printed as `missing`, `is defined` is true, StrictUndefined does not raise)",
              mbf.loc(marks[0]) if marks else mbf.loc())
    ef = repo.func("compiler:CodeGenerator.enter_frame")
    consts = {repo.const(f"idtracking:{c}") for c in ("VAR_LOAD_PARAMETER", "VAR_LOAD_RESOLVE", "VAR_LOAD_ALIAS", "VAR_LOAD_UNDEFINED")}
    arms = {ast.unparse(n_.test.comparators[0]) for n_ in ast.walk(ef.node) if isinstance(n_, ast.If) and isinstance(n_.test, ast.Compare) and ast.unparse(n_.test.left) == "action"}
    ctx.check(arms == {"VAR_LOAD_PARAMETER", "VAR_LOAD_RESOLVE", "VAR_LOAD_ALIAS", "VAR_LOAD_UNDEFINED"} and len(consts) == 4, "enter_frame:arms", "compiler:CodeGenerator.enter_frame", "load instruction arms", f"enter_frame handles {sorted(arms)}; the symbol table produces four distinct instructions", ef.loc())
    produced = set()
    for fn in sym.methods.values():
        for c in astq.calls(fn):
            for k in c.keywords:
                if k.arg == "load" and isinstance(k.value, ast.Tuple):
                    produced.add(ast.unparse(k.value.elts[0]))
        for n_ in ast.walk(fn):
            if isinstance(n_, ast.Assign) and "self.loads[" in ast.unparse(n_.targets[0]) and isinstance(n_.value, ast.Tuple):
                produced.add(ast.unparse(n_.value.elts[0]))
    ctx.check(produced <= arms, "enter_frame:closed", "idtracking:Symbols", "instructions produced", f"Symbols produces {sorted(produced)}; enter_frame handles {sorted(arms)}", "src/jinja2/idtracking.py")

    ctx.rule("R4", "identifier injectivity: a template identifier is embedded into a Python identifier (l_<level>_<name>) only after the normalisation Python applies to identifiers (NFKC), or non-normalised names are rejected")
    dr = repo.func("idtracking:Symbols._define_ref")
    wrap = repo.func("lexer:Lexer.wrap")
    both = ast.unparse(dr.node) + ast.unparse(wrap.node)
    norm = "unicodedata.normalize" in both or "NFKC" in both or ".isascii()" in both
    ctx.check(norm, "nfkc", "idtracking:Symbols._define_ref", "template names embedded unnormalised",
              "the Python identifier l_<level>_<name> is built from the raw template name; CPython NFKC-normalises identifiers, Jinja's context lookup does not: two distinct template names such as `ﬁ` and `fi` share one Python local ({% set ﬁ = 1 %}{% set fi = 2 %}{{ ﬁ }} renders 2)",
              dr.loc())
    # the special loop variable exists only if find_undeclared saw the reference (a nested
    # loop's filter and else branch are evaluated in the enclosing loop's scope)
    from .c07 import undeclared_visitor_rule

    undeclared_visitor_rule(ctx, "R10")
    # a call block hands its body to the macro under the name `caller` whatever the other
    # arguments are called: consistently renaming a macro parameter (to `class`, say, which
    # takes the **{...} keyword form) must not change what is passed (rule owned by C02 / C06)
    from .c02 import call_emission_rule

    call_emission_rule(ctx, "R11")
    ctx.rule("R12", "a `set` reaches the render context only from the top level: every path of pop_assign_tracking that writes context.vars / exported_vars decided frame.toplevel true (loop and block frames write their own dicts, any other scope writes nothing); visit_Name records stored names only in those three kinds of frame")
    from ..emitrules import get_paths as _gp12, short_flags as _sf12

    n12 = 0
    for p_, sk_ in _gp12(ctx, ["pop_assign_tracking"]).get("pop_assign_tracking", []):
        if p_.outcome != "normal" or sk_.error or "context." not in sk_.text:
            continue
        n12 += 1
        top = p_.decisions.get("frame.toplevel")
        ctx.check(top is True, f"context-store:{n12}", "compiler:CodeGenerator.pop_assign_tracking", f"context store with frame.toplevel={top}",
                  f"pop_assign_tracking writes `{sk_.text.strip().splitlines()[0][:60]}` on a path that did not establish frame.toplevel [{_sf12(p_, 6)}]: a `{{% set %}}` inside a with / macro / filter block / set block is then copied into the render context and is visible to later, unrelated scopes",
                  "src/jinja2/compiler.py")
    ctx.floor("context-writing paths of pop_assign_tracking", n12, 2)
    vn = repo.func("compiler:CodeGenerator.visit_Name")
    adds = [c for c in astq.calls(vn.node) if astq.attr_tail(c) == "add" and "_assign_stack" in ast.unparse(c.func)]
    ctx.need(bool(adds), "visit_Name no longer records stored names")
    tab = None
    for c in adds:
        ats = astq.guard_atoms(vn.node, c)
        kinds = {a_[0] for a_ in ats if a_[0] in ("frame.toplevel", "frame.loop_frame", "frame.block_frame")}
        # the three frame kinds appear as a disjunction; guard_atoms keeps a disjunction whole
        disj = [a_ for a_ in ats if all(k in a_[0] for k in ("frame.toplevel", "frame.loop_frame", "frame.block_frame")) and a_[1]]
        ctx.check(bool(disj) or bool(kinds), "visit_Name:frame-kinds", "compiler:CodeGenerator.visit_Name", f"stored names recorded under {ats}",
                  f"visit_Name records a stored name for assignment tracking under {ats}: outside toplevel / loop / block frames nothing may be recorded, or pop_assign_tracking exports a scope-local `set`",
                  vn.loc(c))

    return __doc__ or ""
