"""E2 - sibling equivalence by erasure.

Normalises an AST (a Python function of the package, or a skeleton of the emission model) by
erasing the async decoration, then compares structurally.  Erasure table (each line one
reason):

  await x -> x                                  awaiting only changes scheduling
  auto_await(x) -> x                            awaits x when it is awaitable
  auto_aiter(x) -> x                            async view of the same iterable
  auto_to_list(x) -> list(x)                    exhausts the same iterable
  [v async for v in x] -> list(x)               same
  async def/for/with -> def/for/with
  __anext__/__aiter__/aclose -> __next__/__iter__/close ; StopAsyncIteration -> StopIteration
  AsyncLoopContext -> LoopContext ; *_async helper names -> their sync names
  x.__next__() -> next(x) ; iter(x) as a loop iterable -> x
  try: v = next(it) except StopIteration: v = D  ->  v = next(it, D)
  g = G; try: for e in g: yield e; finally: g.close()  ==  yield from G  ==  for e in G: yield e
  sorted(list(x), ...) -> sorted(x, ...)
"""

from __future__ import annotations

import ast
import copy

RENAMES = {
    "AsyncLoopContext": "LoopContext", "__anext__": "__next__", "__aiter__": "__iter__", "aclose": "close",
    "StopAsyncIteration": "StopIteration", "make_module_async": "make_module", "_get_default_module_async": "_get_default_module",
    "async_select_or_reject": "select_or_reject", "_async_call": "__call__", "_async_invoke": "_invoke", "render_async": "render",
    "generate_async": "generate", "agen": "gen",
}
TRANSPARENT_CALLS = {"auto_await", "auto_aiter"}


class Eraser(ast.NodeTransformer):
    def visit_AsyncFunctionDef(self, node: ast.AsyncFunctionDef) -> ast.AST:
        new = ast.FunctionDef(name=RENAMES.get(node.name, node.name), args=node.args, body=node.body, decorator_list=node.decorator_list, returns=None, type_comment=None, type_params=[])
        return self.generic_visit(new)

    def visit_FunctionDef(self, node: ast.FunctionDef) -> ast.AST:
        node.name = RENAMES.get(node.name, node.name)
        node.returns = None
        return self.generic_visit(node)

    def visit_arg(self, node: ast.arg) -> ast.AST:
        node.annotation = None
        return node

    def visit_AsyncFor(self, node: ast.AsyncFor) -> ast.AST:
        return self.visit_For(ast.For(target=node.target, iter=node.iter, body=node.body, orelse=node.orelse, type_comment=None))

    def visit_For(self, node: ast.For) -> ast.AST:
        node = self.generic_visit(node)  # type: ignore[assignment]
        if isinstance(node.iter, ast.Call) and isinstance(node.iter.func, ast.Name) and node.iter.func.id == "iter" and len(node.iter.args) == 1:
            node.iter = node.iter.args[0]
        # for e in X: yield e  ->  delegate(X)
        if (isinstance(node.target, ast.Name) and len(node.body) == 1 and isinstance(node.body[0], ast.Expr) and isinstance(node.body[0].value, ast.Yield)
                and isinstance(node.body[0].value.value, ast.Name) and node.body[0].value.value.id == node.target.id and not node.orelse):
            return ast.Expr(value=ast.Call(func=ast.Name(id="__delegate__", ctx=ast.Load()), args=[node.iter], keywords=[]))
        return node

    def visit_AsyncWith(self, node: ast.AsyncWith) -> ast.AST:
        return self.generic_visit(ast.With(items=node.items, body=node.body, type_comment=None))

    def visit_Await(self, node: ast.Await) -> ast.AST:
        return self.visit(node.value)

    def visit_YieldFrom(self, node: ast.YieldFrom) -> ast.AST:
        return ast.Call(func=ast.Name(id="__delegate__", ctx=ast.Load()), args=[self.visit(node.value)], keywords=[])

    def visit_Name(self, node: ast.Name) -> ast.AST:
        node.id = RENAMES.get(node.id, node.id)
        return node

    def visit_Attribute(self, node: ast.Attribute) -> ast.AST:
        node = self.generic_visit(node)  # type: ignore[assignment]
        node.attr = RENAMES.get(node.attr, node.attr)
        return node

    def visit_Call(self, node: ast.Call) -> ast.AST:
        node = self.generic_visit(node)  # type: ignore[assignment]
        f = node.func
        if isinstance(f, ast.Name) and f.id in TRANSPARENT_CALLS and len(node.args) == 1 and not node.keywords:
            return node.args[0]
        if isinstance(f, ast.Name) and f.id == "auto_to_list" and len(node.args) == 1:
            return ast.Call(func=ast.Name(id="list", ctx=ast.Load()), args=node.args, keywords=[])
        # x.__next__() -> next(x)
        if isinstance(f, ast.Attribute) and f.attr == "__next__" and not node.args:
            return ast.Call(func=ast.Name(id="next", ctx=ast.Load()), args=[f.value], keywords=[])
        # next(iter(x)) -> next(x): the async twin iterates the async view of the same object
        if isinstance(f, ast.Name) and f.id == "next" and node.args and isinstance(node.args[0], ast.Call) and isinstance(node.args[0].func, ast.Name) and node.args[0].func.id == "iter" and len(node.args[0].args) == 1:
            node.args[0] = node.args[0].args[0]
        # concat(list(x)) -> concat(x): joining a list or the iterable itself
        if (isinstance(f, ast.Attribute) and f.attr == "concat" or isinstance(f, ast.Name) and f.id == "concat") and len(node.args) == 1 and isinstance(node.args[0], ast.Call) \
                and isinstance(node.args[0].func, ast.Name) and node.args[0].func.id == "list" and len(node.args[0].args) == 1:
            node.args[0] = node.args[0].args[0]
        # next(iter(x)) stays; sorted(list(x), ..) -> sorted(x, ..)
        if isinstance(f, ast.Name) and f.id in ("sorted", "list", "tuple") and node.args and isinstance(node.args[0], ast.Call) and isinstance(node.args[0].func, ast.Name) and node.args[0].func.id == "list" and len(node.args[0].args) == 1:
            node.args[0] = node.args[0].args[0]
        return node

    def visit_ListComp(self, node: ast.ListComp) -> ast.AST:
        node = self.generic_visit(node)  # type: ignore[assignment]
        if len(node.generators) == 1:
            g = node.generators[0]
            g.is_async = 0
            if isinstance(node.elt, ast.Name) and isinstance(g.target, ast.Name) and node.elt.id == g.target.id and not g.ifs:
                return ast.Call(func=ast.Name(id="list", ctx=ast.Load()), args=[g.iter], keywords=[])
        return node

    def visit_comprehension(self, node: ast.comprehension) -> ast.AST:
        node = self.generic_visit(node)  # type: ignore[assignment]
        node.is_async = 0
        return node

    def visit_Expr(self, node: ast.Expr) -> ast.AST:
        node = self.generic_visit(node)  # type: ignore[assignment]
        # docstrings are not behaviour
        return node

    def visit_Try(self, node: ast.Try) -> ast.AST:
        node = self.generic_visit(node)  # type: ignore[assignment]
        # try: v = next(it) except StopIteration: v = D  ->  v = next(it, D)
        if (len(node.body) == 1 and isinstance(node.body[0], ast.Assign) and isinstance(node.body[0].value, ast.Call) and isinstance(node.body[0].value.func, ast.Name)
                and node.body[0].value.func.id == "next" and len(node.body[0].value.args) == 1 and len(node.handlers) == 1 and isinstance(node.handlers[0].type, ast.Name)
                and node.handlers[0].type.id == "StopIteration" and len(node.handlers[0].body) == 1 and isinstance(node.handlers[0].body[0], ast.Assign)
                and ast.dump(node.handlers[0].body[0].targets[0]) == ast.dump(node.body[0].targets[0]) and not node.orelse and not node.finalbody):
            call = node.body[0].value
            call.args.append(node.handlers[0].body[0].value)
            return node.body[0]
        return node


def _merge_delegates(body: list[ast.stmt]) -> list[ast.stmt]:
    """g = G; try: __delegate__(g) finally: g.close()   ->   __delegate__(G)"""
    out: list[ast.stmt] = []
    i = 0
    while i < len(body):
        st = body[i]
        for field in ("body", "orelse", "finalbody"):
            sub = getattr(st, field, None)
            if isinstance(sub, list) and sub and isinstance(sub[0], ast.stmt):
                setattr(st, field, _merge_delegates(sub))
        if isinstance(st, ast.Try):
            for h in st.handlers:
                h.body = _merge_delegates(h.body)
        if (isinstance(st, ast.Assign) and len(st.targets) == 1 and isinstance(st.targets[0], ast.Name) and i + 1 < len(body) and isinstance(body[i + 1], ast.Try)):
            tr = body[i + 1]
            name = st.targets[0].id
            assert isinstance(tr, ast.Try)
            if (len(tr.body) == 1 and isinstance(tr.body[0], ast.Expr) and isinstance(tr.body[0].value, ast.Call) and isinstance(tr.body[0].value.func, ast.Name)
                    and tr.body[0].value.func.id == "__delegate__" and isinstance(tr.body[0].value.args[0], ast.Name) and tr.body[0].value.args[0].id == name
                    and not tr.handlers and len(tr.finalbody) == 1 and ast.unparse(tr.finalbody[0]) == f"{name}.close()"):
                out.append(ast.Expr(value=ast.Call(func=ast.Name(id="__delegate__", ctx=ast.Load()), args=[st.value], keywords=[])))
                i += 2
                continue
        out.append(st)
        i += 1
    return out


def _strip_doc(body: list[ast.stmt]) -> list[ast.stmt]:
    if body and isinstance(body[0], ast.Expr) and isinstance(body[0].value, ast.Constant) and isinstance(body[0].value.value, str):
        return body[1:] or [ast.Pass()]
    return body


def erase(node: ast.AST, inplace: bool = False) -> ast.AST:
    if not inplace:
        # a fresh tree (package nodes carry _parent links; deepcopy would drag the module along)
        fresh = ast.parse(ast.unparse(node))
        node = fresh.body[0] if isinstance(node, (ast.FunctionDef, ast.AsyncFunctionDef)) and len(fresh.body) == 1 else fresh
    n = Eraser().visit(node)
    for x in ast.walk(n):
        if isinstance(x, (ast.FunctionDef, ast.Module)):
            x.body = _merge_delegates(_strip_doc(x.body))
            if isinstance(x, ast.FunctionDef):
                x.decorator_list = [d for d in x.decorator_list if "async_variant" not in ast.unparse(d)]
    ast.fix_missing_locations(n)
    return n


def dump(node: ast.AST) -> str:
    return ast.dump(node, annotate_fields=False, include_attributes=False)


def same(a: ast.AST, b: ast.AST) -> tuple[bool, str]:
    ea, eb = erase(a), erase(b)
    if dump(ea) == dump(eb):
        return True, ""
    ta, tb = ast.unparse(ea).splitlines(), ast.unparse(eb).splitlines()
    for i, (x, y) in enumerate(zip(ta, tb)):
        if x != y:
            return False, f"line {i + 1}: `{x.strip()[:90]}` vs `{y.strip()[:90]}`"
    return False, f"length {len(ta)} vs {len(tb)}: `{(ta[len(tb):] or tb[len(ta):] or [''])[0].strip()[:90]}`"


def body_same(a: ast.AST, b: ast.AST, ignore_name: bool = True) -> tuple[bool, str]:
    """Compare two function definitions ignoring their names and parameter annotations, the
    way their conditions / returns are written (normal form) and the names of their locals."""
    from .normalize import alpha, clone, norm

    ea, eb = erase(a), erase(b)
    if isinstance(ea, (ast.FunctionDef, ast.AsyncFunctionDef)) and isinstance(eb, (ast.FunctionDef, ast.AsyncFunctionDef)):
        # (erased once more after normalising: an append loop that became a comprehension is
        # `list(x)` like a comprehension written as such)
        ea, eb = alpha(erase(clone(norm(ea)))), alpha(erase(clone(norm(eb))))
        for x in (ea, eb):
            for n_ in ast.walk(x):
                for attr in ("_parent", "_orig"):
                    if hasattr(n_, attr):
                        delattr(n_, attr)
    if ignore_name and isinstance(ea, ast.FunctionDef) and isinstance(eb, ast.FunctionDef):
        ea.name = eb.name = "f"
        ea.decorator_list = []
        eb.decorator_list = []
    if dump(ea) == dump(eb):
        return True, ""
    ta, tb = ast.unparse(ea).splitlines(), ast.unparse(eb).splitlines()
    for i, (x, y) in enumerate(zip(ta, tb)):
        if x != y:
            return False, f"`{x.strip()[:90]}` vs `{y.strip()[:90]}`"
    return False, f"length {len(ta)} vs {len(tb)}"
