"""Escaping rules over the emission model and the runtime (shared by C15, C16, C24)."""

from __future__ import annotations

import ast

from . import astq
from .cfg import guards_of
from .core import Ctx
from .emit import EmitModel
from .emitrules import entry_kind
from .emitrules import get_paths
from .emitrules import reparse
from .emitrules import short_flags

VOL = "frame.eval_ctx.volatile"
AUTO = "frame.eval_ctx.autoescape"


def runtime_selector_rule(ctx: Ctx, rid: str) -> None:
    ctx.rule(rid, "every run-time escaping selector the compiler emits tests `context.eval_ctx.autoescape`; it is emitted exactly for volatile frames (static frames get the decided branch)")
    res = get_paths(ctx)
    model = EmitModel(ctx.repo)
    n = 0
    for entry, items in sorted(res.items()):
        kind = entry_kind(model, entry)
        reported: set[str] = set()
        for p, sk in items:
            if sk.error or p.outcome != "normal" or "context.eval_ctx" not in sk.text:
                continue
            tree = reparse(sk, entry, kind)
            if tree is None:
                continue
            for node in ast.walk(tree):
                test = None
                if isinstance(node, (ast.IfExp, ast.If)):
                    test = node.test
                if test is None or "context.eval_ctx" not in ast.unparse(test):
                    continue
                n += 1
                t_ = ast.unparse(test)
                if t_ != "context.eval_ctx.autoescape" and t_ not in reported:
                    reported.add(t_)
                    ctx.bad(f"compiler:CodeGenerator.{entry}", f"run-time selector tests `{t_}`",
                            f"{entry} emits a run-time escaping choice on `{t_}` [{short_flags(p, 4)}]: inside `{{% autoescape expr %}}` the frame is always volatile, the choice has to follow the actual autoescape setting (values are double-escaped or left unescaped otherwise)\n{sk.text[:200]}",
                            "src/jinja2/compiler.py")
                vol = [v for k, v in p.decisions.items() if k.endswith("eval_ctx.volatile")]
                if vol and not any(vol) and entry not in ("visit_AssignBlock", "visit_TemplateData", "visit_MarkSafeIfAutoescape", "macro_def", "visit_Macro", "visit_CallBlock", "visit_ScopedEvalContextModifier", "visit_EvalContextModifier") and "sel-static" not in reported:
                    reported.add("sel-static")
                    ctx.bad(f"compiler:CodeGenerator.{entry}", "run-time selector for a non-volatile frame", f"{entry} emits a run-time autoescape test although the frame is not volatile [{short_flags(p, 4)}]", "src/jinja2/compiler.py")
        if not reported and any("context.eval_ctx" in sk.text for _, sk in items):
            ctx.ok(entry)
        # the compile-time flag may decide the emitted code only once the frame is known not to
        # be volatile: an emission path that consults frame.eval_ctx.autoescape without having
        # taken the `not volatile` branch bakes the compile-time default into code that runs
        # under `{% autoescape expr %}`
        early = [p for p, sk in items if p.outcome == "normal" and AUTO in p.decisions and p.decisions.get(VOL) is not False]
        if any(AUTO in p.decisions for p, _ in items):
            ctx.check(not early, f"{entry}:static-flag-needs-non-volatile", f"compiler:CodeGenerator.{entry}", "compile-time autoescape flag consulted for a possibly volatile frame",
                      f"{entry} chooses its emission from frame.eval_ctx.autoescape on a path where frame.eval_ctx.volatile was not ruled out [{short_flags(early[0], 4) if early else ''}]: inside `{{% autoescape expr %}}` the run-time setting is ignored - markup is escaped twice or not at all", "src/jinja2/compiler.py")
    ctx.floor("run-time selectors in skeletons", n, 100)
    # nodes whose whole purpose is a run-time choice keep it
    ms = res.get("visit_MarkSafeIfAutoescape") or []
    ctx.need(bool(ms), "visit_MarkSafeIfAutoescape has no emission path")
    ctx.check(all("context.eval_ctx.autoescape" in sk.text or p.decisions.get(VOL) is False for p, sk in ms), "MarkSafeIfAutoescape:run-time", "compiler:CodeGenerator.visit_MarkSafeIfAutoescape", "no run-time autoescape test",
              "MarkSafeIfAutoescape must choose Markup / identity from context.eval_ctx.autoescape at run time (old-style gettext output inside `{% autoescape expr %}`)", "src/jinja2/compiler.py")


def output_wrapping_rule(ctx: Ctx, rid: str) -> None:
    ctx.rule(rid, "visit_Output: every run-time child is wrapped by the escaping call selected by (volatile, autoescape): run-time selector / escape( / str( ; constants are only folded for non-volatile frames and escaped at compile time under autoescape")
    res = get_paths(ctx, ["visit_Output"])
    n = 0
    for p, sk in res["visit_Output"]:
        if sk.error or p.outcome != "normal":
            continue
        tree = reparse(sk, "visit_Output", "stmt")
        if tree is None:
            continue
        vol = p.decisions.get(VOL)
        auto = p.decisions.get(AUTO)
        for node in ast.walk(tree):
            if isinstance(node, ast.Name) and node.id.startswith("__E"):
                n += 1
        # find the wrappers around expression holes
        holes = [nd for nd in ast.walk(tree) if isinstance(nd, ast.Name) and nd.id.startswith("__E")]
        if not holes:
            continue
        txt = sk.text
        want = None
        if vol:
            want = "(escape if context.eval_ctx.autoescape else str)("
        elif auto:
            want = "escape("
        elif auto is False or (vol is False and auto is None):
            want = "str("
        if want is None:
            continue
        ok = True
        for h in holes:
            i = txt.find(h.id)
            before = txt[max(0, i - 120): i]
            # strip an optional finalize prefix
            core = before
            for fin in ("environment.finalize(context, ", "environment.finalize(context.eval_ctx, ", "environment.finalize(environment, ", "environment.finalize("):
                if core.endswith(fin):
                    core = core[: -len(fin)]
            if not core.endswith(want):
                ok = False
        ctx.check(ok, f"wrap:{n}", "compiler:CodeGenerator.visit_Output", f"volatile={vol} autoescape={auto}: child not wrapped by {want}",
                  f"with volatile={vol}, autoescape={auto} every printed expression must be wrapped in `{want}`:\n{txt[:300]}", "src/jinja2/compiler.py", detail={"flags": short_flags(p, 5), "skeleton": txt[:200]} if n % 40 == 0 else None)
    ctx.floor("printed expressions in visit_Output skeletons", n, 100)
    repo = ctx.repo
    oc = repo.func("compiler:CodeGenerator._output_child_to_const")
    esc = [c for c in astq.calls(oc.node) if astq.callee(c) == "escape"]
    ctx.check(len(esc) == 1 and [(ast.unparse(g), pol) for g, pol in guards_of(esc[0])] == [("frame.eval_ctx.autoescape", True)], "const:escape", "compiler:CodeGenerator._output_child_to_const", "constants escaped under autoescape", "folded output constants must be escaped exactly when the frame autoescapes", oc.loc())
    vol_guard = any(astq.raise_type(r).endswith("Impossible") and [(ast.unparse(g), pol) for g, pol in guards_of(r)] == [("frame.eval_ctx.volatile", True)] for r in astq.raises(oc.node))
    ctx.check(vol_guard, "const:volatile", "compiler:CodeGenerator._output_child_to_const", "folds under volatile", "constant output must not be folded for a volatile frame: whether to escape is only known at run time", oc.loc())
    pre = repo.func("compiler:CodeGenerator._output_child_pre")
    ifs = [n_ for n_ in pre.node.body if isinstance(n_, ast.If)]  # type: ignore[attr-defined]
    ok = bool(ifs) and ast.unparse(ifs[0].test) == "frame.eval_ctx.volatile" and len(ifs[0].orelse) == 1 and isinstance(ifs[0].orelse[0], ast.If) and ast.unparse(ifs[0].orelse[0].test) == "frame.eval_ctx.autoescape"
    ctx.check(ok, "pre:selector", "compiler:CodeGenerator._output_child_pre", "three-way selector", "_output_child_pre must choose volatile -> run-time selector, autoescape -> escape(, else str(", pre.loc())


def capture_site_rules(ctx: Ctx, rid: str) -> None:
    ctx.rule(rid, "capture sites mark their content safe exactly when autoescaping is on: buffer returns (3-way), set blocks (filtered or not), filter blocks, Macro._invoke, BlockReference, TemplateModule.__html__")
    repo = ctx.repo
    res = get_paths(ctx, ["return_buffer_contents", "visit_AssignBlock", "visit_Filter"])
    n = 0
    for p, sk in res["return_buffer_contents"]:
        if p.outcome != "normal":
            continue
        n += 1
        forced = p.decisions.get("force_unescaped")
        vol = p.decisions.get(VOL)
        auto = p.decisions.get(AUTO)
        t_ = sk.text
        if forced:
            ok = "Markup(" not in t_
        elif vol:
            ok = "if context.eval_ctx.autoescape:" in t_ and "return Markup(concat(" in t_ and "else:" in t_
        elif auto:
            ok = t_.strip().startswith("return Markup(concat(")
        else:
            ok = "Markup(" not in t_ and "return concat(" in t_
        ctx.check(ok, f"return_buffer:{n}", "compiler:CodeGenerator.return_buffer_contents", f"forced={forced} volatile={vol} autoescape={auto}", f"return_buffer_contents emits `{t_.strip()[:120]}` for force_unescaped={forced}, volatile={vol}, autoescape={auto}", "src/jinja2/compiler.py")
    for p, sk in res["visit_AssignBlock"]:
        if p.outcome != "normal" or sk.error:
            continue
        n += 1
        ok = " = (Markup if context.eval_ctx.autoescape else identity)(" in sk.text
        ctx.check(ok, f"assignblock:{n}", "compiler:CodeGenerator.visit_AssignBlock", "set block result not marked",
                  f"a set block must store (Markup if context.eval_ctx.autoescape else identity)(<captured text or filter result>) on every path [{short_flags(p, 4)}]: without it the already escaped capture is escaped again when printed:\n{sk.text[:260]}",
                  "src/jinja2/compiler.py", detail={"flags": short_flags(p, 4)} if n % 50 == 0 else None)
    for p, sk in res["visit_Filter"]:
        if p.outcome != "normal" or sk.error or p.decisions.get("optimizer folds this node"):
            continue
        if p.decisions.get("node.node is not None") is not False:
            continue
        n += 1
        vol = p.decisions.get(VOL)
        auto = p.decisions.get(AUTO)
        t_ = sk.text
        if vol:
            ok = "(Markup(concat(" in t_ and "if context.eval_ctx.autoescape else concat(" in t_
        elif auto:
            ok = "Markup(concat(" in t_ and "if context.eval_ctx.autoescape" not in t_
        else:
            ok = "Markup(" not in t_ and "concat(" in t_
        ctx.check(ok, f"filterblock:{n}", "compiler:CodeGenerator.visit_Filter", f"filter block input volatile={vol} autoescape={auto}", f"the captured input of a filter block must be Markup exactly under autoescape: `{t_.strip()[:140]}`", "src/jinja2/compiler.py")
    ctx.floor("capture site skeletons", n, 100)
    for cls, meths in (("Macro", ("_invoke", "_async_invoke")),):
        for meth in meths:
            fi = repo.func(f"runtime:{cls}.{meth}")
            mk = [c for c in astq.calls(fi.node) if astq.callee(c) == "Markup"]
            ok = len(mk) == 1 and [(ast.unparse(g), pol) for g, pol in guards_of(mk[0])] == [("autoescape", True)]
            ctx.check(ok, f"{cls}.{meth}", f"runtime:{cls}.{meth}", "macro result marking", f"{cls}.{meth} must wrap the macro's output in Markup exactly when `autoescape`", fi.loc())
    mc = repo.func("runtime:Macro.__call__")
    s = ast.unparse(mc.node)
    ctx.check("isinstance(args[0], EvalContext)" in s and "autoescape = args[0].autoescape" in s and "autoescape = self._default_autoescape" in s, "Macro.__call__:autoescape", "runtime:Macro.__call__", "autoescape source", "a macro must take autoescape from the caller's eval context (falling back to its default)", mc.loc())
    for meth in ("__call__", "_async_call"):
        fi = repo.func(f"runtime:BlockReference.{meth}")
        mk = [c for c in astq.calls(fi.nnode) if astq.callee(c) == "Markup"]
        ok = len(mk) == 1 and ("self._context.eval_ctx.autoescape", True) in astq.guard_atoms(fi.nnode, mk[0])
        ctx.check(ok, f"BlockReference.{meth}", f"runtime:BlockReference.{meth}", "block result marking", "a block reference (super / self.block) must return Markup exactly when the context autoescapes", fi.loc())
    md = repo.func("compiler:CodeGenerator.macro_def")
    ctx.check("context.eval_ctx.autoescape)" in ast.unparse(md.node), "macro_def:default", "compiler:CodeGenerator.macro_def", "default autoescape", "the emitted Macro must receive context.eval_ctx.autoescape as its default", md.loc())
    mb = repo.func("compiler:CodeGenerator.macro_body")
    # ... while the function of a recursive loop is called from inside an output expression
    # (`{{ loop(children) }}`): it returns its captured text marked according to autoescape -
    # visit_For does not force the plain form, and the default of the parameter is the marking one
    rbc = ctx.repo.func("compiler:CodeGenerator.return_buffer_contents")
    a_ = rbc.node.args
    dflt = dict(zip([x.arg for x in a_.args][len(a_.args) - len(a_.defaults):], [ast.unparse(d_) for d_ in a_.defaults]))
    vfor = ctx.repo.func("compiler:CodeGenerator.visit_For")
    rc = [c for c in astq.calls(vfor.node) if astq.callee(c) == "self.return_buffer_contents"]
    def _eff(c):
        for k in c.keywords:
            if k.arg == "force_unescaped":
                return ast.unparse(k.value)
        return ast.unparse(c.args[1]) if len(c.args) > 1 else dflt.get("force_unescaped")
    forced_ = [c for c in rc if _eff(c) != "False"]
    ctx.check(bool(rc) and not forced_, "loop-function:marked", "compiler:CodeGenerator.visit_For", f"recursive loop function returns unmarked text (default force_unescaped={dflt.get('force_unescaped')})",
              "the function generated for a recursive loop must return its buffer through return_buffer_contents(frame) with force_unescaped False (Markup under autoescape): returned as plain str, the already escaped output of a nested level is escaped again by the enclosing `{{ loop(children) }}`, once per nesting level",
              vfor.loc(rc[0]) if rc else vfor.loc())
    ctx.check("self.return_buffer_contents(frame, force_unescaped=True)" in ast.unparse(mb.node), "macro_body:unescaped", "compiler:CodeGenerator.macro_body", "macro function returns plain text", "the macro function itself must return unmarked text (Macro._invoke marks it according to the caller)", mb.loc())


def template_eval_ctx_rule(ctx: Ctx, rid: str) -> None:
    """One compile-time eval context per template, created with the template's name: a
    name-based autoescape selector (select_autoescape) answers for *this* template.  A frame
    built from another context - a fresh EvalContext(environment) for block bodies - asks the
    selector about `None` and compiles the block with the wrong escaping decision."""
    ctx.use("compiler")
    ctx.rule(rid, "the compiler creates exactly one EvalContext, with (self.environment, self.name), and every Frame is constructed from it or from its parent frame's eval_ctx")
    repo = ctx.repo
    m = repo.module("compiler")
    ecs = [c for c in astq.calls(m.tree) if astq.callee(c) == "EvalContext"]
    ok = len(ecs) == 1 and [ast.unparse(a) for a in ecs[0].args] == ["self.environment", "self.name"] and not ecs[0].keywords
    ctx.check(ok, "evalctx:single", "compiler:CodeGenerator.visit_Template", f"EvalContext constructed {len(ecs)}x: {[ast.unparse(c)[:50] for c in ecs]}",
              f"the code generator must create its EvalContext once, as EvalContext(self.environment, self.name); found {[ast.unparse(c) for c in ecs]}: a context built without the template name lets `select_autoescape(...)` decide for a nameless template, so output compiled under it (block bodies) is not escaped in an autoescaped `.html` template",
              f"{m.rel}:{ecs[0].lineno}" if ecs else m.rel)
    var = None
    if ecs:
        par = getattr(ecs[0], "_parent", None)
        if isinstance(par, ast.Assign) and isinstance(par.targets[0], ast.Name):
            var = par.targets[0].id
    n = 0
    for c in astq.calls(m.tree):
        if astq.callee(c) != "Frame" or not c.args:
            continue
        n += 1
        a0 = ast.unparse(c.args[0])
        ctx.check(a0 in ((var or "eval_ctx"), "self.eval_ctx"), f"evalctx:frame:{astq.enclosing_qual(c)}:{a0[:30]}", f"compiler:{astq.enclosing_qual(c)}", f"Frame({a0[:40]}, ...) is not built from the template's eval context",
                  f"{astq.enclosing_qual(c)} constructs Frame({a0}): frames must share the template's EvalContext (the local holding EvalContext(self.environment, self.name), or the parent frame's eval_ctx)", f"{m.rel}:{c.lineno}")
    ctx.floor("Frame constructions", n, 3)


def sandbox_format_keeps_type_rule(ctx: Ctx, rid: str) -> None:
    """The sandboxed replacement of str.format / format_map returns an object of the type of
    the string it was called on: `Markup('<b>{}</b>').format(x)` stays Markup (its arguments
    were escaped by the escape formatter); as a plain str the already escaped text would be
    escaped a second time on output."""
    ctx.use("sandbox")
    ctx.rule(rid, "the sandboxed str.format wrapper returns type(f_self)(vformat(...)): the result of formatting a Markup string is Markup")
    wf = ctx.repo.func("sandbox:SandboxedEnvironment.wrap_str_format")
    inner = [n_ for n_ in ast.walk(wf.node) if isinstance(n_, ast.FunctionDef) and n_ is not wf.node]
    ctx.need(len(inner) == 1, "wrap_str_format: the wrapper function was not found")
    rets = [r for r in astq.returns(inner[0]) if r.value is not None]
    ok = bool(rets)
    for r in rets:
        v = r.value
        good = isinstance(v, ast.Call) and len(v.args) == 1 and isinstance(v.args[0], ast.Call) and astq.callee(v.args[0]).endswith("vformat")
        if good:
            f = v.func
            ftxt = ast.unparse(f)
            if isinstance(f, ast.Name):
                src = [a.value for a in ast.walk(wf.node) if isinstance(a, (ast.Assign, ast.AnnAssign)) and a.value is not None and any(isinstance(t_, ast.Name) and t_.id == f.id for t_ in (a.targets if isinstance(a, ast.Assign) else [a.target]))]
                ftxt = ast.unparse(src[0]) if len(src) == 1 else ftxt
            good = ftxt in ("type(f_self)", "f_self.__class__")
        ok = ok and good
    ctx.check(ok, "wrap:result-type", "sandbox:SandboxedEnvironment.wrap_str_format", f"wrapper returns {[ast.unparse(r.value)[:50] for r in rets]}",
              f"the sandboxed format wrapper returns {[ast.unparse(r.value) for r in rets]}: it must convert the formatted text back to type(f_self) - a plain str returned for a Markup format string is escaped again when it is output under autoescape (`&lt;` becomes `&amp;lt;`), so sandboxed and plain environments render differently",
              wf.loc(inner[0]))
