"""Two-sided self-test of one property's checker (thorough tier only).

Static analysis of *variants* of the tree - nothing is executed:

* must fire: every recorded variant the property's rules are known to detect (the seeded
  changes under /verif/seeded and the reversed ``fix:`` commits under /verif/selftest/fixes,
  indexed in /verif/selftest/index.json by tools/scoreboard.py) is applied to a scratch copy
  of ``<repo>/src/jinja2`` in a temporary directory (outside /repo and /verif, removed
  afterwards); the check must report a finding there that it does not report on the tree
  itself.  A variant whose patch no longer applies to the current tree is skipped and counted.
* must stay silent: a twin of the tree in which every module is replaced by
  ``ast.unparse(ast.parse(source))`` (all formatting, comments and line numbers changed, no
  behaviour changed) must produce exactly the findings of the tree itself.

A failure of either side means the *checker* lost its edge: it is reported as
ANALYSIS-ERROR (exit 2), never as a violation of the property.
"""

from __future__ import annotations

import ast
import concurrent.futures as cf
import json
import os
import re
import shutil
import subprocess
import sys
import tempfile

VERIF = os.path.dirname(os.path.dirname(os.path.abspath(__file__)))
INDEX = os.path.join(VERIF, "selftest", "index.json")


def _run(prop: str, repo: str, tier: str) -> tuple[int, set[str]]:
    evdir = os.path.join(repo, "_evidence")
    os.makedirs(evdir, exist_ok=True)
    # (sub-runs execute 8 at a time: 3 emission workers each keep the 16 cores busy without oversubscribing them)
    env = dict(os.environ, VERIF_EVIDENCE_DIR=evdir, VERIF_SELFTEST="0", VERIF_WORKERS=os.environ.get("VERIF_SELFTEST_WORKERS", "3"))
    p = subprocess.run([sys.executable, os.path.join(VERIF, "check.py"), prop, "--repo", repo, "--tier", tier], capture_output=True, text=True, env=env, cwd=VERIF)
    keys = set()
    try:
        with open(os.path.join(evdir, f"{prop}.violation.json"), encoding="utf-8") as f:
            keys = {v["key"] for v in json.load(f)["violations"]}
    except OSError:
        pass
    if p.returncode == 2:
        keys.add("ANALYSIS-ERROR " + " ".join(re.findall(r"ANALYSIS-ERROR.*", p.stdout))[:200])
    return p.returncode, keys


def _variant(prop: str, repo: str, tag: str, patch: str, reverse: bool, base: set[str]) -> dict:
    tmp = tempfile.mkdtemp(prefix=f"st_{prop}_{tag}_")
    try:
        os.makedirs(os.path.join(tmp, "src"))
        shutil.copytree(os.path.join(repo, "src", "jinja2"), os.path.join(tmp, "src", "jinja2"))
        cmd = ["patch", "-p1", "-s", "--fuzz=3", "--no-backup-if-mismatch", "-i", patch] + (["-R"] if reverse else [])
        r = subprocess.run(cmd, cwd=tmp, capture_output=True, text=True)
        if r.returncode != 0:
            return {"tag": tag, "status": "skipped", "why": "patch does not apply to the current tree"}
        rc, keys = _run(prop, tmp, "quick")
        fresh = sorted(k for k in keys - base if not k.startswith("ANALYSIS-ERROR"))
        if rc == 1 and fresh:
            return {"tag": tag, "status": "fired", "findings": fresh[:3]}
        return {"tag": tag, "status": "MISSED", "rc": rc, "findings": sorted(keys)[:3]}
    finally:
        shutil.rmtree(tmp, ignore_errors=True)


def _twin(prop: str, repo: str, base: set[str]) -> dict:
    tmp = tempfile.mkdtemp(prefix=f"st_{prop}_twin_")
    try:
        dst = os.path.join(tmp, "src", "jinja2")
        os.makedirs(dst)
        src = os.path.join(repo, "src", "jinja2")
        for fn in sorted(os.listdir(src)):
            if not fn.endswith(".py"):
                continue
            with open(os.path.join(src, fn), encoding="utf-8") as f:
                text = f.read()
            with open(os.path.join(dst, fn), "w", encoding="utf-8") as f:
                f.write(ast.unparse(ast.parse(text)) + "\n")
        rc, keys = _run(prop, tmp, "quick")
        if keys == base:
            return {"status": "silent"}
        return {"status": "DIFFERS", "extra": sorted(keys - base)[:3], "lost": sorted(base - keys)[:3], "rc": rc}
    finally:
        shutil.rmtree(tmp, ignore_errors=True)


def _patched_modules(patch: str) -> set[str]:
    out = set()
    with open(patch, encoding="utf-8") as f:
        for ln in f:
            m = re.match(r"\+\+\+ b/src/jinja2/(\w+)\.py", ln)
            if m:
                out.add(m.group(1))
    return out


def _refactor(prop: str, repo: str, name: str, patch: str, base: set[str], read_set: set[str] | None = None) -> dict:
    """A behaviour-preserving refactoring set must not change the verdict."""
    if read_set is not None and not (_patched_modules(patch) & read_set):
        # the check never consulted a module this set changes: its verdict cannot differ
        return {"name": name, "status": "silent", "why": "changes no module this check reads"}
    tmp = tempfile.mkdtemp(prefix=f"st_{prop}_{name}_")
    try:
        os.makedirs(os.path.join(tmp, "src"))
        shutil.copytree(os.path.join(repo, "src", "jinja2"), os.path.join(tmp, "src", "jinja2"))
        r = subprocess.run(["patch", "-p1", "-s", "--fuzz=3", "--no-backup-if-mismatch", "-i", patch], cwd=tmp, capture_output=True, text=True)
        if r.returncode != 0:
            return {"name": name, "status": "skipped"}
        rc, keys = _run(prop, tmp, "quick")
        if keys == base and rc in (0, 1):
            return {"name": name, "status": "silent"}
        return {"name": name, "status": "ALARM", "extra": sorted(keys - base)[:3], "rc": rc}
    finally:
        shutil.rmtree(tmp, ignore_errors=True)


def selftest(prop: str, repo: str, base: set[str], read_set: set[str] | None = None) -> dict:
    """``base``: finding keys of the main run (known findings included)."""
    try:
        with open(INDEX, encoding="utf-8") as f:
            index = json.load(f)
    except OSError:
        index = {}
    todo = [(tag, v) for tag, v in sorted(index.items()) if prop in v.get("by", [])]
    # default scope: the variants written against this property and the reversed fixes it
    # reports (a variant also reported by a neighbouring property is replayed by its own
    # property's check); VERIF_SELFTEST_SCOPE=all replays every variant this check detects
    if os.environ.get("VERIF_SELFTEST_SCOPE", "own") != "all":
        todo = [(tag, v) for tag, v in todo if tag.startswith(prop) or tag.startswith("fix-")]
    out: dict = {"must_fire": [], "twin": None}
    with cf.ThreadPoolExecutor(8) as ex:
        futs = [ex.submit(_variant, prop, repo, tag, os.path.join(VERIF, v["patch"]), bool(v.get("reverse")), base) for tag, v in todo]
        tw = ex.submit(_twin, prop, repo, base)
        rfdir = os.path.join(VERIF, "selftest", "refactors")
        # refactoring sets are replayed by tools/silent_check.py (all 60 sets x 39 checks); the thorough
        # tier replays the rounds named in VERIF_REFACTOR_ROUNDS (`all` or a comma list, default none)
        rounds = os.environ.get("VERIF_REFACTOR_ROUNDS", "")
        names = [f for f in sorted(os.listdir(rfdir)) if f.endswith(".diff") and (rounds == "all" or f.split("_")[0] in rounds.split(","))] if os.path.isdir(rfdir) else []
        rfs = [ex.submit(_refactor, prop, repo, f[:-5], os.path.join(rfdir, f), base, read_set) for f in names]
        out["must_fire"] = [f.result() for f in futs]
        out["twin"] = tw.result()
        out["refactorings"] = [f.result() for f in rfs]
    out["fired"] = sum(1 for r in out["must_fire"] if r["status"] == "fired")
    out["skipped"] = sum(1 for r in out["must_fire"] if r["status"] == "skipped")
    out["missed"] = [r["tag"] for r in out["must_fire"] if r["status"] == "MISSED"]
    out["alarms"] = [r["name"] for r in out["refactorings"] if r["status"] == "ALARM"]
    out["ok"] = not out["missed"] and out["twin"]["status"] == "silent" and not out["alarms"]
    return out
