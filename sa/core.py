"""Rule context, verdict plumbing, evidence and known-findings handling."""

from __future__ import annotations

import json
import os
import time
import typing as t

from .srcmodel import AnalysisError
from .srcmodel import Repo

VERIF = os.path.dirname(os.path.dirname(os.path.abspath(__file__)))
KNOWN_FILE = os.path.join(VERIF, "known_findings.json")


class Finding:
    def __init__(self, rule: str, where: str, construct: str, msg: str, loc: str = "") -> None:
        self.rule = rule
        self.where = where  # module:function
        self.construct = construct  # stable, rule-chosen description of the instance
        self.msg = msg
        self.loc = loc

    @property
    def key(self) -> str:
        return f"{self.rule}|{self.where}|{self.construct}"

    def as_dict(self) -> dict:
        return {
            "rule": self.rule,
            "where": self.where,
            "construct": self.construct,
            "message": self.msg,
            "location": self.loc,
            "key": self.key,
        }


class Ctx:
    """What a property check sees: the repository model plus report sinks."""

    def __init__(self, prop: str, repo: Repo, tier: str, seed: int) -> None:
        self.prop = prop
        self.repo = repo
        self.tier = tier
        self.seed = seed
        self.findings: list[Finding] = []
        self.obligations = 0
        self.discharged = 0
        self.nontrivial: set[str] = set()
        self.samples: list[t.Any] = []
        self.rules: dict[str, dict] = {}
        self.units: set[str] = set()
        self.assumptions: list[str] = []
        self.notes: list[str] = []
        self._cur = ""

    # -- rule bookkeeping
    _import: tuple[str, set[str]] | None = None
    _muted = False

    def rule(self, rid: str, text: str) -> None:
        if self._import is not None:
            src, only = self._import
            self._muted = rid not in only
            if self._muted:
                return
            rid = f"{rid}@{src}"
        self._cur = rid
        self.rules.setdefault(rid, {"text": text, "instances": 0, "failed": 0})

    def run_imported(self, src: str, only: set[str], fn: t.Callable[["Ctx"], t.Any]) -> None:
        """Run another property's check function keeping only the rules in ``only``.

        A property whose argument leans on a rule owned by another property (C01's
        "this assertion is unreachable because C03.R7 holds") re-checks that rule itself,
        reported as ``<rule>@<owner>``, so that its own command detects the breakage."""
        if self._import is not None:
            return  # imports are not transitive: only the borrowing property's own list counts
        prev = (self._import, self._muted, self._cur)
        self._import = (src, only)
        self._muted = True
        try:
            fn(self)
        finally:
            self._import, self._muted, self._cur = prev

    def use(self, *mods: str) -> None:
        self.units.update(mods)

    def ok(self, instance: str, detail: t.Any = None, trivial: bool = False) -> None:
        """One obligation (rule instance) examined and discharged."""
        if self._muted:
            return
        self.obligations += 1
        self.discharged += 1
        r = self.rules[self._cur]
        r["instances"] += 1
        if not trivial:
            self.nontrivial.add(f"{self._cur}:{instance}")
        if detail is not None and sum(1 for s in self.samples if s.get("rule") == self._cur) < 3:
            self.samples.append({"rule": self._cur, "instance": instance, "detail": detail})

    def bad(self, where: str, construct: str, msg: str, loc: str = "") -> None:
        """One obligation examined and violated."""
        if self._muted:
            return
        self.obligations += 1
        r = self.rules[self._cur]
        r["instances"] += 1
        r["failed"] += 1
        self.nontrivial.add(f"{self._cur}:{where}:{construct}")
        self.findings.append(Finding(f"{self.prop}.{self._cur}", where, construct, msg, loc))

    def check(self, cond: bool, instance: str, where: str, construct: str, msg: str, loc: str = "", detail: t.Any = None) -> bool:
        if cond:
            self.ok(instance, detail)
        else:
            self.bad(where, construct, msg, loc)
        return cond

    def floor(self, what: str, got: int, minimum: int) -> None:
        """A rule matching fewer sites than confirmed by hand passes vacuously: refuse."""
        if self._muted:
            return
        if got < minimum:
            raise AnalysisError(
                f"{self.prop}.{self._cur}: only {got} {what} found, expected at least {minimum}"
            )

    def need(self, cond: t.Any, msg: str) -> None:
        if not cond:
            raise AnalysisError(f"{self.prop}.{self._cur}: {msg}")

    def assume(self, text: str) -> None:
        if text not in self.assumptions:
            self.assumptions.append(text)


def load_known() -> dict:
    if not os.path.exists(KNOWN_FILE):
        return {"known": [], "fixed": []}
    with open(KNOWN_FILE, encoding="utf-8") as f:
        return json.load(f)


def new_findings(ctx: Ctx) -> list[Finding]:
    """Findings of this run that known_findings.json does not list."""
    keys = {(k["property"], k["key"]) for k in load_known().get("known", [])}
    return [f for f in ctx.findings if (ctx.prop, f.key) not in keys]


def finish(ctx: Ctx, explanation: str, level: str, t0: float, error: str | None = None) -> int:
    """Print verdict lines, write evidence (+ replay file), return the exit code."""
    known = load_known()
    known_keys = {
        (k["property"], k["key"]): k for k in known.get("known", [])
    }
    new: list[Finding] = []
    kf: list[dict] = []
    for f in ctx.findings:
        k = known_keys.get((ctx.prop, f.key))
        if k is not None:
            kf.append({"key": f.key, "what": k.get("what", f.msg)})
        else:
            new.append(f)
    seen = set()
    for k in kf:
        if k["key"] in seen:
            continue
        seen.add(k["key"])
        print(f"KNOWN-FINDING: property={ctx.prop} {k['key']} :: {k['what']}")
    evdir = os.environ.get("VERIF_EVIDENCE_DIR") or os.path.join(VERIF, "evidence")
    os.makedirs(evdir, exist_ok=True)
    replay = os.path.join(evdir, f"{ctx.prop}.violation.json")
    if new:
        with open(replay, "w", encoding="utf-8") as f:
            json.dump({"property": ctx.prop, "violations": [x.as_dict() for x in new]}, f, indent=1)
        for x in new:
            print(f"  violated {x.rule} at {x.loc or x.where}: [{x.construct}] {x.msg}")
    elif os.path.exists(replay):
        os.remove(replay)
    wall = time.time() - t0
    rules_txt = "; ".join(
        f"{rid} ({r['instances']} inst.): {r['text']}" for rid, r in ctx.rules.items()
    )
    cov: dict[str, t.Any] = {
        "explanation": (explanation + " RULES: " + rules_txt)[:6000],
        "obligations": ctx.obligations,
        "discharged": ctx.discharged,
        "evaluations": max(ctx.obligations, 1),
        "distinct_nontrivial": len(ctx.nontrivial),
        "rule": "each evaluation is one rule instance (a call site, table row, path, function pair or emitted-code skeleton) read from the current working tree; an instance is non-trivial when its verdict needed more than the existence of its anchor; distinct by rule id + instance id",
        "samples": ctx.samples[:24] or [{"note": "no instance recorded"}],
        "per_rule": {rid: {"instances": r["instances"], "failed": r["failed"]} for rid, r in ctx.rules.items()},
        "units": ctx.repo.digests(sorted(ctx.units)) if ctx.units else {},
        "known_findings": kf,
        "checker_cmd": f"cd /verif && /venv/bin/python check.py {ctx.prop} --tier {ctx.tier}",
        "trusted_base": ["CPython ast/re._parser", "the rule tables in /verif/sa (reviewed by hand)"],
        "exhaustive": False,
        "notes": ctx.notes[:20],
    }
    st = getattr(ctx, "selftest", None)
    if st is not None:
        cov["selftest"] = {
            "rule": "thorough tier: the check is re-run on scratch copies - every recorded variant this property's rules detect must be reported (must fire), the ast.unparse twin of the tree must give the same findings (must stay silent)",
            "must_fire": st["must_fire"], "fired": st["fired"], "skipped": st["skipped"], "missed": st["missed"], "format_twin": st["twin"],
            "refactorings": {"rule": "behaviour-preserving refactoring sets (selftest/refactors) applied to a scratch copy must leave the findings unchanged", "sets": len(st.get("refactorings", [])), "silent": sum(1 for r in st.get("refactorings", []) if r["status"] == "silent"), "alarms": st.get("alarms", [])},
        }
    if error:
        cov["analysis_error"] = error
    ev = {
        "property_id": ctx.prop,
        "tier": ctx.tier,
        "seed": ctx.seed,
        "level": level,
        "coverage": cov,
        "assumptions": ctx.assumptions
        or ["the parsed source under /repo/src/jinja2 is what gets imported"],
        "wall_s": round(wall, 3),
        "violations": len(new),
    }
    with open(os.path.join(evdir, f"{ctx.prop}.json"), "w", encoding="utf-8") as f:
        json.dump(ev, f, indent=1, default=str)
    if error and not new:
        print(f"ANALYSIS-ERROR property={ctx.prop} {error}")
        return 2
    if error:
        # rule instances that completed did fail: that verdict stands; the rules after the
        # lost anchor were not evaluated
        print(f"ANALYSIS-INCOMPLETE property={ctx.prop} {error} (the violations above come from rule instances that were fully evaluated)")
    print(
        f"{ctx.prop}: {ctx.obligations} rule instances, {ctx.discharged} hold, "
        f"{len(kf)} known finding(s), {len(new)} violation(s), {wall:.2f}s"
    )
    for rid, r in ctx.rules.items():
        print(f"  {rid}: {r['instances']} instances, {r['failed']} failed - {r['text'][:110]}")
    if st is not None:
        rf = st.get("refactorings", [])
        print(f"  self-test: {st['fired']} recorded variant(s) detected, {st['skipped']} skipped (patch does not apply), format twin {st['twin']['status']}, {sum(1 for r in rf if r['status'] == 'silent')}/{len(rf)} refactoring sets silent")
    if new:
        print(f"VIOLATION property={ctx.prop} replay={replay}")
        return 1
    return 0
