"""Shared twin rules: the sync / async variants of filters (engine E2)."""

from __future__ import annotations

import ast

from .core import Ctx
from .effects import twins
from .erase import body_same
from .normalize import norm

# async name -> mode
MODES = {
    "do_unique": "forwarding", "do_join": "forwarding", "do_slice": "forwarding",
    "do_first": "equivalent", "do_groupby": "equivalent", "do_list": "equivalent", "do_map": "equivalent",
    "do_select": "equivalent", "do_reject": "equivalent", "do_selectattr": "equivalent", "do_rejectattr": "equivalent",
    "do_sum": "reviewed-different: explicit accumulation loop instead of builtin sum(); result equality is value arithmetic, the no-mutation clause is decided by the effect analysis",
}


def sig(fn: ast.AST) -> list[tuple[str, str | None]]:
    a = fn.args  # type: ignore[attr-defined]
    params = a.posonlyargs + a.args
    defaults = [None] * (len(params) - len(a.defaults)) + [ast.unparse(d) for d in a.defaults]
    out = [(p.arg, d) for p, d in zip(params, defaults)]
    if a.vararg:
        out.append(("*" + a.vararg.arg, None))
    for p, d in zip(a.kwonlyargs, a.kw_defaults):
        out.append((p.arg, ast.unparse(d) if d is not None else None))
    if a.kwarg:
        out.append(("**" + a.kwarg.arg, None))
    return out


def filter_twin_rules(ctx: Ctx, rid_equiv: str, rid_sig: str, rid_reg: str) -> None:
    repo = ctx.repo
    m = repo.module("filters")
    tw = twins(ctx)
    ctx.rule(rid_equiv, "each async filter variant equals its sync twin under erasure of the async decoration, or forwards every parameter to the same slot of the sync function (iterables exhausted with auto_to_list)")
    ctx.floor("async_variant pairs", len(tw), 12)
    for an, sn in sorted(tw.items()):
        af, sf = m.defs[an], m.defs.get(sn)
        ctx.need(isinstance(sf, ast.FunctionDef), f"sync twin {sn} of {an} vanished")
        mode = MODES.get(an)
        if mode is None:
            ctx.bad(f"filters:{an}", "unregistered twin", f"{an} is an async variant of {sn} but no comparison mode is registered for it", f"{m.rel}:{af.lineno}")
            continue
        if mode == "equivalent":
            ok, diff = body_same(sf, af)
            ctx.check(ok, f"{an}~{sn}", f"filters:{an}", f"differs from {sn}", f"async {an} is not {sn} under erasure: {diff} - async mode renders something else than sync mode", f"{m.rel}:{af.lineno}", detail={"async": an, "sync": sn, "mode": mode})
        elif mode == "forwarding":
            body = [s for s in norm(af).body if not (isinstance(s, ast.Expr) and isinstance(s.value, ast.Constant))]  # a local naming the exhausted iterable is inlined
            ok = len(body) == 1 and isinstance(body[0], ast.Return) and isinstance(body[0].value, ast.Call) and ast.unparse(body[0].value.func) == sn
            detail = ""
            if ok:
                call = body[0].value  # type: ignore[union-attr]
                aparams = [p for p, _ in sig(af)]
                sparams = [p for p, _ in sig(sf)]
                args = []
                for a_ in call.args:
                    t_ = ast.unparse(a_)
                    if t_.startswith("await auto_to_list(") and t_.endswith(")"):
                        t_ = t_[len("await auto_to_list("):-1]
                    args.append(t_)
                kw = {k.arg: ast.unparse(k.value) for k in call.keywords}
                forwarded = args + [kw.get(p, None) for p in sparams[len(args):]]
                ok = aparams == sparams and forwarded == aparams
                detail = f"forwards {forwarded} to {sn}{tuple(sparams)}"
            ctx.check(ok, f"{an}->{sn}", f"filters:{an}", f"does not forward all parameters to {sn}", f"async {an} must be `return {sn}(<same parameters in order, iterables through await auto_to_list>)`; {detail}", f"{m.rel}:{af.lineno}", detail={"async": an, "sync": sn, "mode": mode})
        else:
            # reviewed-different: minimal structural obligations
            s = ast.unparse(af)
            # the accumulator is whatever local is returned (any name)
            rets_ = [r_ for r_ in ast.walk(af) if isinstance(r_, ast.Return) and isinstance(r_.value, ast.Name)]
            from_start = {a_.targets[0].id for a_ in ast.walk(af) if isinstance(a_, ast.Assign) and len(a_.targets) == 1 and isinstance(a_.targets[0], ast.Name) and ast.unparse(a_.value) == "start"}
            acc = next((r_.value.id for r_ in rets_ if r_.value.id in from_start), None)  # type: ignore[union-attr]
            starts = [a_ for a_ in ast.walk(af) if isinstance(a_, ast.Assign) and len(a_.targets) == 1 and isinstance(a_.targets[0], ast.Name) and a_.targets[0].id == acc and ast.unparse(a_.value) == "start"]
            loops_ = [l_ for l_ in ast.walk(af) if isinstance(l_, ast.AsyncFor) and ast.unparse(l_.iter) == "auto_aiter(iterable)"]
            adds = [a_ for l_ in loops_ for a_ in ast.walk(l_) if (isinstance(a_, ast.Assign) and isinstance(a_.targets[0], ast.Name) and a_.targets[0].id == acc and isinstance(a_.value, ast.BinOp) and isinstance(a_.value.op, ast.Add) and ast.unparse(a_.value.left) == acc) or (isinstance(a_, ast.AugAssign) and isinstance(a_.op, ast.Add) and ast.unparse(a_.target) == acc)]
            ok = acc is not None and len(starts) == 1 and len(loops_) == 1 and len(adds) == 1 and "make_attrgetter(environment, attribute)" in s
            ctx.check(ok, f"{an}:reviewed", f"filters:{an}", "reviewed-different twin changed shape", f"{an} ({mode}) no longer starts from `start`, adds every (attribute of every) item and returns the accumulator", f"{m.rel}:{af.lineno}")
    for helper_s, helper_a in (("select_or_reject", "async_select_or_reject"),):
        ok, diff = body_same(m.defs[helper_s], m.defs[helper_a])
        ctx.check(ok, f"{helper_a}~{helper_s}", f"filters:{helper_a}", f"differs from {helper_s}", f"{helper_a} is not {helper_s} under erasure: {diff}", f"{m.rel}:{m.defs[helper_a].lineno}")

    ctx.rule(rid_sig, "twin signatures agree (names, order, defaults)")
    for an, sn in sorted(tw.items()):
        a, s = sig(m.defs[an]), sig(m.defs[sn])
        ctx.check(a == s, f"sig:{an}", f"filters:{an}", f"signature differs from {sn}", f"{an}{a} vs {sn}{s}: an argument is accepted / defaulted differently in async mode", f"{m.rel}:{m.defs[an].lineno}")

    ctx.rule(rid_reg, "FILTERS registers the dispatching wrapper (the async_variant-decorated function) for every twin, never the bare sync function")
    ft = repo.const_map("filters:FILTERS")
    vals = set(ft.values())
    for an, sn in sorted(tw.items()):
        ctx.check(an in vals and sn not in vals, f"reg:{an}", "filters:FILTERS", f"{sn} registered instead of {an}", f"FILTERS must map to {an} (the sync/async dispatcher), not to {sn}: in async mode the filter would receive un-awaited / async iterables", f"{m.rel}")
