"""E6 - a small statement-level control-flow graph for the statement kinds the package uses.

Nodes are statements (plus synthetic ENTRY / EXIT / RAISE nodes and one TEST node per
``if`` / ``while`` / loop header).  Edges carry an optional label ``(test_node, bool)`` for
the two outcomes of a test, or ``("exc", handler)`` for exceptional transfer into an
``except`` clause.  Path rules are reachability questions on the graph with some nodes or
edges removed (must-pass-through, guard dominance, pairing).
"""

from __future__ import annotations

import ast
import typing as t


class N:
    __slots__ = ("kind", "stmt", "id", "succ", "pred")

    def __init__(self, kind: str, stmt: ast.AST | None, id_: int) -> None:
        self.kind = kind  # entry exit raise stmt test loop handler
        self.stmt = stmt
        self.id = id_
        self.succ: list[tuple["N", t.Any]] = []
        self.pred: list[tuple["N", t.Any]] = []

    def __repr__(self) -> str:
        s = ""
        if self.stmt is not None:
            try:
                s = ast.unparse(self.stmt).split("\n")[0][:60]
            except Exception:
                s = type(self.stmt).__name__
        return f"<{self.id}:{self.kind} {s}>"


class CFG:
    def __init__(self, func: ast.AST) -> None:
        self.func = func
        self.nodes: list[N] = []
        self.entry = self._new("entry", None)
        self.exit = self._new("exit", None)  # normal return / fall off
        self.raise_ = self._new("raise", None)  # uncaught exception
        self.by_stmt: dict[int, N] = {}
        # stacks while building
        self._loops: list[tuple[N, N]] = []  # (continue target, break target)
        self._handlers: list[list[N]] = []  # enclosing try handler entry nodes
        self._finally: list[list[ast.stmt]] = []
        last = self._block(func.body, [(self.entry, None)])  # type: ignore[attr-defined]
        for n, lab in last:
            self._edge(n, self.exit, lab)

    # ------------------------------------------------------------ construction
    def _new(self, kind: str, stmt: ast.AST | None) -> N:
        n = N(kind, stmt, len(self.nodes))
        self.nodes.append(n)
        if stmt is not None and kind in ("stmt", "test", "loop"):
            self.by_stmt[id(stmt)] = n
        return n

    def _edge(self, a: N, b: N, label: t.Any = None) -> None:
        a.succ.append((b, label))
        b.pred.append((a, label))

    def _connect(self, frontier: list[tuple[N, t.Any]], node: N) -> None:
        for n, lab in frontier:
            self._edge(n, node, lab)

    def _exc_edges(self, node: N) -> None:
        """A statement inside a try body may transfer to each enclosing handler."""
        if self._handlers:
            for h in self._handlers[-1]:
                self._edge(node, h, ("exc", h))
        else:
            pass

    def _block(self, body: list[ast.stmt], frontier: list[tuple[N, t.Any]]) -> list[tuple[N, t.Any]]:
        for st in body:
            frontier = self._stmt(st, frontier)
        return frontier

    def _stmt(self, st: ast.stmt, frontier: list[tuple[N, t.Any]]) -> list[tuple[N, t.Any]]:
        if isinstance(st, ast.If):
            test = self._new("test", st)
            self._connect(frontier, test)
            self._exc_edges(test)
            out = self._block(st.body, [(test, (test, True))])
            out += self._block(st.orelse, [(test, (test, False))])
            return out
        if isinstance(st, (ast.While,)):
            test = self._new("test", st)
            self._connect(frontier, test)
            self._exc_edges(test)
            brk = self._new("stmt", None)
            self._loops.append((test, brk))
            body_out = self._block(st.body, [(test, (test, True))])
            self._loops.pop()
            self._connect(body_out, test)
            infinite = isinstance(st.test, ast.Constant) and bool(st.test.value)
            out: list[tuple[N, t.Any]] = []
            if not infinite:
                out = self._block(st.orelse, [(test, (test, False))])
            if brk.pred:
                out.append((brk, None))
            return out
        if isinstance(st, (ast.For, ast.AsyncFor)):
            head = self._new("loop", st)
            self._connect(frontier, head)
            self._exc_edges(head)
            brk = self._new("stmt", None)
            self._loops.append((head, brk))
            body_out = self._block(st.body, [(head, (head, True))])
            self._loops.pop()
            self._connect(body_out, head)
            out = self._block(st.orelse, [(head, (head, False))])
            if brk.pred:
                out.append((brk, None))
            return out
        if isinstance(st, (ast.With, ast.AsyncWith)):
            node = self._new("stmt", st)
            self._connect(frontier, node)
            self._exc_edges(node)
            return self._block(st.body, [(node, None)])
        if isinstance(st, ast.Try):
            hnodes = [self._new("handler", h) for h in st.handlers]
            for hn in hnodes:
                self.by_stmt[id(hn.stmt)] = hn
            fin_entry: N | None = None
            if st.finalbody:
                # exceptional entry into finally: modelled as a handler-like node that
                # afterwards re-raises
                fin_entry = self._new("handler", None)
            targets = list(hnodes)
            if fin_entry is not None:
                targets.append(fin_entry)
            elif self._handlers:
                # an exception not caught here propagates outward
                targets += self._handlers[-1]
            self._handlers.append(targets)
            tnode = self._new("stmt", None)  # marks try entry
            self._connect(frontier, tnode)
            body_out = self._block(st.body, [(tnode, None)])
            self._handlers.pop()
            # handlers run outside this try's protection (but inside the finally)
            if fin_entry is not None:
                self._handlers.append([fin_entry])
            else_out = self._block(st.orelse, body_out)
            outs = list(else_out)
            for hn, h in zip(hnodes, st.handlers):
                outs += self._block(h.body, [(hn, None)])
            if fin_entry is not None:
                self._handlers.pop()
                # normal path through finally
                fin_out = self._block(st.finalbody, outs)
                # exceptional path through finally then onwards to outer handlers/raise
                exc_out = self._block(st.finalbody, [(fin_entry, None)])
                for n, lab in exc_out:
                    if self._handlers:
                        for h2 in self._handlers[-1]:
                            self._edge(n, h2, ("exc", h2))
                    else:
                        self._edge(n, self.raise_, lab)
                return fin_out
            return outs
        if isinstance(st, ast.Return):
            node = self._new("stmt", st)
            self._connect(frontier, node)
            self._exc_edges(node)
            self._edge(node, self.exit)
            return []
        if isinstance(st, ast.Raise):
            node = self._new("stmt", st)
            self._connect(frontier, node)
            if self._handlers:
                for h in self._handlers[-1]:
                    self._edge(node, h, ("exc", h))
            else:
                self._edge(node, self.raise_)
            return []
        if isinstance(st, ast.Continue):
            node = self._new("stmt", st)
            self._connect(frontier, node)
            if self._loops:
                self._edge(node, self._loops[-1][0])
            return []
        if isinstance(st, ast.Break):
            node = self._new("stmt", st)
            self._connect(frontier, node)
            if self._loops:
                self._edge(node, self._loops[-1][1])
            return []
        if isinstance(st, ast.Match):
            node = self._new("test", st)
            self._connect(frontier, node)
            out = []
            for c in st.cases:
                out += self._block(c.body, [(node, None)])
            out.append((node, None))
            return out
        node = self._new("stmt", st)
        self._connect(frontier, node)
        self._exc_edges(node)
        return [(node, None)]

    # ---------------------------------------------------------------- queries
    def node_of(self, stmt: ast.AST) -> N | None:
        return self.by_stmt.get(id(stmt))

    def stmt_nodes(self) -> list[N]:
        return [n for n in self.nodes if n.stmt is not None]

    def reachable(
        self,
        start: N,
        skip_nodes: t.Callable[[N], bool] | None = None,
        skip_edge: t.Callable[[N, N, t.Any], bool] | None = None,
        follow_exc: bool = True,
    ) -> set[int]:
        seen = {start.id}
        todo = [start]
        while todo:
            n = todo.pop()
            for m, lab in n.succ:
                if m.id in seen:
                    continue
                if not follow_exc and isinstance(lab, tuple) and lab and lab[0] == "exc":
                    continue
                if skip_edge is not None and skip_edge(n, m, lab):
                    continue
                if skip_nodes is not None and skip_nodes(m):
                    continue
                seen.add(m.id)
                todo.append(m)
        return seen

    def must_pass(self, start: N, target: N, via: t.Callable[[N], bool], follow_exc: bool = True) -> bool:
        """Every path start -> target passes a node satisfying ``via``."""
        if via(start) or via(target):
            return True
        r = self.reachable(start, skip_nodes=via, follow_exc=follow_exc)
        return target.id not in r

    def enclosing_stmt_node(self, node: ast.AST) -> N | None:
        """CFG node of the statement that contains an expression node."""
        cur: ast.AST | None = node
        while cur is not None:
            n = self.by_stmt.get(id(cur))
            if n is not None:
                return n
            cur = getattr(cur, "_parent", None)
        return None


# ------------------------------------------------------------- syntactic guards
def guards_of(node: ast.AST, stop: ast.AST | None = None) -> list[tuple[ast.expr, bool]]:
    """The ``if``/``while``/conditional-expression tests a node is nested under, with the branch
    polarity (True = body, False = orelse), innermost first.  Purely structural."""
    out: list[tuple[ast.expr, bool]] = []
    child = node
    cur = getattr(node, "_parent", None)
    while cur is not None and cur is not stop:
        if isinstance(cur, (ast.If, ast.While)):
            if any(child is s for s in cur.body):
                out.append((cur.test, True))
            elif any(child is s for s in cur.orelse):
                out.append((cur.test, False))
        elif isinstance(cur, ast.IfExp):
            if child is cur.body:
                out.append((cur.test, True))
            elif child is cur.orelse:
                out.append((cur.test, False))
        elif isinstance(cur, ast.BoolOp) and isinstance(cur.op, ast.And):
            idx = [i for i, v in enumerate(cur.values) if v is child]
            if idx:
                for v in cur.values[: idx[0]]:
                    out.append((v, True))
        elif isinstance(cur, ast.BoolOp) and isinstance(cur.op, ast.Or):
            idx = [i for i, v in enumerate(cur.values) if v is child]
            if idx:
                for v in cur.values[: idx[0]]:
                    out.append((v, False))
        elif isinstance(cur, (ast.FunctionDef, ast.AsyncFunctionDef, ast.Lambda, ast.ClassDef)):
            break
        child = cur
        cur = getattr(cur, "_parent", None)
    return out


def early_exit_guards(func: ast.AST, node: ast.AST) -> list[tuple[ast.expr, bool]]:
    """Tests whose *failure* is implied at ``node`` because an earlier sibling ``if`` ended in
    return/raise/continue/break: ``if c: return`` before S means ``not c`` at S."""
    out: list[tuple[ast.expr, bool]] = []
    child: ast.AST = node
    cur = getattr(node, "_parent", None)
    while cur is not None:
        for field in ("body", "orelse", "finalbody"):
            seq = getattr(cur, field, None)
            if isinstance(seq, list) and any(child is s for s in seq):
                idx = [i for i, s in enumerate(seq) if s is child][0]
                for prev in seq[:idx]:
                    if isinstance(prev, ast.If) and _always_leaves(prev.body) and not prev.orelse:
                        out.append((prev.test, False))
                    elif isinstance(prev, ast.If) and prev.orelse and _always_leaves(prev.orelse) and not _always_leaves(prev.body):
                        out.append((prev.test, True))
        if isinstance(cur, (ast.FunctionDef, ast.AsyncFunctionDef, ast.Lambda)):
            break
        child = cur
        cur = getattr(cur, "_parent", None)
    return out


def _always_leaves(body: list[ast.stmt]) -> bool:
    if not body:
        return False
    last = body[-1]
    if isinstance(last, (ast.Return, ast.Raise, ast.Continue, ast.Break)):
        return True
    if isinstance(last, ast.If) and last.orelse:
        return _always_leaves(last.body) and _always_leaves(last.orelse)
    if isinstance(last, ast.Expr) and isinstance(last.value, ast.Call):
        # calls to NoReturn helpers of the package
        name = ast.unparse(last.value.func)
        if name.split(".")[-1] in ("fail", "fail_eof", "fail_unknown_tag", "_fail_ut_eof", "handle_exception", "_fail_with_undefined_error"):
            return True
    return False


def enclosing_try(node: ast.AST, stop: ast.AST | None = None) -> list[tuple[ast.Try, str]]:
    """Enclosing ``try`` statements with the part the node lies in (body/handler/orelse/finalbody)."""
    out: list[tuple[ast.Try, str]] = []
    child = node
    cur = getattr(node, "_parent", None)
    while cur is not None and cur is not stop:
        if isinstance(cur, ast.Try):
            if any(child is s for s in cur.body):
                out.append((cur, "body"))
            elif any(child is s for s in cur.orelse):
                out.append((cur, "orelse"))
            elif any(child is s for s in cur.finalbody):
                out.append((cur, "finalbody"))
        elif isinstance(cur, ast.ExceptHandler):
            p = getattr(cur, "_parent", None)
            if isinstance(p, ast.Try):
                out.append((p, "handler"))
                child = p
                cur = getattr(p, "_parent", None)
                continue
        elif isinstance(cur, (ast.FunctionDef, ast.AsyncFunctionDef, ast.Lambda)):
            break
        child = cur
        cur = getattr(cur, "_parent", None)
    return out


def handler_types(h: ast.ExceptHandler) -> set[str]:
    if h.type is None:
        return {"BaseException"}
    if isinstance(h.type, ast.Tuple):
        return {ast.unparse(e) for e in h.type.elts}
    return {ast.unparse(h.type)}


# exception hierarchy facts used by handler-coverage rules (builtins only)
EXC_PARENTS = {
    "BaseException": None,
    "Exception": "BaseException",
    "ArithmeticError": "Exception",
    "OverflowError": "ArithmeticError",
    "ZeroDivisionError": "ArithmeticError",
    "LookupError": "Exception",
    "IndexError": "LookupError",
    "KeyError": "LookupError",
    "ValueError": "Exception",
    "UnicodeError": "ValueError",
    "UnicodeDecodeError": "UnicodeError",
    "UnicodeEncodeError": "UnicodeError",
    "TypeError": "Exception",
    "AttributeError": "Exception",
    "EOFError": "Exception",
    "ImportError": "Exception",
    "ModuleNotFoundError": "ImportError",
    "MemoryError": "Exception",
    "OSError": "Exception",
    "IOError": "Exception",
    "FileNotFoundError": "OSError",
    "IsADirectoryError": "OSError",
    "PermissionError": "OSError",
    "RuntimeError": "Exception",
    "RecursionError": "RuntimeError",
    "NotImplementedError": "RuntimeError",
    "StopIteration": "Exception",
    "StopAsyncIteration": "Exception",
    "SyntaxError": "Exception",
    "AssertionError": "Exception",
    "pickle.UnpicklingError": "Exception",
    "pickle.PickleError": "Exception",
    "KeyboardInterrupt": "BaseException",
    "SystemExit": "BaseException",
    "GeneratorExit": "BaseException",
    "asyncio.CancelledError": "BaseException",
}


def catches(handler_set: set[str], exc: str) -> bool:
    cur: str | None = exc
    while cur is not None:
        if cur in handler_set:
            return True
        cur = EXC_PARENTS.get(cur)
    return False
